"""Fixed corpus for checker self-validation (thorough tier): regex mutants that must make the named property's check fire,
and benign twins on which every check must stay silent.  Patterns are Python regexes applied to the file under src/genjax."""

CM = "_src/core/generative/choice_map.py"
ST = "_src/core/compiler/staging.py"
FT = "_src/core/generative/functional_types.py"
INC = "_src/core/compiler/interpreters/incremental.py"
SF = "_src/core/compiler/interpreters/stateful.py"
TT = "_src/core/compiler/interpreters/time_travel.py"
ISP = "_src/core/compiler/initial_style_primitive.py"
DIST = "_src/generative_functions/distributions/distribution.py"
TFP = "_src/generative_functions/distributions/tensorflow_probability/__init__.py"
VI = "_src/inference/vi.py"
SMC = "_src/inference/smc.py"
SP = "_src/inference/sp.py"
SCAN = "_src/generative_functions/combinators/scan.py"
VMAP = "_src/generative_functions/combinators/vmap.py"
SW = "_src/generative_functions/combinators/switch.py"
MASK = "_src/generative_functions/combinators/mask.py"
DIMAP = "_src/generative_functions/combinators/dimap.py"
STATIC = "_src/generative_functions/static.py"
GF = "_src/core/generative/generative_function.py"
REQ = "_src/core/generative/requests.py"
HMC = "_src/inference/requests/hmc.py"
REJ = "_src/inference/requests/rejuvenate.py"
ADP = "_src/adev/primitives.py"
ADC = "_src/adev/core.py"
HMM = "_src/generative_functions/distributions/custom/discrete_hmm.py"
PYT = "_src/core/pytree.py"

# (id, properties whose check must fire, file, regex, replacement[, nth])
MUTANTS = [
    # ---- selections (C18)
    ("sel-or-none-left", ["C18"], CM, r"case \(NoneSel\(\), _\):\n                return b", "case (NoneSel(), _):\n                return a"),
    ("sel-compl-check", ["C18"], CM, r"return not self.s.check\(\)", "return self.s.check()"),
    ("sel-and-sub-or", ["C18"], CM, r"remaining2 = self.s2\(addr\)\n        return remaining1 & remaining2", "remaining2 = self.s2(addr)\n        return remaining1 | remaining2"),
    ("sel-extend-order", ["C18"], CM, r"for addr in reversed\(addrs\):\n            acc = StaticSel", "for addr in addrs:\n            acc = StaticSel"),
    ("sel-static-neq", ["C18"], CM, r"if addr == self.addr:\n            return self.s", "if addr != self.addr:\n            return self.s"),
    ("sel-compl-all", ["C18"], CM, r"case AllSel\(\):\n                return Selection.none\(\)", "case AllSel():\n                return Selection.all()"),
    # ---- staging (C20, C23)
    ("flag-or-and", ["C20", "C19", "C23"], ST, r"return f \| g", "return f & g"),
    ("flag-where-swap", ["C20", "C19", "C23"], ST, r"return jnp.where\(f, tf, ff\)", "return jnp.where(f, ff, tf)"),
    ("choose-clip", ["C20", "C23"], ST, r'mode="wrap"', 'mode="clip"'),
    ("mswitch-slot0", ["C20"], ST, r"shapes\[static_idx\] = f\(\*args\)", "shapes[0] = f(*args)"),
    ("flag-not-ident", ["C20", "C19", "C23"], ST, r"case True:\n                return False\n            case False:\n                return True", "case True:\n                return True\n            case False:\n                return False"),
    ("choose-int-nomod", ["C20", "C23"], ST, r"vs\[idx % len\(vs\)\]", "vs[idx]"),
    ("stage-aval-strong", ["C09", "C36"], ST, r"return jc.get_aval\(x\)", "return jc.ShapedArray(jnp.shape(x), jnp.result_type(x))"),
    # ---- masks (C19, C23)
    ("mask-or-false-self", ["C19", "C23"], FT, r"case False, _:\n                return other", "case False, _:\n                return self"),
    ("mask-oridx", ["C19", "C23"], FT, r"return first \+ 2 \* FlagOp", "return first + FlagOp"),
    ("mask-xor-swap", ["C19", "C23"], FT, r"case True, False:\n                return self\n            case False, True:\n                return other", "case True, False:\n                return other\n            case False, True:\n                return self"),
    ("mask-xor-flag-or", ["C19", "C23"], FT, r"return Mask\(chosen, FlagOp.xor_\(self_flag, other_flag\)\)", "return Mask(chosen, FlagOp.or_(self_flag, other_flag))"),
    ("mask-unmask-swap", ["C19", "C23"], FT, r"return jnp.where\(flag, true_v, false_v\)", "return jnp.where(flag, false_v, true_v)"),
    ("mask-flatten-swap", ["C19", "C23"], FT, r"if FlagOp.concrete_false\(flag\):\n            return None\n        elif FlagOp.concrete_true\(flag\)", "if FlagOp.concrete_true(flag):\n            return None\n        elif FlagOp.concrete_false(flag)"),
    # ---- incremental / stateful / isp (C08, C09, C36)
    ("prop-check-after-strip", ["C08", "C09", "C21"], INC, r"check = Diff.static_check_no_change\(args\)\n    args = Diff.tree_primal\(args\)", "args = Diff.tree_primal(args)\n    check = Diff.static_check_no_change(args)"),
    ("prop-arms-swapped", ["C08", "C09", "C21"], INC, r"if check:\n        return Diff.no_change\(outval\)\n    else:\n        return Diff.unknown_change\(outval\)", "if check:\n        return Diff.unknown_change(outval)\n    else:\n        return Diff.no_change(outval)"),
    ("inc-consts-unknown", ["C09"], INC, r"dual_env.write, jaxpr.constvars, Diff.no_change\(consts\)", "dual_env.write, jaxpr.constvars, Diff.unknown_change(consts)"),
    ("inc-literal-unknown", ["C09"], INC, r"Diff\(v, NoChange\) if not isinstance", "Diff(v, UnknownChange) if not isinstance"),
    ("nochange-any", ["C08", "C09", "C21"], INC, r"return all\(\n            map\(\n                lambda leaf: isinstance\(leaf, _NoChange\)", "return any(\n            map(\n                lambda leaf: isinstance(leaf, _NoChange)"),
    ("stateful-wrap-inverted", ["C36"], SF, r"if not eqn.primitive.multiple_results:", "if eqn.primitive.multiple_results:"),
    ("stateful-consts-args", ["C36"], SF, r"jax_util.safe_map\(env.write, jaxpr.constvars, consts\)", "jax_util.safe_map(env.write, jaxpr.constvars, args)"),
    ("isp-numconsts", ["C36"], ISP, r"num_consts=len\(jaxpr.literals\)", "num_consts=len(flat_args)"),
    ("isp-chain-order", ["C36"], ISP, r"it.chain\(jaxpr.literals, flat_args\)", "it.chain(flat_args, jaxpr.literals)"),
    # ---- requests / shortcuts (C08, C38, C07)
    ("empty-shortcut-partial", ["C08", "C38"], REQ, r"if Diff.static_check_no_change\(argdiffs\):", "if Diff.static_check_no_change(argdiffs[:1]):"),
    ("regen-shortcut-partial", ["C08", "C07"], DIST, r"if Diff.static_check_no_change\(argdiffs\):", "if Diff.static_check_no_change(argdiffs[0]):"),
    # ---- debugger (C31)
    ("tt-fwd-bound", ["C31"], TT, r"if new_ptr >= len\(self.sequence\):", "if new_ptr > len(self.sequence):"),
    ("tt-bwd-bound", ["C31"], TT, r"if new_ptr >= len\(self.sequence\) or new_ptr < 0:", "if new_ptr >= len(self.sequence) or new_ptr < -1:"),
    ("tt-kont-same-eqn", ["C31"], TT, r"eqns\[eqn_idx \+ 1 :\],\n                                env,\n                                eqn.outvars,\n                                leaves,", "eqns[eqn_idx:],\n                                env,\n                                eqn.outvars,\n                                leaves,"),
    ("tt-jump-index", ["C31"], TT, r"jump_points\[debug_tag\] = len\(sequence\) - 1", "jump_points[debug_tag] = len(sequence)"),
    # ---- distributions (C24, C02, C03)
    ("tfp-gamma-wrong", ["C24"], TFP, r"gamma = tfp_distribution\(tfd.Gamma\)", "gamma = tfp_distribution(tfd.InverseGamma)"),
    ("tfp-prob", ["C24"], TFP, r"return d.log_prob\(v\)", "return d.prob(v)"),
    ("logit-probs", ["C24"], DIST, r"return dist\(logits=implicit_logits, \*\*kwargs\)", "return dist(probs=implicit_logits, **kwargs)"),
    ("gen-weight-nonzero", ["C03"], DIST, r"tr = self.simulate\(key, args\)\n                return tr, jnp.array\(0.0\)", "tr = self.simulate(key, args)\n                return tr, tr.get_score()"),
    ("gen-mask-arms-swapped", ["C03", "C35"], DIST, r"jax.lax.cond\(flag, _importance, _simulate, key, value\)", "jax.lax.cond(flag, _simulate, _importance, key, value)"),
    ("project-polarity", ["C10"], DIST, r"selection.check\(\),\n            trace.get_score\(\),\n            jnp.array\(0.0\),", "selection.check(),\n            jnp.array(0.0),\n            trace.get_score(),"),
    ("upd-bwd-new", ["C05", "C06"], DIST, r"discard = trace.get_choices\(\)", "discard = new_tr.get_choices()"),
    # ---- VI (C30)
    ("elbo-sign", ["C30"], VI, r"w = guide_alg.estimate_normalizing_constant\(key, target\)\n            return -w", "w = guide_alg.estimate_normalizing_constant(key, target)\n            return w"),
    ("pwake-key", ["C30"], VI, r"tr, _ = target.importance\(sub_key2, sample\)", "tr, _ = target.importance(sub_key1, sample)"),
    ("vi-family", ["C30"], VI, r"normal_reparam = adev_distribution\(normal_reparam, logpdf\(normal\)", "normal_reparam = adev_distribution(normal_reparam, logpdf(geometric)"),
    # ---- choice maps (C17, C33, C35)
    ("or-empty-wrong", ["C17"], CM, r"if c2.static_is_empty\(\):\n            return c1", "if c2.static_is_empty():\n            return c2"),
    ("builder-set-right", ["C17"], CM, r"return chm \+ self.choice_map", "return self.choice_map + chm"),
    ("or-filter-order", ["C17"], CM, r"return self.c1.filter\(selection\) \| self.c2.filter\(selection\)", "return self.c2.filter(selection) | self.c1.filter(selection)"),
    ("merge-order", ["C17"], CM, r"merged_dict\[key\] = merge\(c1.get_submap\(key\), c2.get_submap\(key\)\)", "merged_dict[key] = merge(c2.get_submap(key), c1.get_submap(key))"),
    ("indexed-mask-neq", ["C17", "C35"], CM, r"return self.c.mask\(self.addr == addr\)", "return self.c.mask(self.addr != addr)"),
    ("invalid-polarity", ["C33"], CM, r"extras = self.filter\(~shape_sel\)", "extras = self.filter(shape_sel)"),
    ("shape-indexed-noext", ["C33"], CM, r"return loop\(c, selection\).extend\(\.\.\.\)", "return loop(c, selection)"),
    ("shape-static-assign", ["C33"], CM, r"acc \|= loop\(sub_chm, sub_sel\).extend\(addr\)", "acc = loop(sub_chm, sub_sel).extend(addr)"),
    # ---- GFI combinators
    ("vmap-score-mean", ["C01", "C02", "C11"], VMAP, r"score = jnp.sum\(jax.vmap\(lambda tr: tr.get_score\(\)\)\(tr\)\)", "score = jnp.mean(jax.vmap(lambda tr: tr.get_score())(tr))"),
    ("vmap-keys-shared", ["C04", "C11"], VMAP, r"tr = jax.vmap\(self.gen_fn.simulate, \(0, self.in_axes\)\)\(sub_keys, args\)", "tr = jax.vmap(self.gen_fn.simulate, (None, self.in_axes))(key, args)"),
    ("scan-counter-stuck", ["C12", "C03"], SCAN, r"return \(key, idx \+ 1, carried_out\), \(tr, scanned_out, score, w\)", "return (key, idx, carried_out), (tr, scanned_out, score, w)"),
    ("scan-assess-carry", ["C01", "C12"], SCAN, r"return \(idx \+ 1, carry\), \(scanned_out, score\)", "return (idx + 1, carried_value), (scanned_out, score)"),
    ("scan-gen-weight-scores", ["C03", "C12"], SCAN, r"jnp.sum\(ws\),\n        \)\n\n    def project", "jnp.sum(scores),\n        )\n\n    def project"),
    ("mask-gen-nogate", ["C03", "C14"], MASK, r"return MaskTrace.build\(self, tr, check\), w \* check", "return MaskTrace.build(self, tr, check), w"),
    ("mask-score-nogate", ["C02", "C14", "C01"], MASK, r"score = check \* inner.get_score\(\)", "score = inner.get_score()"),
    ("dimap-assess-order", ["C15", "C01"], DIMAP, r"retval = self.retval_mapping\(args, inner_args, inner_retval\)\n        return w, retval", "retval = self.retval_mapping(inner_args, args, inner_retval)\n        return w, retval"),
    ("dimap-edit-tangent-swap", ["C15", "C08"], DIMAP, r"\(primals, inner_retval_primals\),\n            \(tangents, inner_retval_tangents\),", "(primals, inner_retval_primals),\n            (inner_retval_tangents, tangents),"),
    ("switch-proj-rawidx", ["C10", "C13"], SW, r"idx = trace.get_idx\(\)\n\n        fs = list\(f.project", "idx = trace.get_args()[0]\n\n        fs = list(f.project"),
    ("static-project-skip", ["C10"], STATIC, r"subprojection = selection\(addr\)", "subprojection = selection"),
    ("static-gen-noweight", ["C03"], STATIC, r"\(tr, w\) = gen_fn.generate\(sub_key, subconstraint, args\)\n        self.weight \+= w", "(tr, w) = gen_fn.generate(sub_key, subconstraint, args)\n        self.weight = w"),
    ("static-key-noincr", ["C04"], STATIC, r"new_key = jax.random.fold_in\(self.key, self.key_counter\)\n        self.key_counter \+= 1\n        return new_key\n\n    def yield_state\(self\):\n        return self.traces", "new_key = jax.random.fold_in(self.key, self.key_counter)\n        return new_key\n\n    def yield_state(self):\n        return self.traces"),
    ("static-record-after", ["C22"], STATIC, r"self.visit\(addr\)\n        self.traces\[addr\] = trace", "self.traces[addr] = trace\n        self.visit(addr)"),
    ("static-assess-nomissing", ["C22"], STATIC, r"if submap.static_is_empty\(\):\n            raise MissingAddress\(addr\)\n", ""),
    ("closure-assess-noprefix", ["C32"], GF, r"return self.gen_fn.assess\(sample, full_args\)", "return self.gen_fn.assess(sample, args)"),
    # NB: `retval = self.simulate(key, args).get_retval()` (same key) is behaviour-preserving in pure JAX and the evaluator correctly treats it as equal; the mutant uses another key
    ("propose-two-sims", ["C04", "C38"], GF, r"retval = tr.get_retval\(\)\n        return sample, score, retval", "retval = self.simulate(jax_key_other(key), args).get_retval()\n        return sample, score, retval"),
    ("trace-project-swap", ["C38"], GF, r"return gen_fn.project\(\n            key,\n            self,\n            selection,\n        \)", "return gen_fn.project(\n            key,\n            selection,\n            self,\n        )"),
    # ---- inference
    ("hmc-kick-coef", ["C28"], HMC, r"lambda v, g: v \+ \(self.eps / 2\) \* g, momenta, gradients", "lambda v, g: v + self.eps * g, momenta, gradients"),
    ("hmc-alpha-sign", ["C28"], HMC, r"final_model_score\n            - original_model_score", "original_model_score\n            - final_model_score"),
    ("rej-weight-sign", ["C27"], REJ, r"final_weight = w \+ bwd_proposal_score - fwd_proposal_score", "final_weight = w - bwd_proposal_score + fwd_proposal_score"),
    ("smc-reweight-sign", ["C26"], SMC, r"this_weight = new_weight - particle.get_score\(\) \+ weight", "this_weight = new_weight + particle.get_score() + weight"),
    ("smc-lml-nolog", ["C26"], SMC, r"return logsumexp\(self.log_weights\) - jnp.log\(len\(self.log_weights\)\)", "return logsumexp(self.log_weights)"),
    ("target-filter-polarity", ["C26"], SP, r"selection = ~self.constraint.get_selection\(\)", "selection = self.constraint.get_selection()"),
    ("marginal-sample-compl", ["C25"], SP, r"latent_choices = choices.filter\(self.selection\)", "latent_choices = choices.filter(~self.selection)"),
    ("reinforce-drop", ["C29"], ADP, r"return Dual\(out_primal, out_tangent \+ \(out_primal \* lp_tangent\)\)", "return Dual(out_primal, out_tangent + lp_tangent)"),
    ("addcost-tangent", ["C29"], ADP, r"return Dual\(w \+ l_dual.primal, w_tangent \+ l_dual.tangent\)", "return Dual(w + l_dual.primal, w + l_dual.tangent)"),
    ("adev-konts-swapped", ["C29"], ADC, r"\(_sample_pure_kont, _sample_dual_kont\),", "(_sample_dual_kont, _sample_pure_kont),"),
    ("hmm-obs-trans", ["C37"], HMM, r"observation_distribution = tfd.Categorical\(logits=config.observation_tensor\(\)\)", "observation_distribution = tfd.Categorical(logits=config.transition_tensor())"),
    ("masked-iter-pre-swap", ["C16"], SCAN, r"def pre\(state, flag: Flag\):\n            return flag, state\n\n        def post\(args, _xformed", "def pre(state, flag: Flag):\n            return state, flag\n\n        def post(args, _xformed"),
    ("closure-fn-dynamic", ["C21", "C32"], PYT, r"fn: Callable\[\.\.\., R\] = Pytree.static\(\)", "fn: Callable[..., R] = Pytree.field()"),
    ("adev-pair-parallel", ["C29"], ADP, r"\(p_tangent, ret_tangents\)", "(p_tangent, p_tangent)"),
    ("adev-beta-primal", ["C29"], ADP, r"jax.jvp\(_inner, primals, tangents\)\n        return Dual\(primal_out, tangent_out\)", "jax.jvp(_inner, primals, tangents)\n        return Dual(key, tangent_out)"),
    ("adev-mvd-sign", ["C29"], ADP, r"other - b_primal", "other + b_primal"),
    ("adev-parallel-weights", ["C29"], ADP, r"jnp.array\(\[p, 1 - p\]\)", "jnp.array([p, 1 + p])"),
    ("adev-default-arm-tangent", ["C29"], ADC, r"Dual.dual_tree\(primal_outs, tangent_outs\)", "Dual.dual_tree(primal_outs, tangents)"),
    ("hmm-fwd-obs", ["C37"], HMM, r"obs = x\n", "obs = prev\n"),
    ("hmm-fwd-alpha", ["C37"], HMM, r"alpha = obs_n \+ alpha.reshape", "alpha = obs_n + prev.reshape"),
    ("hmm-fwd-branch", ["C37"], HMM, r"check = index == 0\n        alpha", "check = index != 0\n        alpha"),
    ("hmm-bwd-filter", ["C37"], HMM, r"backward_distribution = forward_filter \+", "backward_distribution = prev +"),
    ("hmm-bwd-noflip", ["C37"], HMM, r"jnp.flip\(forward_filters, axis=0\),", "forward_filters,"),
    ("hmm-result-flip", ["C37"], HMM, r"samples = jnp.flip\(samples\)", "samples = jnp.flip(prior)"),
    ("hmm-bwd-unnormalised-key", ["C37"], HMM, r"sample = jax.random.categorical\(key, backward_distribution\)", "sample = jax.random.categorical(prev, backward_distribution)"),
    ("hmm-bwd-transpose", ["C37"], HMM, r"transition_n\[:, prev_sample\]", "transition_n[prev_sample, :]"),
    ("hmm-fwd-wrong-axis", ["C37"], HMM, r"prev.reshape\(-1, 1\) \+ transition_n,\n                axis=0,", "prev + transition_n,\n                axis=-1,"),
    ("hmm-density-transpose", ["C37"], HMM, r"\[latent, obs\]", "[obs, latent]"),
    ("hmc-normal-score-square-outside", ["C28"], HMC, r"score = tfd.Normal\(0.0, 1.0\).log_prob\(v\)\n    if score.shape:\n        return jnp.sum\(score\)\n    else:\n        return score", "return -0.5 * (jnp.sum(v) ** 2 + jnp.size(v) * jnp.log(2 * jnp.pi))"),
    ("static-visit-raw-append", ["C22"], STATIC, r"self.visited.append\(path\)", "self.visited.append(addr)"),
    ("switch-retdiffs-from-key", ["C13", "C05"], SW, r"retdiffs = list\(rd for _, _, rd, _ in rets\)", "retdiffs = list(key for _, _, rd, _ in rets)"),
    ("static-compat-len", ["C34"], STATIC, r"and len\(address\) == 1", "and len(address) != 1"),
    ("static-dispatch-polarity", ["C22"], STATIC, r"if primitive == trace_p:", "if primitive != trace_p:"),
    ("env-write-dropvar-on-cell", ["C36", "C09"], "_src/core/compiler/interpreters/environment.py", r"if isinstance\(var, jc.DropVar\):", "if isinstance(cell, jc.DropVar):"),
    ("env-write-stores-old", ["C36", "C09"], "_src/core/compiler/interpreters/environment.py", r"self.env\[var.count\] = cell", "self.env[var.count] = cur_cell"),
    ("env-get-literal-item", ["C36", "C09"], "_src/core/compiler/interpreters/environment.py", r"return var.val", "return var.val.item() if hasattr(var.val, 'item') else var.val"),
    ("static-visit-equality-only", ["C22"], STATIC, r"if seen\[:common\] == path\[:common\]:", "if seen == path:"),
    ("vmap-leaf-unguarded", ["C11", "C04"], VMAP, r"if leaves:\n(\s+)return leaves\[0\]", "if True:\n\\1return leaves[0]"),
    ("subtrace-fold-order", ["C34", "C38"], GF, r"lambda tr, addr: tr.get_inner_trace\(addr\), addresses, self", "lambda tr, addr: tr.get_inner_trace(addr), reversed(addresses), self"),
]

# benign twins: behaviour-preserving edits; every check must stay silent on every twin.  (id, file, regex, replacement)
TWINS = [
    ("rename-local-rejuvenate", REJ, r"\bbwd_chm\b", "discard_chm"),
    ("rename-local-hmc", HMC, r"\bnew_trace\b", "updated_trace"),
    ("reorder-hmc-alpha", HMC, r"final_model_score\n            - original_model_score\n            \+ final_momenta_score\n            - original_momenta_score", "final_momenta_score\n            + final_model_score\n            - original_momenta_score\n            - original_model_score"),
    ("rej-weight-reorder", REJ, r"final_weight = w \+ bwd_proposal_score - fwd_proposal_score", "final_weight = bwd_proposal_score - fwd_proposal_score + w"),
    ("mask-score-commute", MASK, r"score = check \* inner.get_score\(\)", "score = inner.get_score() * check"),
    ("mask-gen-where", MASK, r"return MaskTrace.build\(self, tr, check\), w \* check", "return MaskTrace.build(self, tr, check), jnp.where(check, w, 0.0)"),
    ("mask-edit-reorder", MASK, r"f_to_t \* final_trace.get_score\(\)", "final_trace.get_score() * f_to_t"),
    ("vmap-temp", VMAP, r"w = jnp.sum\(weight_v\)\n        map_tr = VmapTrace.build\(self, tr, args, dim_length\)\n        return map_tr, w", "map_tr = VmapTrace.build(self, tr, args, dim_length)\n        total = jnp.sum(weight_v)\n        return map_tr, total"),
    ("scan-rename-counter", SCAN, r"\bcarried_value\b", "carry_in"),
    ("dist-rename", DIST, r"\bincremental_w\b", "delta_w"),
    ("dist-upd-temp", DIST, r"w = fwd - bwd\n                        new_tr = DistributionTrace\(self, primals, v, fwd\)\n                        discard", "new_tr = DistributionTrace(self, primals, v, fwd)\n                        w = fwd - bwd\n                        discard"),
    ("switch-rename", SW, r"\bbranch_args\b", "per_branch_args"),
    ("static-rename-handler", STATIC, r"\bstateful_handler\b", "handler"),
    ("sp-rename", SP, r"\blatent_choices\b", "selected_choices"),
    ("smc-reweight-reorder", SMC, r"this_weight = new_weight - particle.get_score\(\) \+ weight", "this_weight = weight + new_weight - particle.get_score()"),
    ("sel-rename", CM, r"\bremaining1\b", "left_sub"),
    ("flagop-or-commute", ST, r"return f \| g", "return g | f"),
    ("incremental-rename", INC, r"\boutduals\b", "out_diffs"),
    ("stateful-rename", SF, r"\boutvals\b", "results"),
    ("tt-rename", TT, r"\bnew_ptr\b", "candidate"),
    ("dimap-rename", DIMAP, r"\binner_retval_primals\b", "ret_primals"),
    ("closure-temp", GF, r"full_args = self.args \+ args\n        if self.kwargs:\n            maybe_kwarged_gen_fn = self._with_kwargs\(\)\n            return maybe_kwarged_gen_fn.assess", "stored = self.args\n        full_args = stored + args\n        if self.kwargs:\n            maybe_kwarged_gen_fn = self._with_kwargs()\n            return maybe_kwarged_gen_fn.assess"),
    ("adev-mvd-commute", ADP, r"est = \(\(-1\) \*\* v\) \* \(other - b_primal\)", "est = (other - b_primal) * ((-1) ** v)"),
    ("adev-enum-commute", ADP, r"return p \* tl \+ \(1 - p\) \* fl", "return (1 - p) * fl + tl * p"),
    ("adev-parallel-rename", ADP, r"\bret_tangents\b", "kont_tangents"),
    ("adev-reinforce-commute", ADP, r"out_tangent \+ \(out_primal \* lp_tangent\)", "(lp_tangent * out_primal) + out_tangent"),
    ("adev-core-rename", ADC, r"\btangent_outs\b", "t_outs"),
    ("hmm-commute-fwd", HMM, r"prev.reshape\(-1, 1\) \+ transition_n,", "transition_n + prev.reshape(-1, 1),"),
    ("hmm-commute-bwd", HMM, r"backward_distribution = forward_filter \+ transition_n\[:, prev_sample\]", "backward_distribution = transition_n[:, prev_sample] + forward_filter"),
    ("hmm-cond-polarity", HMM, r"check = index == 0\n        alpha = jax.lax.cond\(check, init_branch, t_branch, prev, obs\)", "alpha = jax.lax.cond(index != 0, t_branch, init_branch, prev, obs)"),
    ("vmap-leaves-rename", VMAP, r"\bleaves\b", "arr_leaves"),
    ("scan-length-flip", SCAN, r"return length if length is not None else jtu.tree_leaves\(xs\)\[0\].shape\[0\]", "return jtu.tree_leaves(xs)[0].shape[0] if length is None else length"),
    ("switch-same-idx-commute", SW, r"same_idx = new_idx == trace.get_idx\(\)", "same_idx = trace.get_idx() == new_idx"),
    ("incremental-outwrap-polarity", INC, r"return \[Diff\(v, NoChange\) if not isinstance\(v, Diff\) else v for v in outduals\]", "return [v if isinstance(v, Diff) else Diff(v, NoChange) for v in outduals]"),
    ("mask-bwd-filter", MASK, r"inner_chm.mask\(pre_check\)", "inner_chm.filter(pre_check)"),
    ("switch-retdiffs-rename", SW, r"\bretdiffs\b", "branch_retdiffs"),
    ("hmc-normal-score-closed-form", HMC, r"score = tfd.Normal\(0.0, 1.0\).log_prob\(v\)\n    if score.shape:\n        return jnp.sum\(score\)\n    else:\n        return score", "return -0.5 * (jnp.sum(v**2) + jnp.size(v) * jnp.log(2 * jnp.pi))"),
    ("adev-cond-key-rename", ADC, r"\bbranch_key\b", "arm_key"),
    ("static-visit-rename", STATIC, r"\bcommon\b", "shared_len"),
    ("mask-leading-rename", FT, r"\bextra\b", "missing_axes"),
    ("docstring-edit", SCAN, r"Prepends the initial accumulator value", "Prepends the first accumulator value"),
    ("comment-shift", DIST, r"(class Distribution\(Generic\[R\], GenerativeFunction\[R\]\):)", "# moved comment\n\n\n\\1"),
]


# (id, properties whose check must fire, refactoring twin applied first, file, regex, replacement): defects planted in the refactored spelling
REFACTORED_MUTANTS = [
    ("tag-helper-keeps-diffs", ["C08", "C09", "C15", "C21"], "C09b-r1", "_src/core/compiler/interpreters/incremental.py",
     r"primal_tree: R = Diff\.tree_primal\(tree\)\n        tangent_tree: R = jtu\.tree_map\(lambda _: tangent", "primal_tree: R = tree\n        tangent_tree: R = jtu.tree_map(lambda _: tangent"),
    ("tag-helper-inverted-choice", ["C08", "C09", "C15", "C21"], "C09b-r1", "_src/core/compiler/interpreters/incremental.py",
     r"out_tangent = NoChange if Diff", "out_tangent = UnknownChange if Diff"),
    ("staged-seed-unknown-consts", ["C09", "C15"], "C09b-r2", "_src/core/compiler/interpreters/incremental.py",
     r"jaxpr\.constvars, Diff\.no_change\(consts\)", "jaxpr.constvars, Diff.unknown_change(consts)"),
    ("single-pass-plain-leaf-unknown", ["C08", "C09", "C15", "C21"], "C09b-r4", "_src/core/compiler/interpreters/incremental.py",
     r"case _:\n                    return NoChange", "case _:\n                    return UnknownChange"),
    ("extend-index-loop-forward", ["C18", "C33"], "C18b-r5", "_src/core/generative/choice_map.py", r"addrs\[depth - k\]", "addrs[k - 1]"),
    ("builder-kinds-swapped", ["C18", "C33"], "C18b-r5", "_src/core/generative/choice_map.py",
     r"Selection\.all\(\) if path else Selection\.leaf\(\)", "Selection.leaf() if path else Selection.all()"),
    ("traceparts-fields-swapped", ["C01", "C04"], "C22b-r4", "_src/generative_functions/static.py",
     r"return TraceParts\(args, retval, traces\)\n\n    return wrapper\n\n\n#", "return TraceParts(retval, args, traces)\n\n    return wrapper\n\n\n#"),
    ("generator-wrong-accessor", ["C01", "C22", "C34"], "C22b-r5", "_src/generative_functions/static.py",
     r"yield address, subtrace\.get_choices\(\)", "yield address, subtrace.get_sample()"),
    ("invocation-never-unpacked", ["C24"], "C24b-r2", "_src/generative_functions/distributions/distribution.py", r"return _Invocation\(\*args\)", "return _Invocation(args, kwargs)"),
    ("retained-first-slot", ["C26"], "C26b-r2", "_src/inference/smc.py", r"particle_collection\[num_rejected\]", "particle_collection[0]"),
    ("delegation-drops-retarget", ["C30"], "C26b-r3", "_src/inference/smc.py",
     r"return ChangeTarget\(self, target\)\.log_marginal_likelihood_estimate\(key\)", "return self.log_marginal_likelihood_estimate(key)"),
    ("batched-reweight-sign", ["C25", "C26"], "C26b-r5", "_src/inference/smc.py", r"new_scores - old_scores \+", "new_scores + old_scores +"),
    ("namedtuple-loop-jump-off-by-one", ["C31"], "C31b-r4", "_src/core/compiler/interpreters/time_travel.py",
     r"jump_points\[recorded\.debug_tag\] = len\(sequence\) - 1", "jump_points[recorded.debug_tag] = len(sequence)"),
    ("factory-impl-split-off-by-one", ["C36"], "C36b-r4", "_src/core/compiler/initial_style_primitive.py",
     r"args\[:num_consts\], args\[num_consts:\]", "args[:num_consts], args[num_consts + 1:]"),
    ("reverse-scan-forward", ["C37"], "C37b-r3", "_src/generative_functions/distributions/custom/discrete_hmm.py", r"reverse=True,", "reverse=False,"),
    ("namedtuple-carry-counter-stuck", ["C10", "C12", "C16"], "C10b-r2", "_src/generative_functions/combinators/scan.py", r"carry\._replace\(idx=carry\.idx \+ 1\)", "carry._replace(idx=carry.idx)"),
    ("split-rows-shared-key", ["C10", "C11"], "C10b-r3", "_src/generative_functions/combinators/vmap.py", r"subtrace\.project\(sub_key, selection\)", "subtrace.project(key, selection)"),
    ("hoisted-setter-slot-zero", ["C20"], "C13b-r1", "_src/core/compiler/staging.py", r"shapes\[static_idx\] = f\(\*args\)", "shapes[0] = f(*args)"),
    ("transposed-columns-swapped", ["C01", "C03", "C13"], "C13b-r3", "_src/generative_functions/combinators/switch.py",
     r"subtraces, weights = map\(list, zip\(\*multi_switch\(idx, fs, f_args\)\)\)", "weights, subtraces = map(list, zip(*multi_switch(idx, fs, f_args)))"),
    ("trivial-stage-wrong-side", ["C17", "C22"], "C17b-r1", "_src/core/generative/choice_map.py",
     r"if c2\.static_is_empty\(\):\n            return c1\n        if c1\.static_is_empty\(\):\n            return c2", "if c2.static_is_empty():\n            return c2\n        if c1.static_is_empty():\n            return c2"),
    ("filtered-pair-right-first", ["C17", "C22"], "C17b-r3", "_src/core/generative/choice_map.py", r"for c in \(c1, c2\) if key in c\.mapping", "for c in (c2, c1) if key in c.mapping"),
    ("hoisted-leaf-no-wrap", ["C20", "C23"], "C20b-r3", "_src/core/compiler/staging.py", r"vs\[idx % len\(vs\)\]", "vs[idx]"),
    ("slot-method-slot-zero", ["C20"], "C20b-r4", "_src/core/compiler/staging.py", r"shapes\[self\.position\] = self\.fn\(\*self\.args\)", "shapes[0] = self.fn(*self.args)"),
    ("leapfrog-state-momenta-not-updated", ["C28"], "C28b-r1", "_src/inference/requests/hmc.py",
     r"carry\._replace\(\n                trace=new_trace, values=values, momenta=momenta\n            \)", "carry._replace(\n                trace=new_trace, values=values\n            )"),
    ("flat-momenta-one-seed", ["C28"], "C28b-r3", "_src/inference/requests/hmc.py", r"jrand\.fold_in\(key, int_seed\), v\.shape", "jrand.fold_in(key, 0), v.shape"),
    ("flat-unzip-not-complementary", ["C28"], "C28b-r4", "_src/inference/requests/hmc.py",
     r"\[None if d else v for v, d in zip\(leaves, differentiable\)\]", "[v if d else None for v, d in zip(leaves, differentiable)]"),
    ("module-walker-skips-branch", ["C33"], "C33b-r2", "_src/core/generative/choice_map.py", r"for chm in chms\[1:\]:", "for chm in chms[2:]:"),
    ("narrowed-table-not-narrowed", ["C11", "C17", "C35"], "C33b-r4", "_src/core/generative/choice_map.py", r"narrowed = \{addr: selection\(addr\) for addr", "narrowed = {addr: selection for addr"),
]
