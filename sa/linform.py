"""E2 - linear forms over provenance terms.

Scores and weights live in log space: every score / weight expression of the library is an affine
combination of atoms, possibly gated by Boolean flags.  lin(t) maps a term to
   { frozenset(factors) : coefficient }
where a monomial is a product of factor terms (flags and one value atom are not distinguished: for a
Boolean flag f,  f*x  ==  where(f, x, 0)).  Equality is modulo associativity / commutativity.
"""

from __future__ import annotations

from fractions import Fraction

from .terms import C, G, is_t, show

ONE = frozenset()


def _num(t):
    if is_t(t, "const") and isinstance(t[1], (int, float)) and not isinstance(t[1], bool):
        return Fraction(t[1]).limit_denominator(10**6)
    # jnp.array(0.0) / jnp.zeros(()) / jnp.asarray(1.0)
    if is_t(t, "call") and is_t(t[1], "global"):
        short = t[1][1].split(".")[-1]
        if short in ("array", "asarray", "float32") and len(t[2]) >= 1:
            return _num(t[2][0])
        if short == "zeros":
            return Fraction(0)
        if short == "ones":
            return Fraction(1)
    return None


def _flag_norm(t):
    """normalise FlagOp.not_/jnp.logical_not/`not` to ('not', x); and_ to a frozenset of factors"""
    if is_t(t, "un") and t[1] in ("not", "~"):
        return ("not", _flag_norm(t[2]))
    if is_t(t, "call"):
        f = t[1]
        name = None
        if is_t(f, "attr") and is_t(f[1], "global") and f[1][1].split(".")[-1] == "FlagOp":
            name = f[2]
        elif is_t(f, "global"):
            name = f[1].split(".")[-1]
        if name in ("not_", "logical_not") and len(t[2]) == 1:
            return ("not", _flag_norm(t[2][0]))
    return t


def _factors(t):
    """multiplicative factors of a flag expression: and_(a, b) -> {a, b}"""
    t = _flag_norm(t)
    if is_t(t, "call"):
        f = t[1]
        name = None
        if is_t(f, "attr") and is_t(f[1], "global") and f[1][1].split(".")[-1] == "FlagOp":
            name = f[2]
        elif is_t(f, "global"):
            name = f[1].split(".")[-1]
        if name in ("and_", "logical_and") and len(t[2]) == 2:
            return _factors(t[2][0]) | _factors(t[2][1])
    if is_t(t, "bool") and t[1] == "and":
        out = frozenset()
        for x in t[2]:
            out |= _factors(x)
        return out
    if is_t(t, "bin") and t[1] in ("&",):
        return _factors(t[2]) | _factors(t[3])
    if is_t(t, "not") and is_t(t[1], "not"):
        return _factors(t[1][1])
    return frozenset([t])


def _scale(d, k):
    return {m: c * k for m, c in d.items() if c * k != 0}


def _add(a, b):
    out = dict(a)
    for m, c in b.items():
        out[m] = out.get(m, 0) + c
        if out[m] == 0:
            del out[m]
    return out


def _mul(a, b):
    out = {}
    for m1, c1 in a.items():
        for m2, c2 in b.items():
            m = m1 | m2
            out[m] = out.get(m, 0) + c1 * c2
    return {m: c for m, c in out.items() if c != 0}


def lin(t, atomize=None):
    """linear (polynomial) normal form of a term.  `atomize(t)` may rewrite an atom (IH rewrites)."""
    n = _num(t)
    if n is not None:
        return {ONE: n} if n != 0 else {}
    if is_t(t, "bin"):
        op, a, b = t[1], t[2], t[3]
        if op == "+":
            return _add(lin(a, atomize), lin(b, atomize))
        if op == "-":
            return _add(lin(a, atomize), _scale(lin(b, atomize), -1))
        if op == "*":
            return _mul(lin(a, atomize), lin(b, atomize))
        if op == "/" and _num(b) not in (None, 0):
            return _scale(lin(a, atomize), 1 / _num(b))
    if is_t(t, "un") and t[1] == "-":
        return _scale(lin(t[2], atomize), -1)
    if is_t(t, "un") and t[1] == "+":
        return lin(t[2], atomize)
    if is_t(t, "where"):
        c = _factors(t[1])
        pos = _mul({c: Fraction(1)}, lin(t[2], atomize))
        negf = frozenset([("not", x) for x in c]) if len(c) == 1 else frozenset([("not", ("all", c))])
        neg = _mul({negf: Fraction(1)}, lin(t[3], atomize))
        return _add(pos, neg)
    if is_t(t, "call") and is_t(t[1], "global") and t[1][1].split(".")[-1] == "sum" and len(t[2]) == 1 and is_t(t[2][0], "stack"):
        inner = lin(t[2][0][1], atomize)
        return {frozenset([("sumI", m)]): c for m, c in inner.items()}
    if is_t(t, "choose") and is_t(t[2], "fam"):
        inner = lin(t[2][2], atomize)
        return {frozenset([("choose", t[1], t[2][1], m)]): c for m, c in inner.items()}
    if atomize is not None:
        r = atomize(t)
        if r is not None and r != t:
            return lin(r, atomize)
    fs = _factors(t)
    if len(fs) > 1 or (len(fs) == 1 and next(iter(fs)) != t):
        out = {ONE: Fraction(1)}
        for f in fs:
            out = _mul(out, {frozenset([f]): Fraction(1)})
        return out
    return {frozenset([t]): Fraction(1)}


def lin_eq(a, b):
    return a == b


def show_lin(d) -> str:
    if not d:
        return "0"
    parts = []
    for m, c in sorted(d.items(), key=lambda kv: sorted(show_factor(f) for f in kv[0])):
        fs = "·".join(sorted(show_factor(f) for f in m)) or "1"
        if c == 1:
            parts.append("+" + fs)
        elif c == -1:
            parts.append("-" + fs)
        else:
            parts.append(f"{'+' if c > 0 else ''}{c}·{fs}")
    return " ".join(parts)


def show_factor(f) -> str:
    if is_t(f, "not"):
        return "¬" + show_factor(f[1])
    if is_t(f, "sumI"):
        return "Σi[" + ("·".join(sorted(show_factor(x) for x in f[1])) or "1") + "]"
    if is_t(f, "choose"):
        return f"choose({show(f[1])[:40]})[" + ("·".join(sorted(show_factor(x) for x in f[3])) or "1") + "]"
    if is_t(f, "all"):
        return "all(" + ",".join(sorted(show_factor(x) for x in f[1])) + ")"
    return show(f)


def subst_flags(d, assignment: dict):
    """evaluate a linear form under a truth assignment of flag atoms (factor -> bool)"""
    out = {}
    for m, c in d.items():
        keep = True
        rest = []
        for f in m:
            v = _eval_flag(f, assignment)
            if v is None:
                rest.append(f)
            elif v is False:
                keep = False
                break
        if keep:
            k = frozenset(rest)
            out[k] = out.get(k, 0) + c
    return {m: c for m, c in out.items() if c != 0}


def _eval_flag(f, assignment):
    if f in assignment:
        return assignment[f]
    if is_t(f, "not"):
        v = _eval_flag(f[1], assignment)
        return None if v is None else (not v)
    if is_t(f, "all"):
        vs = [_eval_flag(x, assignment) for x in f[1]]
        if any(v is False for v in vs):
            return False
        if all(v is True for v in vs):
            return True
    return None
