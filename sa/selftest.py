"""Checker self-validation (thorough tier): every fixed-corpus mutant for a property must make that property's check fire,
and every benign twin must leave it silent.  Mutants are materialised in scratch copies outside /repo and /verif and removed at once."""

from __future__ import annotations

import ast
import glob
import json
import os
import re
import shutil
import subprocess
import sys
import tempfile
from concurrent.futures import ThreadPoolExecutor

from .program import PKG_ROOT, AnalysisError

VERIF = os.path.dirname(os.path.dirname(os.path.abspath(__file__)))


def _load_corpus():
    sys.path.insert(0, os.path.join(VERIF, "selftest"))
    import corpus  # type: ignore

    return corpus.MUTANTS, corpus.TWINS


def _load_refmuts():
    sys.path.insert(0, os.path.join(VERIF, "selftest"))
    import corpus  # type: ignore

    return getattr(corpus, "REFACTORED_MUTANTS", [])


def _scratch():
    tmp = tempfile.mkdtemp(prefix="vselftest.")
    os.makedirs(os.path.join(tmp, "src"))
    shutil.copytree(PKG_ROOT, os.path.join(tmp, "src", "genjax"))
    return tmp


def _apply_regex(tmp, rel, pat, rep, nth=1):
    p = os.path.join(tmp, "src", "genjax", rel)
    s = open(p).read()
    ms = list(re.finditer(pat, s, re.S))
    if len(ms) < nth:
        return "no-match"
    if nth == 0:
        s2 = re.sub(pat, rep, s, flags=re.S)
    else:
        m = ms[nth - 1]
        s2 = s[: m.start()] + m.expand(rep) + s[m.end():]
    try:
        ast.parse(s2)
    except SyntaxError:
        return "syntax-error"
    open(p, "w").write(s2)
    return "ok"


def _apply_diff(tmp, diff):
    subprocess.run(["git", "init", "-q", "."], cwd=tmp, capture_output=True)
    r = subprocess.run(["git", "apply", "--whitespace=nowarn", diff], cwd=tmp, capture_output=True, text=True)
    return "ok" if r.returncode == 0 else "no-match"


def _run_check(tmp, pid):
    env = dict(os.environ, VERIF_REPO=tmp)
    r = subprocess.run([os.path.join(VERIF, "check"), pid, "--tier", "quick", "--no-evidence"], capture_output=True, text=True, env=env, cwd=VERIF)
    fired = [l for l in r.stdout.splitlines() if l.startswith("  rule=")]
    return r.returncode, fired, r.stdout


def _one(kind, ident, pid, how):
    tmp = _scratch()
    try:
        st = how(tmp)
        if st != "ok":
            return dict(kind=kind, id=ident, status=st)
        rc, fired, out = _run_check(tmp, pid)
        return dict(kind=kind, id=ident, status="ran", rc=rc, fired=[f.strip()[:160] for f in fired][:3], tail=out[-300:] if rc == 2 else "")
    finally:
        shutil.rmtree(tmp, ignore_errors=True)


def run(chk, pid: str):
    muts, twins = _load_corpus()
    jobs = []
    for m in muts:
        ident, props, rel, pat, rep = m[:5]
        nth = m[5] if len(m) > 5 else 1
        if pid in props:
            jobs.append(("mutant", ident, (lambda rel=rel, pat=pat, rep=rep, nth=nth: (lambda tmp: _apply_regex(tmp, rel, pat, rep, nth)))()))
    # reverse diffs of the `fix:` commits that concern this property, and confirmed seeded changes
    known = json.load(open(os.path.join(VERIF, "known_findings.json")))
    for e in known:
        if e.get("status") == "fixed" and e.get("property") == pid:
            d = os.path.join(VERIF, "selftest", "reverts", f"{e['commit']}.diff")
            if os.path.exists(d):
                jobs.append(("revert", f"revert-{e['commit']}", (lambda d=d: (lambda tmp: _apply_diff(tmp, d)))()))
    for meta in sorted(glob.glob(os.path.join(VERIF, "seeded", "*", "meta.json"))):
        mj = json.load(open(meta))
        if pid in mj.get("caught_by", []):
            d = os.path.join(os.path.dirname(meta), "patch.diff")
            jobs.append(("seeded", os.path.basename(os.path.dirname(meta)), (lambda d=d: (lambda tmp: _apply_diff(tmp, d)))()))
    for t in twins:
        ident, rel, pat, rep = t[:4]
        jobs.append(("twin", ident, (lambda rel=rel, pat=pat, rep=rep: (lambda tmp: _apply_regex(tmp, rel, pat, rep, 0)))()))
    # behaviour-preserving refactorings written by maintainers-for-a-day (guard clauses, extracted helpers, comprehension <-> loop, renamed temporaries, ...):
    # every property's check must stay silent on each of them
    for d in sorted(glob.glob(os.path.join(VERIF, "selftest", "refactors", "*.diff"))):
        jobs.append(("twin", "refactor:" + os.path.basename(d)[:-5], (lambda d=d: (lambda tmp: _apply_diff(tmp, d)))()))
    # a defect planted in the REFACTORED spelling: the refactoring twin is applied first, then the mutation - the generalised rule that accepts the new
    # spelling must still reject the defect in it
    for ident, props, twin, rel, pat, rep in _load_refmuts():
        if pid in props:
            d = os.path.join(VERIF, "selftest", "refactors", twin + ".diff")

            def how(tmp, d=d, rel=rel, pat=pat, rep=rep):
                st = _apply_diff(tmp, d)
                return st if st != "ok" else _apply_regex(tmp, rel, pat, rep, 1)
            jobs.append(("mutant", "refactored:" + ident, how))
    seen = set()
    uniq = []
    for j in jobs:
        if (j[0], j[1]) not in seen:
            seen.add((j[0], j[1]))
            uniq.append(j)
    with ThreadPoolExecutor(max_workers=min(16, os.cpu_count() or 4)) as ex:
        results = list(ex.map(lambda j: _one(j[0], j[1], pid, j[2]), uniq))
    killed = [r for r in results if r["kind"] != "twin" and r["status"] == "ran" and r["rc"] == 1]
    missed = [r for r in results if r["kind"] != "twin" and r["status"] == "ran" and r["rc"] != 1]
    stale = [r for r in results if r["status"] != "ran" and r["kind"] != "twin"]
    noisy = [r for r in results if r["kind"] == "twin" and r["status"] == "ran" and r["rc"] != 0]
    quiet = [r for r in results if r["kind"] == "twin" and r["status"] == "ran" and r["rc"] == 0]
    chk.extra["selftest"] = {
        "mutants_killed": len(killed), "mutants_missed": [r["id"] for r in missed], "mutants_stale": [f"{r['id']}:{r['status']}" for r in stale],
        "twins_silent": len(quiet), "twins_noisy": [f"{r['id']} rc={r['rc']} {r.get('fired')}" for r in noisy],
        "twins_not_applicable": [r["id"] for r in results if r["kind"] == "twin" and r["status"] != "ran"],
        "kills": [{"id": r["id"], "fired": r["fired"][:1]} for r in killed][:40],
    }
    for r in killed:
        chk.ok("SELFTEST-MUTANT", r["id"], f"check fires: {r['fired'][:1]}")
    for r in quiet:
        chk.ok("SELFTEST-TWIN", r["id"], "check stays silent on a behaviour-preserving edit", nontrivial=False)
    if missed or noisy:
        raise AnalysisError(f"checker self-validation failed for {pid}: unkilled mutants {[r['id'] for r in missed]}; noisy twins {[(r['id'], r['rc'], r.get('fired'), r.get('tail')) for r in noisy]}")
    return results
