"""E0 - source model of /repo/src/genjax: modules, imports, classes, fields, methods.

Pure stdlib `ast`; nothing from the repository is imported or executed.
"""

from __future__ import annotations

import ast
import hashlib
import os
from dataclasses import dataclass, field

REPO = os.environ.get("VERIF_REPO", "/repo")
PKG_ROOT = os.path.join(REPO, "src", "genjax")


class AnalysisError(Exception):
    """The analysis cannot be carried out (missing anchor, unrecognised form, floor shortfall).
    Reported as ANALYSIS-ERROR / exit 2 - never as a violation and never as a pass."""


class AnchorMissing(AnalysisError):
    pass


@dataclass
class ClassInfo:
    name: str
    module: "Module"
    node: ast.ClassDef
    bases: list[str]
    methods: dict[str, ast.FunctionDef]
    fields: list[str]  # dataclass fields in order (annotated class-level names)
    static_fields: set[str]
    field_ann: dict[str, str]
    decorators: list[str]

    @property
    def qual(self) -> str:
        return f"{self.module.rel}:{self.name}"


@dataclass
class Module:
    rel: str  # path relative to PKG_ROOT, e.g. "_src/core/pytree.py"
    path: str
    source: str
    tree: ast.Module
    classes: dict[str, ClassInfo] = field(default_factory=dict)
    funcs: dict[str, ast.FunctionDef] = field(default_factory=dict)
    assigns: dict[str, ast.expr] = field(default_factory=dict)
    imports: dict[str, str] = field(default_factory=dict)  # local name -> dotted canonical

    @property
    def dotted(self) -> str:
        p = self.rel[:-3].replace("/", ".")
        if p.endswith(".__init__"):
            p = p[: -len(".__init__")]
        return "genjax." + p if p != "__init__" else "genjax"


def _dotted(node: ast.AST) -> str | None:
    if isinstance(node, ast.Name):
        return node.id
    if isinstance(node, ast.Attribute):
        b = _dotted(node.value)
        return None if b is None else b + "." + node.attr
    if isinstance(node, ast.Subscript):  # Generic[R] / Trace[R]
        return _dotted(node.value)
    return None


_CANON = {
    "jax.tree.map": "jax.tree_util.tree_map",
    "jax.tree.leaves": "jax.tree_util.tree_leaves",
    "jax.util.safe_map": "jax.util.safe_map",
}


_NESTED_INDEX = None
_MEMBER_INDEX = None


class _Members(dict):
    """name -> def of a class's methods / a module's functions.  A PRIVATE helper (leading underscore) that was merely renamed is still found under the
    name the rules use: sa/member_index.json records its position among the scope's defs and its parameter count on the rules' reference tree; when the
    scope still has as many defs and the one at that position has that many parameters (and no def of the old name exists), it is the anchor."""

    def __init__(self, scope, items=()):
        super().__init__(items)
        self.scope = scope

    def __missing__(self, key):
        d = self._renamed(key)
        if d is None:
            raise KeyError(key)
        return d

    def get(self, key, default=None):
        if dict.__contains__(self, key):
            return dict.__getitem__(self, key)
        d = self._renamed(key)
        return d if d is not None else default

    def _renamed(self, key):
        global _MEMBER_INDEX
        if not (isinstance(key, str) and key.startswith("_") and not key.startswith("__")):
            return None
        if _MEMBER_INDEX is None:
            import json
            p = os.path.join(os.path.dirname(os.path.abspath(__file__)), "member_index.json")
            _MEMBER_INDEX = json.load(open(p)) if os.path.exists(p) else {}
        ent = _MEMBER_INDEX.get(f"{self.scope}/{key}")
        defs = list(self.values())
        if ent is None or len(defs) != ent["n"]:
            return None
        d = defs[ent["index"]]
        n_params = len(d.args.posonlyargs) + len(d.args.args) + (1 if d.args.vararg else 0) + (1 if d.args.kwarg else 0)
        known = {k.split("/", 1)[1] for k in _MEMBER_INDEX if k.startswith(self.scope + "/")}
        return d if n_params == ent["n_params"] and d.name.startswith("_") and d.name not in known else None



def _nested_defs(fn):
    return [s for s in ast.walk(fn) if isinstance(s, ast.FunctionDef) and s is not fn]


def _nested_by_position(outer, name):
    global _NESTED_INDEX
    if _NESTED_INDEX is None:
        import json
        p = os.path.join(os.path.dirname(os.path.abspath(__file__)), "nested_index.json")
        _NESTED_INDEX = json.load(open(p)) if os.path.exists(p) else {}
    ents = list(_NESTED_INDEX.get(f"{outer.name}/{name}", []))
    if not ents:
        # the outer function itself may have been found by position: every recorded outer with this nested name
        ents = [e for k, v in _NESTED_INDEX.items() if k.endswith("/" + name) for e in v]
    defs = _nested_defs(outer)
    hits = set()
    for ent in ents:
        if len(defs) == ent["n_defs"]:
            d = defs[ent["index"]]
            n_params = len(d.args.posonlyargs) + len(d.args.args) + (1 if d.args.vararg else 0) + (1 if d.args.kwarg else 0)
            if n_params == ent["n_params"]:
                hits.add(ent["index"])
    return defs[hits.pop()] if len(hits) == 1 else None


class Program:
    def __init__(self, root: str | None = None):
        self.root = root or PKG_ROOT
        if not os.path.isdir(self.root):
            raise AnchorMissing(f"package root not found: {self.root}")
        self.modules: dict[str, Module] = {}
        self.class_index: dict[str, list[ClassInfo]] = {}
        self.consulted: set[str] = set()
        for dirpath, _dirs, files in sorted(os.walk(self.root)):
            for f in sorted(files):
                if f.endswith(".py"):
                    p = os.path.join(dirpath, f)
                    rel = os.path.relpath(p, self.root)
                    self._load(rel, p)
        self.renamed: dict[str, str] = {}
        self._undo_private_renames()

    def _undo_private_renames(self) -> None:
        """A private helper the rules speak about by name (sa/member_index.json) that was merely RENAMED - its old name is gone, its scope has as many defs as
        on the reference tree and the def at its position has as many parameters - is given its reference name back in the loaded syntax trees (definition
        and every reference in the package), so the rules read the program as before.  Recorded in `renamed` (reported in the evidence)."""
        scopes = {rel: m.funcs for rel, m in self.modules.items()}
        for cname, cis in self.class_index.items():
            if len(cis) == 1:
                scopes[cname] = cis[0].methods
        todo = []
        for scope, members in scopes.items():
            if not isinstance(members, _Members):
                continue
            global _MEMBER_INDEX
            members._renamed("_probe")  # loads the table
            for key in (_MEMBER_INDEX or {}):
                sc, old = key.split("/", 1) if "/" in key else (None, None)
                # scope names may contain "/" (module paths): match by prefix
                if not key.startswith(scope + "/"):
                    continue
                old = key[len(scope) + 1:]
                if "/" in old or dict.__contains__(members, old):
                    continue
                d = members._renamed(old)
                if d is not None:
                    todo.append((scope, members, old, d))
        for scope, members, old, d in todo:
            new = d.name
            if any(isinstance(n, ast.Name) and n.id == old or isinstance(n, ast.Attribute) and n.attr == old for m in self.modules.values() for n in ast.walk(m.tree)):
                continue  # the old name still means something somewhere: not a plain rename
            for m in self.modules.values():
                for n in ast.walk(m.tree):
                    if isinstance(n, ast.Name) and n.id == new:
                        n.id = old
                    elif isinstance(n, ast.Attribute) and n.attr == new:
                        n.attr = old
                    elif isinstance(n, ast.FunctionDef) and n.name == new:
                        n.name = old
                for imp_local, imp_target in list(m.imports.items()):
                    if imp_local == new or imp_target.endswith("." + new):
                        m.imports.pop(imp_local)
                        m.imports[old if imp_local == new else imp_local] = imp_target[: -len(new)] + old if imp_target.endswith("." + new) else imp_target
            items = [(old if k == new else k, v) for k, v in members.items()]
            members.clear()
            members.update(items)
            self.renamed[f"{scope}/{old}"] = new

    # ------------------------------------------------------------------ loading
    def _load(self, rel: str, path: str) -> None:
        src = open(path, encoding="utf-8").read()
        try:
            tree = ast.parse(src, filename=path)
        except SyntaxError as e:  # a tree that does not parse does not "compile"
            raise AnalysisError(f"syntax error in {rel}: {e}")
        m = Module(rel, path, src, tree)
        m.funcs = _Members(rel)
        self.modules[rel] = m
        for node in tree.body:
            self._top(m, node)

    def _top(self, m: Module, node: ast.stmt) -> None:
        if isinstance(node, ast.Import):
            for a in node.names:
                m.imports[a.asname or a.name.split(".")[0]] = a.name if a.asname else a.name.split(".")[0]
        elif isinstance(node, ast.ImportFrom):
            mod = node.module or ""
            for a in node.names:
                m.imports[a.asname or a.name] = f"{mod}.{a.name}"
        elif isinstance(node, ast.FunctionDef):
            m.funcs[node.name] = node
        elif isinstance(node, ast.ClassDef):
            ci = self._class(m, node)
            m.classes[node.name] = ci
            self.class_index.setdefault(node.name, []).append(ci)
        elif isinstance(node, ast.Assign):
            for t in node.targets:
                if isinstance(t, ast.Name):
                    m.assigns[t.id] = node.value
        elif isinstance(node, ast.AnnAssign) and isinstance(node.target, ast.Name) and node.value is not None:
            m.assigns[node.target.id] = node.value
        elif isinstance(node, ast.If):
            for s in node.body + node.orelse:
                self._top(m, s)

    def _class(self, m: Module, node: ast.ClassDef) -> ClassInfo:
        bases = [b for b in (_dotted(x) for x in node.bases) if b and b.split(".")[-1] != "Generic"]
        methods, fields, static, ann = _Members(node.name), [], set(), {}
        for s in node.body:
            if isinstance(s, ast.FunctionDef):
                # keep the last non-overload definition
                decos = [(_dotted(d) or "") for d in s.decorator_list]
                if any(d.endswith("overload") for d in decos):
                    continue
                methods[s.name] = s
            elif isinstance(s, ast.AnnAssign) and isinstance(s.target, ast.Name):
                a = ast.unparse(s.annotation)
                if a.startswith("Final") or a.startswith("ClassVar"):
                    continue
                fields.append(s.target.id)
                ann[s.target.id] = a
                if s.value is not None and "Pytree.static" in ast.unparse(s.value):
                    static.add(s.target.id)
        decos = [ast.unparse(d) for d in node.decorator_list]
        return ClassInfo(node.name, m, node, bases, methods, fields, static, ann, decos)

    # ------------------------------------------------------------------ lookup
    def module(self, suffix: str) -> Module:
        hits = [m for r, m in self.modules.items() if r.endswith(suffix)]
        if len(hits) != 1:
            raise AnchorMissing(f"module {suffix!r}: {len(hits)} matches")
        self.consulted.add(hits[0].rel)
        return hits[0]

    def cls(self, name: str, module_suffix: str | None = None) -> ClassInfo:
        cands = self.class_index.get(name, [])
        if module_suffix:
            hit = [c for c in cands if c.module.rel.endswith(module_suffix)]
            if hit:
                cands = hit
            # class moved to another module: fall back to package-wide search by name
        if len(cands) == 1:
            self.consulted.add(cands[0].module.rel)
            return cands[0]
        if not cands:
            raise AnchorMissing(f"class {name} not found" + (f" (hint {module_suffix})" if module_suffix else ""))
        raise AnchorMissing(f"class {name} ambiguous: {[c.qual for c in cands]}")

    def resolve_base(self, ci: ClassInfo, base: str) -> ClassInfo | None:
        short = base.split(".")[-1]
        # alias at module level, e.g. SampleDistribution = Distribution[ChoiceMap]
        for mod in (ci.module, *self.modules.values()):
            if short in mod.assigns and short not in mod.classes:
                tgt = _dotted(mod.assigns[short])
                if tgt and tgt.split(".")[-1] in self.class_index and tgt.split(".")[-1] != short:
                    short = tgt.split(".")[-1]
                    break
        cands = self.class_index.get(short, [])
        if not cands:
            return None
        if len(cands) == 1:
            return cands[0]
        # disambiguate through the import table
        imp = ci.module.imports.get(short, "")
        for c in cands:
            if c.module is ci.module or imp.startswith(c.module.dotted):
                return c
        return cands[0]

    def mro(self, ci: ClassInfo) -> list[ClassInfo]:
        out, seen, todo = [], set(), [ci]
        while todo:
            c = todo.pop(0)
            if c.qual in seen:
                continue
            seen.add(c.qual)
            out.append(c)
            for b in c.bases:
                r = self.resolve_base(c, b)
                if r is not None:
                    todo.append(r)
        return out

    def is_subclass(self, ci: ClassInfo, base_name: str) -> bool:
        return any(c.name == base_name for c in self.mro(ci))

    def subclasses(self, base_name: str) -> list[ClassInfo]:
        out = []
        for cs in self.class_index.values():
            for c in cs:
                if c.name != base_name and self.is_subclass(c, base_name):
                    out.append(c)
        return sorted(out, key=lambda c: c.qual)

    def find_method(self, ci: ClassInfo, name: str) -> tuple[ClassInfo, ast.FunctionDef] | None:
        for c in self.mro(ci):
            if name in c.methods:
                return c, c.methods[name]
        return None

    def method(self, cls_name: str, meth: str, module_suffix: str | None = None) -> tuple[ClassInfo, ast.FunctionDef]:
        ci = self.cls(cls_name, module_suffix)
        if meth not in ci.methods:
            raise AnchorMissing(f"method {cls_name}.{meth} not found in {ci.module.rel}")
        return ci, ci.methods[meth]

    def func(self, name: str, module_suffix: str) -> tuple[Module, ast.FunctionDef]:
        m = self.module(module_suffix)
        if name in m.funcs or m.funcs.get(name) is not None:
            return m, m.funcs.get(name)
        # moved: unique package-wide search
        hits = [(mm, mm.funcs[name]) for mm in self.modules.values() if name in mm.funcs]
        if len(hits) == 1:
            self.consulted.add(hits[0][0].rel)
            return hits[0]
        raise AnchorMissing(f"function {name} not found in {module_suffix}")

    @staticmethod
    def nested(fn: ast.FunctionDef, *names: str) -> ast.FunctionDef:
        """the nested function `names[0]` (then `names[1]` inside it, ...) of fn.  A nested function that was merely RENAMED is still found: the committed
        table sa/nested_index.json records, for every (outer function, nested name) the rules look up, the position of the nested def among the outer
        function's nested defs and its parameter count on the tree the rules were written against; when the name is gone but the outer function still has
        the same number of nested defs and the def at that position has that many parameters, it is the anchor (role by position and arity)."""
        cur = fn
        for n in names:
            found = None
            for s in ast.walk(cur):
                if isinstance(s, ast.FunctionDef) and s.name == n and s is not cur:
                    found = s
                    break
            if found is None:
                found = _nested_by_position(cur, n)
            if found is None:
                raise AnchorMissing(f"nested function {n} not found in {fn.name}")
            cur = found
        return cur

    # ------------------------------------------------------------------ misc
    def canon(self, m: Module, dotted: str) -> str:
        """canonical dotted name of an attribute chain rooted at an imported alias"""
        head, _, rest = dotted.partition(".")
        if head in m.imports:
            full = m.imports[head] + ("." + rest if rest else "")
        else:
            full = dotted
        full = full.replace("jax.tree_util", "jax.tree_util")
        for k, v in (
            ("jax.numpy", "jnp"),
            ("jax.tree_util", "jtu"),
            ("jax.random", "jrandom"),
        ):
            pass
        return _CANON.get(full, full)

    def digest(self) -> str:
        h = hashlib.sha1()
        for rel in sorted(self.modules):
            h.update(rel.encode())
            h.update(self.modules[rel].source.encode())
        return h.hexdigest()[:16]

    def stats(self) -> dict:
        return {
            "files": len(self.modules),
            "classes": sum(len(m.classes) for m in self.modules.values()),
            "functions": sum(
                1 for m in self.modules.values() for n in ast.walk(m.tree) if isinstance(n, (ast.FunctionDef, ast.Lambda))
            ),
            "loc": sum(m.source.count("\n") for m in self.modules.values()),
        }
