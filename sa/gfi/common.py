"""Shared collector for the GFI oracle (Appendix A of DESIGN.md): each combinator analysis emits obligations tagged with the
properties they serve; a property's check keeps the obligations carrying its id."""

from __future__ import annotations

from ..linform import lin, show_lin
from ..program import AnalysisError
from ..rules import is_call, mentions_any
from ..terms import C, P, is_t, mk_proj, show

ZERO = {}


class Obs:
    def __init__(self):
        self.items = []
        self.notes = []

    def add(self, props, rule, instance, ok, construct="", derived="", expected="", where=""):
        props = set(props)
        if rule in ("TRACE-SCORE", "SCORE-AGG", "SCORE-GATE"):
            props |= {"C01", "C02"}  # a stored score that is not the density of the stored choices breaks both
        if rule in ("SCORE-AGG", "SCORE-GATE"):
            props |= {"C34"}  # parent score = aggregate of the STORED sub-traces' scores: "the subtrace's score is that call's contribution"
        self.items.append(dict(props=props, rule=rule, instance=instance, ok=bool(ok), construct=construct or instance,
                               derived=derived if isinstance(derived, str) else show(derived), expected=expected, where=where))
        return bool(ok)

    def note(self, props, s):
        self.notes.append((set(props), s))


def call0(obj, meth, *args):
    return ("call", ("attr", obj, meth), tuple(args), ())


def score_of(t):
    return call0(t, "get_score")


def retval_of(t):
    return call0(t, "get_retval")


def choices_of(t):
    return call0(t, "get_choices")


def args_of(t):
    return call0(t, "get_args")


def lin1(t):
    return lin(t)


def is_zero(t):
    return lin(t) == {}


def single(form, coef=1):
    """the only monomial's only factor when the form is  coef * atom"""
    if len(form) != 1:
        return None
    (m, c), = form.items()
    if c != coef or len(m) != 1:
        return None
    return next(iter(m))


def arms_of(res):
    """[(conds, term)] of a FuncResult"""
    return list(res.returns)


def cond_has(conds, pred, polarity=None):
    return any(pred(t) and (polarity is None or pol == polarity) for t, pol in conds)


def main_ret(obs, res, inst, where, props):
    """An edit method may return the INPUT trace unchanged on an early path (an identity shortcut).  Such an arm is sound only when nothing can have changed:
    its guard must contain static_check_no_change(argdiffs) over the WHOLE argdiffs, and it must return weight 0.  Shortcut arms are judged here
    (TAG-SHORTCUT-GUARD) and the remaining, constructing arm is returned for the ordinary analysis."""
    arms = list(res.returns)
    if len(arms) <= 1:
        return res.ret
    keep = []
    for conds, t in arms:
        if is_t(t, "tuple") and len(t[1]) == 4 and t[1][0] == P("trace"):
            whole = any(pol and mentions_any(c, lambda x: is_call(x, "static_check_no_change") and x[2] == (P("argdiffs"),)) for c, pol in conds)
            reqg = any(pol and mentions_any(c, lambda x: x in (P("selection"), P("constraint"), P("edit_request"), P("request"))) for c, pol in conds)
            obs.add(set(props) | {"C08"}, "TAG-SHORTCUT-GUARD", inst + "/identity-shortcut", whole and reqg and is_zero(t[1][1]), construct="early return of the unchanged input trace",
                    derived=f"returns the input trace with weight {show(t[1][1])[:40]} under {[show(c)[:90] for c, pol in conds if pol]}",
                    expected="only under Diff.static_check_no_change(argdiffs) - ALL arguments unchanged - AND a test that the request itself is empty, and with weight 0", where=where)
        else:
            keep.append(t)
    if len(keep) == 1:
        return keep[0]
    return res.ret


def tuple_n(t, n, what):
    if not is_t(t, "tuple") or len(t[1]) != n:
        raise AnalysisError(f"{what}: expected a {n}-tuple, got {show(t)[:120]}")
    return t[1]


def ctor_fields(prog, t, cls, what):
    """field -> term of a constructor term"""
    if not is_t(t, "ctor") or t[1] != cls:
        raise AnalysisError(f"{what}: expected a {cls}(...) constructor, got {show(t)[:160]}")
    ci = prog.class_index[cls][0]
    out = {}
    for i, a in enumerate(t[2]):
        if i < len(ci.fields):
            out[ci.fields[i]] = a
    for k, v in t[3]:
        out[k] = v
    return out


def run_for(chk, prog, pid, analyses):
    """run the given combinator analyses and keep the obligations tagged with pid"""
    obs = Obs()
    for fn in analyses:
        fn(obs, prog)
    n = 0
    for o in obs.items:
        if pid in o["props"]:
            n += 1
            chk.require(o["ok"], o["rule"], o["instance"], o["construct"], derived=o["derived"], expected=o["expected"], where=o["where"])
    for props, s in obs.notes:
        if pid in props:
            chk.note(s)
    return n, obs


def dispatch_roles(obs, props, cls_name, res, fields, where, trace_name="trace"):
    """every arm of an `edit` dispatcher forwards (key, trace, <the request's own field(s)>, argdiffs) to its helper, each in its role"""
    from ..rules import mentions_any, is_mcall
    from ..terms import P, is_t, show

    for conds, t in res.returns:
        kind = [c[2] for c, pol in conds if pol and is_t(c, "isinst") and c[1] == P("edit_request")]
        if not kind or kind[0] not in fields:
            continue
        want_fields = [("attr", P("edit_request"), f) for f in fields[kind[0]]]
        ok = is_t(t, "call") and len(t[2]) >= 4 and t[2][0] == P("key") and t[2][1] == P(trace_name) and t[2][-1] == P("argdiffs") and all(wf in t[2] for wf in want_fields)
        if ok:
            pos = [t[2].index(wf) for wf in want_fields]
            ok = pos == sorted(pos)
        obs.add(props, "DELEG-ROLE", f"{cls_name}.edit/{kind[0]}", ok, derived=show(t)[:220], expected=f"helper(key, {trace_name}, {', '.join('request.' + f for f in fields[kind[0]])}, ..., argdiffs)", where=where)
