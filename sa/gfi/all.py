from . import distribution, mask_dimap, scan, static_lang, switch, vmap

ALL = [distribution.analyse, static_lang.analyse, vmap.analyse, scan.analyse, switch.analyse, mask_dimap.analyse]
