"""Vmap / VmapTrace / RepeatCombinator."""

from __future__ import annotations

from ..linform import lin, show_lin
from ..program import AnalysisError
from ..rules import calls, is_call, is_mcall, mcalls, mentions, mentions_any
from ..terms import C, Evaluator, G, P, is_t, mk_proj, phi_paths, show, subterms, mk_cmp, mk_phi
from .common import main_ret, Obs, arms_of, call0, choices_of, cond_has, ctor_fields, is_zero, retval_of, score_of, tuple_n
from .distribution import is_tag

MOD = "combinators/vmap.py"
FAMILY = "C11"
SELF = P("self")
GF = ("attr", SELF, "gen_fn")
INAX = ("attr", SELF, "in_axes")
DIFF = G("genjax._src.core.compiler.interpreters.incremental.Diff")


def jsum(t):
    return ("call", G("jax.numpy.sum"), (t,), ())


def stack(t):
    return ("stack", t)


def elem(t):
    return ("elem", t)


def analyse(obs: Obs, prog):
    # ---------------------------------------------------------------- the batch length is read off the first array leaf of a mapped argument: an argument
    # without leaves ((), None, {}) - which jax.vmap accepts - must not be indexed
    V = prog.cls("Vmap", MOD)
    VT = prog.cls("VmapTrace", MOD)
    W = lambda c, m: f"{c.module.rel}:{c.methods[m].lineno}"
    ev = Evaluator(prog)
    ev.opaque_methods.add("_static_broadcast_dim_length")
    DIM = ("call", ("attr", SELF, "_static_broadcast_dim_length"), (INAX, P("args")), ())
    split = lambda k, n: ("call", G("jax.random.split"), (k, n), ())
    arange = lambda n: ("call", G("jax.numpy.arange"), (n,), ())
    axel = lambda a: ("axelem", a, INAX)

    def build_checks(tr_ctor, inner_elem, args_term, length, inst, where, props):
        f = ctor_fields(prog, tr_ctor, "VmapTrace", inst)
        obs.add(props | {"C01", FAMILY}, "TRACE-ARGS", inst, f.get("args") == args_term, derived=f.get("args"), expected=show(args_term), where=where)
        obs.add(props | {"C01", "C02", "C11"}, "SCORE-AGG", inst + "/score", f.get("score") == jsum(stack(score_of(inner_elem))), derived=f.get("score"), expected="sum over elements of the element trace's score", where=where)
        chm = f.get("chm")
        okc = is_t(chm, "phi") and chm[1] == mk_cmp("==", length, C(0)) and is_call(chm[2], "empty") and chm[3] == stack(choices_of(inner_elem))
        obs.add(props | {"C01", "C11", "C17"}, "TRACE-CHOICES", inst + "/choices", okc, derived=chm, expected="length == 0 ? empty : vmap(get_choices)(element traces)", where=where)
        obs.add(props | {"C01", "C11"}, "TRACE-INNER", inst + "/inner", f.get("inner") == stack(inner_elem), derived=f.get("inner"), expected="the stacked element traces", where=where)
        obs.add(props | {"C11"}, "TRACE-LENGTH", inst + "/length", f.get("dim_length") == length, derived=f.get("dim_length"), expected=show(length), where=where)
        return f

    # ---------------------------------------------------------------- the mapped length
    evl = Evaluator(prog)
    rl = evl.eval_fn(V.methods["_static_broadcast_dim_length"], V.module, V)
    t = rl.ret
    okl = is_t(t, "proj") and t[2] == 0 and is_call(t[1], "tree_leaves") and is_t(t[1][2][0], "treemap") and t[1][2][0][2][1] == P("args")
    unguarded, sites = [], 0
    if okl:
        body = t[1][2][0][1]
        leaves_t = ("call", G("jax.tree_util.tree_leaves"), (("leaf", P("args")),), ())
        lf = mk_proj(leaves_t, 0)
        nonempty = lambda conds: any((c == leaves_t and pol) or (is_t(c, "cmp") and c[2] == ("call", G("len"), (leaves_t,), ()) and c[3] == C(0) and ((c[1] in (">", "!=") and pol) or (c[1] == "==" and not pol)))
                                     for c, pol in conds)
        sized = 0
        for conds, leaf in phi_paths(body):
            if leaf == C(None):
                continue
            ax = leaf[2] if is_t(leaf, "index") and leaf[1] == ("attr", lf, "shape") else None
            # the size is read off the first array leaf of the mapped argument along ITS axis entry, only when that entry is not None
            if not (is_t(ax, "leaf") and ax[1] != P("args") and (("is", ax, C(None)), False) in conds):
                okl = False
                continue
            sized += 1
            sites += 1
            if not nonempty(conds):
                unguarded.append(show(leaf)[:80] + " under " + ", ".join(("" if pol else "not ") + show(c)[:50] for c, pol in conds))
        okl = okl and sized >= 1
    # the batch length is read off the first array leaf of a mapped argument: an argument without leaves ((), None, {}) - which jax.vmap accepts - must not be indexed
    obs.add({"C11", "C04"}, "LEAF-GUARD", "Vmap._static_broadcast_dim_length/first-leaf", bool(okl) and not unguarded, construct="first array leaf of a mapped argument",
            derived=f"unguarded {unguarded}" if unguarded else (f"{sites} first-leaf access(es), each on a path where the leaf list is non-empty" if okl else t), expected="an argument without array leaves is skipped, not indexed (IndexError)", where=W(V, "_static_broadcast_dim_length"))
    obs.add({"C11", "C01", "C04"}, "TRACE-LENGTH", "Vmap._static_broadcast_dim_length", okl, derived=t, expected="first non-None of tree_map(axis, x -> x.shape[axis] if axis is not None else None, in_axes, args)", where=W(V, "_static_broadcast_dim_length"))
    # ---------------------------------------------------------------- accessors
    r = ev.eval_fn(VT.methods["get_retval"], VT.module, VT)
    obs.add({"C11", "C01"}, "TRACE-ACCESSOR", "VmapTrace.get_retval", r.ret == retval_of(("attr", SELF, "inner")), derived=r.ret, expected="self.inner.get_retval() (stacked element returns)", where=W(VT, "get_retval"))
    for acc, fld in (("get_args", "args"), ("get_score", "score"), ("get_choices", "chm")):
        r = ev.eval_fn(VT.methods[acc], VT.module, VT)
        obs.add({"C01", "C11"}, "TRACE-ACCESSOR", f"VmapTrace.{acc}", r.ret == ("attr", SELF, fld), derived=r.ret, expected=f"self.{fld}", where=W(VT, acc))
    r = ev.eval_fn(VT.methods["get_inner_trace"], VT.module, VT)
    obs.add({"C34"}, "SUBTRACE", "VmapTrace.get_inner_trace", r.ret == ("call", ("attr", ("attr", SELF, "inner"), "get_inner_trace"), (P("address"),), ()), derived=r.ret, expected="self.inner.get_inner_trace(address)", where=W(VT, "get_inner_trace"))

    # ---------------------------------------------------------------- simulate
    r = ev.eval_fn(V.methods["simulate"], V.module, V)
    w = W(V, "simulate")
    inner = ("call", ("attr", GF, "simulate"), (elem(split(P("key"), DIM)), axel(P("args"))), ())
    build_checks(r.ret, inner, P("args"), DIM, "Vmap.simulate", w, {"C04"})
    got = [c for c in mcalls(r.ret, "simulate") if c[1][1] == GF]
    obs.add({"C04", "C11"}, "KEY-LOOP", "Vmap.simulate/keys", len(got) == 1 and got[0] == inner, derived=got[0] if got else "none",
            expected="gen_fn.simulate(<one key per element from split(key, dim_length), mapped on axis 0>, <args mapped by self.in_axes>)", where=w)

    # ---------------------------------------------------------------- generate
    r = ev.eval_fn(V.methods["generate"], V.module, V)
    w = W(V, "generate")
    pair = tuple_n(r.ret, 2, "Vmap.generate")
    sub = ("call", P("constraint"), (elem(arange(DIM)),), ())
    inner = ("call", ("attr", GF, "generate"), (elem(split(P("key"), DIM)), sub, axel(P("args"))), ())
    got = [c for c in mcalls(r.ret, "generate") if c[1][1] == GF]
    obs.add({"C03", "C11"}, "IDX-ALIGN", "Vmap.generate/inner", len(got) == 1 and got[0] == inner, derived=got[0] if got else "none",
            expected="gen_fn.generate(key_i, constraint.get_submap(i), args_i) with i from arange(dim_length) mapped on axis 0 together with the keys", where=w)
    build_checks(pair[0], mk_proj(inner, 0), P("args"), DIM, "Vmap.generate", w, {"C03"})
    obs.add({"C03", "C11"}, "WEIGHT-GEN", "Vmap.generate/weight", pair[1] == jsum(stack(mk_proj(inner, 1))), derived=pair[1], expected="sum over elements of the element weights", where=w)

    # ---------------------------------------------------------------- assess
    r = ev.eval_fn(V.methods["assess"], V.module, V)
    w = W(V, "assess")
    # zero-length maps are empty with score 0: the only sample of a zero-length map is the EMPTY choice map, and tracing the inner assess against it raises
    # MissingAddress although it would run for 0 elements - there must be a path for dim_length == 0 that does not touch the inner assess
    zero_arms = [(c, t) for c, t in r.returns if any(pol and is_t(x, "cmp") and x[1] == "==" and C(0) in (x[2], x[3]) and DIM in (x[2], x[3]) for x, pol in c)]
    okz = len(zero_arms) == 1 and is_t(zero_arms[0][1], "tuple") and len(zero_arms[0][1][1]) == 2 and is_zero(zero_arms[0][1][1][0]) and not mcalls(zero_arms[0][1], "assess")
    obs.add({"C11", "C01", "C02"}, "ZERO-LENGTH", "Vmap.assess/zero-length", okz, construct="assess of a zero-length map", derived=f"{len(zero_arms)} path(s) guarded by dim_length == 0" + (f": {show(zero_arms[0][1])[:120]}" if zero_arms else ""),
            expected="if dim_length == 0: return 0, <empty stacked return value> - without assessing the inner function", where=w)
    main = [t for c, t in r.returns if (c, t) not in zero_arms]
    pair = tuple_n(main[0] if len(main) == 1 else r.ret, 2, "Vmap.assess")
    inner = ("call", ("attr", GF, "assess"), (("call", P("sample"), (elem(arange(DIM)),), ()), axel(P("args"))), ())
    got = [c for c in mcalls(("tuple", tuple(pair)), "assess") if c[1][1] == GF]
    obs.add({"C01", "C02", "C11"}, "IDX-ALIGN", "Vmap.assess/inner", len(got) == 1 and got[0] == inner, derived=got[0] if got else "none", expected="gen_fn.assess(sample(i), args_i), i from arange(dim_length)", where=w)
    obs.add({"C01", "C02", "C11"}, "ASSESS-AGREE", "Vmap.assess/score", pair[0] == jsum(stack(mk_proj(inner, 0))), derived=pair[0], expected="sum over elements of element scores", where=w)
    obs.add({"C01", "C11"}, "ASSESS-AGREE", "Vmap.assess/retval", pair[1] == stack(mk_proj(inner, 1)), derived=pair[1], expected="stacked element return values", where=w)

    # ---------------------------------------------------------------- project
    r = ev.eval_fn(V.methods["project"], V.module, V)
    w = W(V, "project")
    tl = ("attr", P("trace"), "dim_length")
    inner = ("call", ("attr", elem(("attr", P("trace"), "inner")), "project"), (elem(split(P("key"), tl)), P("selection")), ())
    obs.add({"C10", "C11"}, "WEIGHT-PROJ", "Vmap.project", r.ret == jsum(stack(inner)), derived=r.ret, expected="sum over elements of subtrace.project(key_i, selection) - the selection passes through the index level unchanged", where=w)

    # ---------------------------------------------------------------- edit_choice_map
    r = ev.eval_fn(V.methods["edit_choice_map"], V.module, V)
    w = W(V, "edit_choice_map")
    q = tuple_n(main_ret(obs, r, "Vmap.edit_choice_map", w, {"C05", "C11"}), 4, "Vmap.edit_choice_map")
    PR = ("call", ("attr", DIFF, "tree_primal"), (P("argdiffs"),), ())
    req = ("ctor", "Update", (("call", P("constraint"), (elem(arange(tl)),), ()),), ())
    inner = ("call", ("attr", GF, "edit"), (elem(split(P("key"), tl)), elem(("attr", P("trace"), "inner")), req, axel(P("argdiffs"))), ())
    got = [c for c in mcalls(r.ret, "edit") if c[1][1] == GF]
    obs.add({"C05", "C11"}, "IDX-ALIGN", "Vmap.edit_choice_map/inner", len(got) == 1 and got[0] == inner, derived=got[0] if got else "none",
            expected="gen_fn.edit(key_i, subtrace_i, Update(constraint(i)), argdiffs_i): keys, indices and subtraces mapped on axis 0, argdiffs by self.in_axes", where=w)
    build_checks(q[0], mk_proj(inner, 0), PR, tl, "Vmap.edit_choice_map", w, {"C05"})
    obs.add({"C05", "C11"}, "WEIGHT-UPD", "Vmap.edit_choice_map/weight", q[1] == jsum(stack(mk_proj(inner, 1))), derived=q[1], expected="sum over elements of element weights", where=w)
    obs.add({"C05", "C11", "C08"}, "TRACE-RETVAL", "Vmap.edit_choice_map/retdiff", q[2] == stack(mk_proj(inner, 2)), derived=q[2], expected="stacked element retdiffs", where=w)
    okb = q[3] == ("ctor", "Update", (stack(("attr", mk_proj(inner, 3), "constraint")),), ())
    obs.add({"C05", "C06", "C11"}, "BWD-OLDVALUES", "Vmap.edit_choice_map/bwd", okb, derived=q[3], expected="Update(stacked element backward constraints)", where=w)
    obs.add({"C06"}, "BWD-CLOSED", "Vmap.edit_choice_map", is_t(q[3], "ctor") and q[3][1] in ("Update", "IndexRequest"), derived=q[3][1] if is_t(q[3], "ctor") else "?", expected="Update / IndexRequest", where=w)

    # ---------------------------------------------------------------- edit_index
    r = ev.eval_fn(V.methods["edit_index"], V.module, V)
    w = W(V, "edit_index")
    q = tuple_n(r.ret, 4, "Vmap.edit_index")
    IDX = P("idx")
    # The sub-request edits the slice through ITS OWN edit method - request.edit(key, slice, argdiffs), as Scan.edit_index does: primitive requests end up in
    # gen_fn.edit, compositional ones (Rejuvenate, HMC, StaticRequest) implement edit themselves.  Calling self.gen_fn.edit(key, slice, request, argdiffs)
    # directly makes every compositional request raise NotSupportedEditRequest under an IndexRequest on a Vmap.
    got_gf = [c for c in mcalls(r.ret, "edit") if c[1][1] == GF]
    got = [c for c in mcalls(r.ret, "edit") if c[1][1] == P("request")]
    obs.add({"C11", "C05", "C07", "C27", "C28", "C38"}, "REQ-DISPATCH", "Vmap.edit_index/dispatch", len(got) == 1 and not got_gf, construct="who performs the slice edit",
            derived=f"{len(got)} call(s) of request.edit, {len(got_gf)} direct call(s) of self.gen_fn.edit", expected="request.edit(key, trace_slice, argdiffs_slice) - the sibling Scan.edit_index does the same", where=w)
    if len(got) != 1 and len(got_gf) == 1:
        got = [("call", got_gf[0][1], (got_gf[0][2][0], got_gf[0][2][1], got_gf[0][2][3]), ())]
        e_req = got_gf[0][2][2]
    else:
        e_req = P("request") if got else None
    if len(got) != 1:
        obs.add({"C11", "C05", "C07"}, "IDX-ALIGN", "Vmap.edit_index/inner", False, derived=f"{len(got)} inner edits", expected="one", where=w)
    else:
        e = got[0] if not got_gf else got_gf[0]
        k, sl, ad = got[0][2]
        rq = e_req
        tin = ("attr", P("trace"), "inner")
        want_slice = ("treemap", ("index", ("leaf", tin), IDX), (tin,))
        obs.add({"C11", "C05", "C06"}, "IDX-ALIGN", "Vmap.edit_index/slice", sl == want_slice, derived=sl, expected="tree_map(v -> v[idx], trace.inner)", where=w)
        obs.add({"C11", "C05"}, "DELEG-ROLE", "Vmap.edit_index/request", rq == P("request") and k == P("key"), derived=f"{show(k)}, {show(rq)}", expected="key, request", where=w)
        # argument slice: take along the in_axes axis at the same idx; tangents from the argdiffs
        okad = is_call(ad, "tree_diff") and len(ad[2]) == 2 and ad[2][1] == ("call", ("attr", DIFF, "tree_tangent"), (P("argdiffs"),), ())
        ps = ad[2][0] if okad else None
        takes = [c for c in calls(ps, "take")] if ps is not None else []
        oktake = len(takes) == 1 and takes[0][2][1] == IDX and dict(takes[0][3]).get("axis") == ("leaf", INAX) and is_t(ps, "treemap") and ps[2] == (INAX, PR)
        nonearm = ps is not None and mentions_any(ps, lambda x: is_t(x, "phi") and is_t(x[1], "is") and x[1][1] == ("leaf", INAX) and x[2] == ("leaf", PR))
        obs.add({"C11", "C01", "C02", "C05", "C06"}, "IDX-ALIGN", "Vmap.edit_index/arg-slice", okad and oktake and nonearm, derived=ad,
                expected="Diff.tree_diff(tree_map(axis, x -> x if axis is None else take(x, idx, axis=axis), self.in_axes, primals), tree_tangent(argdiffs))", where=w)
        new_inner = ("treemap", ("atset", ("leaf", tin), IDX, ("leaf", mk_proj(e, 0))), (tin, mk_proj(e, 0)))
        f = ctor_fields(prog, q[0], "VmapTrace", "Vmap.edit_index")
        obs.add({"C11", "C01", "C05"}, "IDX-ALIGN", "Vmap.edit_index/write-back", f.get("inner") == new_inner, derived=f.get("inner"), expected="tree_map(v.at[idx].set(new slice)) with the same idx", where=w)
        obs.add({"C01", "C11"}, "TRACE-ARGS", "Vmap.edit_index", f.get("args") == PR, derived=f.get("args"), expected="Diff.tree_primal(argdiffs)", where=w)
        obs.add({"C01", "C02", "C11"}, "SCORE-AGG", "Vmap.edit_index/score", f.get("score") == jsum(stack(score_of(elem(new_inner)))), derived=f.get("score"), expected="sum of element scores of the updated stacked trace", where=w)
        obs.add({"C05", "C11", "C07"}, "WEIGHT-UPD", "Vmap.edit_index/weight", q[1] == mk_proj(e, 1), derived=q[1], expected="the edited element's weight", where=w)
        obs.add({"C06", "C11"}, "BWD-OLDVALUES", "Vmap.edit_index/bwd", q[3] == ("ctor", "IndexRequest", (IDX, mk_proj(e, 3)), ()), derived=q[3], expected="IndexRequest(idx, element backward request)", where=w)
        obs.add({"C08"}, "TAG-CONSERVATIVE", "Vmap.edit_index/retdiff", is_tag(q[2], "unknown_change", retval_of(new_inner)), derived=q[2], expected="unknown_change(new stacked retval)", where=w)
    asr = [t for c, t in r.asserts]
    obs.add({"C08", "C11"}, "TAG-BRANCH-INVENTORY", "Vmap.edit_index/assert", any(is_call(t, "static_check_no_change") and t[2] == (P("argdiffs"),) for t in asr), derived=[show(t) for t in asr], expected="assert Diff.static_check_no_change(argdiffs)", where=w)

    # ---------------------------------------------------------------- edit dispatch
    r = ev.eval_fn(V.methods["edit"], V.module, V)
    acc = set()
    for conds, t in arms_of(r):
        for c, pol in conds:
            if pol and is_t(c, "isinst") and c[1] == P("edit_request"):
                acc.add(c[2])
    obs.add({"C06", "C11"}, "REQ-ACCEPT", "Vmap.edit", acc == {"Update", "IndexRequest"}, derived=str(sorted(acc)), expected="Update, IndexRequest", where=W(V, "edit"))
    from .common import dispatch_roles
    ev_d = Evaluator(prog)
    ev_d.opaque_methods |= {"edit_choice_map", "edit_index"}
    r_d = ev_d.eval_fn(V.methods["edit"], V.module, V)
    dispatch_roles(obs, {"C05", "C11", "C06"}, "Vmap", r_d, {"Update": ["constraint"], "IndexRequest": ["idx", "request"]}, W(V, "edit"))
    obs.add({"C06"}, "REQ-EXHAUSTIVE", "Vmap.edit", len(r.raises) >= 1, derived=f"{len(r.raises)} raising arm(s)", expected="default arm raises", where=W(V, "edit"))
    for conds, t in arms_of(r):
        kind = [c[2] for c, pol in conds if pol and is_t(c, "isinst")]
        if kind and kind[0] == "IndexRequest":
            ok = mentions(t, ("attr", P("edit_request"), "idx")) and mentions(t, ("attr", P("edit_request"), "request"))
            obs.add({"C11", "C06"}, "DELEG-ROLE", "Vmap.edit/IndexRequest", ok, derived=show(t)[:200], expected="idx and sub-request forwarded to edit_index", where=W(V, "edit"))

    # ---------------------------------------------------------------- repeat
    m, fn = prog.func("RepeatCombinator", "combinators/repeat.py")
    ev2 = Evaluator(prog)
    r = ev2.eval_fn(fn, m)
    t = r.ret
    # gen_fn.contramap(f1).vmap(in_axes=(0, None)).contramap(f2)
    chain = []
    cur = t
    while is_t(cur, "call") and is_t(cur[1], "attr"):
        chain.append((cur[1][2], cur))
        cur = cur[1][1]
    chain.reverse()
    names = [n for n, _ in chain]
    w = f"{m.rel}:{fn.lineno}"
    okchain = cur == P("gen_fn") and names == ["contramap", "vmap", "contramap"]
    obs.add({"C11"}, "COMPOSE", "RepeatCombinator/chain", okchain, derived=f"{show(cur)}." + ".".join(names), expected="gen_fn.contramap(..).vmap(..).contramap(..)", where=w)
    if okchain:
        f1 = chain[0][1][2][0]
        r1 = ev2.apply(f1, [P("$idx"), P("$args")], module=m)
        obs.add({"C11"}, "COMPOSE", "RepeatCombinator/inner-pre", r1 == P("$args"), derived=r1, expected="drops the dummy index, passes the shared args", where=w)
        ia = dict(chain[1][1][3]).get("in_axes")
        obs.add({"C11"}, "COMPOSE", "RepeatCombinator/in_axes", ia == ("tuple", (C(0), C(None))), derived=ia, expected="(0, None): map over the dummy index, broadcast the args", where=w)
        f2 = chain[2][1][2][0]
        r2 = ev2.apply(f2, [("star", P("$a"))], module=m)
        okr = is_t(r2, "tuple") and len(r2[1]) == 2 and is_call(r2[1][0], "zeros") and r2[1][0][2] == (P("n"),) and r2[1][1] in (P("$a"), ("tuple", (("star", P("$a")),)))
        obs.add({"C11"}, "COMPOSE", "RepeatCombinator/outer-pre", okr, derived=r2, expected="(zeros(n), args)", where=w)
