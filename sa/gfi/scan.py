"""Scan / ScanTrace and the derived combinators (accumulate, reduce, iterate, iterate_final)."""

from __future__ import annotations

from ..finite import Unrecognised, ev_int
from ..linform import lin, show_lin
from ..program import AnalysisError
from ..rules import calls, is_call, is_mcall, mcalls, mentions, mentions_any
from ..terms import C, Evaluator, G, P, is_t, mk_proj, mk_slice, show, subterms, mk_cmp, mk_phi
from .common import main_ret, Obs, arms_of, call0, choices_of, cond_has, ctor_fields, is_zero, retval_of, score_of, tuple_n
from .distribution import is_tag

MOD = "combinators/scan.py"
FAMILY = "C12"
SELF = P("self")
K = ("attr", SELF, "kernel_gen_fn")
DIFF = G("genjax._src.core.compiler.interpreters.incremental.Diff")
LEN = ("attr", SELF, "length")


def jsum(t):
    return ("call", G("jax.numpy.sum"), (t,), ())


def dcall(name, x):
    return ("call", ("attr", DIFF, name), (x,), ())


def skeleton(ev, what):
    if len(ev.scans) != 1:
        raise AnalysisError(f"{what}: expected exactly one lax.scan, found {len(ev.scans)}")
    sid, sc = next(iter(ev.scans.items()))
    if not (is_t(sc.init, "tuple") and is_t(sc.carry_out, "tuple") and len(sc.init[1]) == len(sc.carry_out[1])):
        raise AnalysisError(f"{what}: scan carry is not a fixed-length tuple")
    return sid, sc


def slots(sc, what, want_key=True):
    """identify carry slots by the provenance of their initial values"""
    init = sc.init[1]
    key = [i for i, t in enumerate(init) if t == P("key")]
    cnt = [i for i, t in enumerate(init) if (is_call(t, "asarray", "array") and t[2] and t[2][0] == C(0)) or t == C(0)]
    rest = [i for i in range(len(init)) if i not in key and i not in cnt]
    if (want_key and len(key) != 1) or len(cnt) != 1 or len(rest) > 1:
        raise AnalysisError(f"{what}: cannot identify key/counter/carry slots in {show(sc.init)[:200]}")
    return (key[0] if key else None), cnt[0], (rest[0] if rest else None)


def build_fields(prog, t, what):
    return ctor_fields(prog, t, "ScanTrace", what)


def prepend_form(ev, fn_term, module):
    """fn_term(args, xformed, ret) prepends the initial value args[0] to the stacked values ret[1], leaf by leaf, with JAX's own dtype promotion:
    tree_map(concatenate([array(init)[newaxis] | expand_dims(array(init), 0), stacked], axis 0), args[0], ret[1]) - whoever defines the function"""
    A_, R_ = P("$args"), P("$ret")
    t = ev.apply(fn_term, [A_, P("$x"), R_], module=module)
    init, xs = mk_proj(A_, 0), mk_proj(R_, 1)
    if not (is_t(t, "treemap") and t[2] == (init, xs) and is_call(t[1], "concatenate")):
        return False, t
    c = t[1]
    lst = c[2][0] if c[2] else None
    if not ((is_t(lst, "list") or is_t(lst, "tuple")) and len(lst[1]) == 2 and lst[1][1] == ("leaf", xs)):  # concatenate takes any sequence
        return False, t
    if dict(c[3]).get("axis", C(0)) != C(0) or (len(c[2]) > 1 and c[2][1] != C(0)) or dict(c[3]).get("dtype") or any(is_mcall(x, "astype") for x in subterms(c)):
        return False, t
    h = lst[1][0]
    arr = lambda x: x == ("leaf", init) or ((is_call(x, "array") or is_call(x, "asarray")) and x[2] == (("leaf", init),) and not dict(x[3]).get("dtype"))
    head_ok = (is_t(h, "index") and h[2] in (C(None), ("global", "jax.numpy.newaxis")) and arr(h[1])) \
        or (is_call(h, "expand_dims") and arr(h[2][0]) and (h[2][1:] == (C(0),) or dict(h[3]).get("axis") == C(0)))
    return bool(head_ok), t


def analyse(obs: Obs, prog):
    # ---------------------------------------------------------------- the scan length is an Optional[int]: 0 is a length, None is "infer from xs"
    # (a truthiness test - `length or ...`, `if length:` - sends an explicit length 0 down the inference path: scan(n=0) with xs=None raises IndexError)
    import ast as _ast
    _S = prog.cls("Scan", "combinators/scan.py")
    n_opt = 0
    for _mn, _fn in _S.methods.items():
        opt = {a.arg for a in _fn.args.args + _fn.args.kwonlyargs if a.annotation is not None and _ast.unparse(a.annotation).replace(" ", "") in ("int|None", "None|int", "Optional[int]")}
        if not opt:
            continue
        n_opt += 1
        bad = []
        for node in _ast.walk(_fn):
            if isinstance(node, _ast.BoolOp):
                bad += [v.id for v in node.values[:-1] if isinstance(v, _ast.Name) and v.id in opt] + ([node.values[-1].id] if isinstance(node.op, _ast.And) and isinstance(node.values[-1], _ast.Name) and node.values[-1].id in opt else [])
            elif isinstance(node, (_ast.If, _ast.IfExp, _ast.While)) and isinstance(node.test, _ast.Name) and node.test.id in opt:
                bad.append(node.test.id)
            elif isinstance(node, _ast.UnaryOp) and isinstance(node.op, _ast.Not) and isinstance(node.operand, _ast.Name) and node.operand.id in opt:
                bad.append(node.operand.id)
        obs.add({"C12", "C02"}, "OPTIONAL-LENGTH", f"Scan.{_mn}", not bad, construct="truthiness test of an Optional[int] length",
                derived=f"{sorted(set(bad))} tested by truth value: an explicit 0 is treated like None" if bad else "compared with `is None`", expected="`length if length is not None else <inferred>`", where=f"{_S.module.rel}:{_fn.lineno}")
    obs.add({"C12"}, "FLOOR", "Scan/optional-length-sites", n_opt >= 1, derived=f"{n_opt} method(s) take an Optional[int] length", expected=">= 1 (Scan._static_scan_length)", where=f"{_S.module.rel}:{_S.node.lineno}")
    S = prog.cls("Scan", MOD)
    ST = prog.cls("ScanTrace", MOD)
    W = lambda c, m: f"{c.module.rel}:{c.methods[m].lineno}"

    def E():
        ev = Evaluator(prog)
        ev.opaque_methods.add("_static_scan_length")
        return ev

    ARGS = P("args")
    CARRY0, XS = mk_proj(ARGS, 0), mk_proj(ARGS, 1)
    SLEN = lambda xs: ("call", ("attr", SELF, "_static_scan_length"), (xs, LEN), ())

    def common_kernel(inst, sid, sc, ik, ic, iv, inner, props, where, key_used=True):
        cin, cout = sc.carry_in[1], sc.carry_out[1]
        obs.add(props | {"C12"}, "IDX-ALIGN", inst + "/counter", cout[ic] == ("bin", "+", cin[ic], C(1)), derived=cout[ic], expected="iteration counter starts at 0 and is incremented by 1", where=where)
        if key_used and ik is not None:
            fk = ("call", G("jax.random.fold_in"), (cin[ik], cin[ic]), ())
            kk = inner[2][0]
            obs.add({"C04"} | (props & {"C12"}), "KEY-LOOP", inst + "/key", kk == fk, derived=kk, expected="fold_in(carried key, iteration counter): a fresh key per iteration", where=where)
            obs.add({"C04"}, "KEY-LINEAR", inst + "/key-carry", cout[ik] == cin[ik] and cout[ik] != kk, construct="carried key",
                    derived=f"carries {show(cout[ik])[:120]}; the kernel consumes {show(kk)[:120]}",
                    expected="the parent key is carried unchanged and only the per-iteration child fold_in(key, i) is handed to the kernel: a key that a callee consumes must not also be the parent of later derivations "
                    "(the callee derives fold_in(k, c) for its own sites, which collides with fold_in(k, i+1))", where=where)
        lenkw = sc.length
        obs.add(props | {"C12"}, "SCAN-LENGTH", inst + "/length", lenkw == LEN, derived=lenkw, expected="length=self.length", where=where)

    # ---------------------------------------------------------------- accessors
    ev = E()
    for acc, fld in (("get_args", "args"), ("get_retval", "retval"), ("get_score", "score"), ("get_choices", "chm")):
        r = ev.eval_fn(ST.methods[acc], ST.module, ST)
        obs.add({"C01", "C12"}, "TRACE-ACCESSOR", f"ScanTrace.{acc}", r.ret == ("attr", SELF, fld), derived=r.ret, expected=f"self.{fld}", where=W(ST, acc))
    r = ev.eval_fn(ST.methods["get_inner_trace"], ST.module, ST)
    obs.add({"C34"}, "SUBTRACE", "ScanTrace.get_inner_trace", r.ret == ("call", ("attr", ("attr", SELF, "inner"), "get_inner_trace"), (P("address"),), ()), derived=r.ret, expected="self.inner.get_inner_trace(address)", where=W(ST, "get_inner_trace"))

    def check_build(f, inner_elem, args_term, retval_term, length, inst, where, props):
        obs.add(props | {"C01", FAMILY}, "TRACE-ARGS", inst, f.get("args") == args_term, derived=f.get("args"), expected=show(args_term), where=where)
        obs.add(props | {"C01", "C02", "C12"}, "SCORE-AGG", inst + "/score", f.get("score") == jsum(("stack", score_of(inner_elem))), derived=f.get("score"), expected="sum over iterations of the kernel trace's score", where=where)
        obs.add(props | {"C01", "C12"}, "TRACE-INNER", inst + "/inner", f.get("inner") == ("stack", inner_elem), derived=f.get("inner"), expected="stacked kernel traces (iteration i under index i)", where=where)
        chm = f.get("chm")
        okc = is_t(chm, "phi") and chm[1] == mk_cmp("==", length, C(0)) and is_call(chm[2], "empty") and chm[3] == ("stack", choices_of(inner_elem))
        obs.add(props | {"C01", "C12", "C17"}, "TRACE-CHOICES", inst + "/choices", okc, derived=chm, expected="length == 0 ? empty : vmap(get_choices)(kernel traces)", where=where)
        obs.add(props | {"C01", "C12"}, "TRACE-RETVAL", inst + "/retval", f.get("retval") == retval_term, derived=f.get("retval"), expected=show(retval_term)[:300], where=where)

    # ---------------------------------------------------------------- simulate
    ev = E()
    r = ev.eval_fn(S.methods["simulate"], S.module, S)
    w = W(S, "simulate")
    sid, sc = skeleton(ev, "Scan.simulate")
    ik, ic, iv = slots(sc, "Scan.simulate")
    cin, cout = sc.carry_in[1], sc.carry_out[1]
    inner = [c for c in mcalls(("tuple", (sc.carry_out, sc.y)), "simulate") if c[1][1] == K]
    if len(inner) != 1:
        raise AnalysisError("Scan.simulate: kernel simulate call not found")
    inner = inner[0]
    obs.add({"C12", "C04", "C01"}, "CARRY-THREAD", "Scan.simulate/kernel-args", inner[2][1] == ("tuple", (cin[iv], ("elem", XS))), derived=inner[2][1], expected="(carried value, i-th slice of the scanned input)", where=w)
    obs.add({"C12", "C01"}, "CARRY-THREAD", "Scan.simulate/carry-out", cout[iv] == mk_proj(retval_of(inner), 0), derived=cout[iv], expected="kernel retval[0] becomes the next carry", where=w)
    obs.add({"C12", "C01"}, "CARRY-THREAD", "Scan.simulate/init", sc.init[1][iv] == CARRY0 and sc.xs == XS, derived=f"init={show(sc.init[1][iv])} xs={show(sc.xs)}", expected="init carry = args[0]; xs = args[1]", where=w)
    common_kernel("Scan.simulate", sid, sc, ik, ic, iv, inner, {"C04"}, w)
    f = build_fields(prog, r.ret, "Scan.simulate")
    check_build(f, inner, ARGS, ("tuple", (("scanfinal", sid, iv), ("stack", mk_proj(retval_of(inner), 1)))), SLEN(XS), "Scan.simulate", w, {"C04"})

    # ---------------------------------------------------------------- generate
    ev = E()
    r = ev.eval_fn(S.methods["generate"], S.module, S)
    w = W(S, "generate")
    pair = tuple_n(r.ret, 2, "Scan.generate")
    sid, sc = skeleton(ev, "Scan.generate")
    ik, ic, iv = slots(sc, "Scan.generate")
    cin, cout = sc.carry_in[1], sc.carry_out[1]
    inner = [c for c in mcalls(("tuple", (sc.carry_out, sc.y)), "generate") if c[1][1] == K]
    if len(inner) != 1:
        raise AnalysisError("Scan.generate: kernel generate call not found")
    inner = inner[0]
    sub = ("call", P("constraint"), (cin[ic],), ())
    obs.add({"C03", "C12"}, "IDX-ALIGN", "Scan.generate/submap", inner[2][1] == sub, derived=inner[2][1], expected="constraint.get_submap(iteration counter) - used before the increment", where=w)
    obs.add({"C12", "C03"}, "CARRY-THREAD", "Scan.generate/kernel-args", inner[2][2] == ("tuple", (cin[iv], ("elem", XS))), derived=inner[2][2], expected="(carried value, i-th slice)", where=w)
    obs.add({"C12", "C03"}, "CARRY-THREAD", "Scan.generate/carry-out", cout[iv] == mk_proj(retval_of(mk_proj(inner, 0)), 0), derived=cout[iv], expected="kernel retval[0] becomes the next carry", where=w)
    common_kernel("Scan.generate", sid, sc, ik, ic, iv, inner, {"C03"}, w)
    f = build_fields(prog, pair[0], "Scan.generate")
    tr = mk_proj(inner, 0)
    check_build(f, tr, ARGS, ("tuple", (("scanfinal", sid, iv), ("stack", mk_proj(retval_of(tr), 1)))), SLEN(XS), "Scan.generate", w, {"C03"})
    obs.add({"C03", "C12"}, "WEIGHT-GEN", "Scan.generate/weight", pair[1] == jsum(("stack", mk_proj(inner, 1))), derived=pair[1], expected="sum over iterations of kernel weights", where=w)

    # ---------------------------------------------------------------- assess
    ev = E()
    r = ev.eval_fn(S.methods["assess"], S.module, S)
    w = W(S, "assess")
    pair = tuple_n(r.ret, 2, "Scan.assess")
    sid, sc = skeleton(ev, "Scan.assess")
    _, ic, iv = slots(sc, "Scan.assess", want_key=False)
    cin, cout = sc.carry_in[1], sc.carry_out[1]
    inner = [c for c in mcalls(("tuple", (sc.carry_out, sc.y)), "assess") if c[1][1] == K]
    if len(inner) != 1:
        raise AnalysisError("Scan.assess: kernel assess call not found")
    inner = inner[0]
    sub = ("call", P("sample"), (cin[ic],), ())
    obs.add({"C01", "C02", "C12"}, "IDX-ALIGN", "Scan.assess/submap", inner[2][0] == sub, derived=inner[2][0], expected="sample.get_submap(iteration counter)", where=w)
    obs.add({"C01", "C12"}, "CARRY-THREAD", "Scan.assess/kernel-args", inner[2][1] == ("tuple", (cin[iv], ("elem", XS))), derived=inner[2][1], expected="(carried value, i-th slice)", where=w)
    obs.add({"C01", "C12"}, "CARRY-THREAD", "Scan.assess/carry-out", cout[iv] == mk_proj(mk_proj(inner, 1), 0), derived=cout[iv], expected="kernel retval[0] becomes the next carry", where=w)
    obs.add({"C01", "C12"}, "IDX-ALIGN", "Scan.assess/counter", cout[ic] == ("bin", "+", cin[ic], C(1)) and sc.init[1][iv] == CARRY0, derived=cout[ic], expected="counter + 1; init carry args[0]", where=w)
    obs.add({"C01", "C02", "C12"}, "ASSESS-AGREE", "Scan.assess/score", pair[0] == jsum(("stack", mk_proj(inner, 0))), derived=pair[0], expected="sum over iterations of kernel scores", where=w)
    obs.add({"C01", "C12"}, "ASSESS-AGREE", "Scan.assess/retval", pair[1] == ("tuple", (("scanfinal", sid, iv), ("stack", mk_proj(mk_proj(inner, 1), 1)))), derived=pair[1], expected="(final carry, stacked kernel retval[1])", where=w)

    # ---------------------------------------------------------------- project
    ev = E()
    r = ev.eval_fn(S.methods["project"], S.module, S)
    w = W(S, "project")
    if len(ev.scans) != 1:
        raise AnalysisError(f"Scan.project: expected exactly one lax.scan, found {len(ev.scans)}")
    sid, sc = next(iter(ev.scans.items()))
    # the carry threads the step counter, and the key either with it or as a loop invariant of the step function (it is never replaced: each step folds the
    # counter into the SAME key)
    if is_t(sc.init, "tuple"):
        init_p, cin, cout_p = sc.init[1], sc.carry_in[1], (sc.carry_out[1] if is_t(sc.carry_out, "tuple") else ())
    else:
        init_p, cin, cout_p = (sc.init,), (sc.carry_in,), (sc.carry_out,)
    is0 = lambda t: (is_call(t, "asarray", "array") and t[2] and t[2][0] == C(0)) or t == C(0)
    cnts = [i for i, t in enumerate(init_p) if is0(t)]
    keys_ = [i for i, t in enumerate(init_p) if t == P("key")]
    if len(cnts) != 1 or len(keys_) > 1 or len(init_p) != len(cnts) + len(keys_) or len(cout_p) != len(init_p):
        raise AnalysisError(f"Scan.project: cannot identify key/counter slots in {show(sc.init)[:200]}")
    ic = cnts[0]
    key_t = cin[keys_[0]] if keys_ else P("key")
    tin = ("attr", P("trace"), "inner")
    pc = ("call", ("attr", ("elem", tin), "project"), (("call", G("jax.random.fold_in"), (key_t, cin[ic]), ()), P("selection")), ())
    obs.add({"C10", "C12"}, "IDX-ALIGN", "Scan.project/carry", (not keys_ or cout_p[keys_[0]] == cin[keys_[0]]) and cout_p[ic] == ("bin", "+", cin[ic], C(1)), derived=sc.carry_out, expected="(key, idx + 1)  (or idx + 1 with the key as a loop invariant)", where=w)
    obs.add({"C10", "C12"}, "WEIGHT-PROJ", "Scan.project", r.ret == jsum(("stack", pc)) and sc.xs == tin, derived=r.ret, expected="sum over iterations of subtrace.project(key_i, selection) - the selection passes through the index level unchanged", where=w)

    # ---------------------------------------------------------------- edit_update / edit_regenerate
    for meth, reqk in (("edit_update", "Update"), ("edit_regenerate", "Regenerate")):
        ev = E()
        r = ev.eval_fn(S.methods[meth], S.module, S)
        w = W(S, meth)
        q = tuple_n(main_ret(obs, r, f"Scan.{meth}", w, {"C05", "C12"} if meth == "edit_update" else {"C07", "C12"}), 4, f"Scan.{meth}")
        sid, sc = skeleton(ev, f"Scan.{meth}")
        ik, ic, iv = slots(sc, f"Scan.{meth}")
        cin, cout = sc.carry_in[1], sc.carry_out[1]
        props = {"C05"} if reqk == "Update" else {"C07"}
        inner = [c for c in mcalls(("tuple", (sc.carry_out, sc.y)), "edit")]
        if len(inner) != 1:
            raise AnalysisError(f"Scan.{meth}: kernel edit call not found ({len(inner)})")
        inner = inner[0]
        PRA = dcall("tree_primal", P("argdiffs"))
        diffs = dcall("unknown_change", PRA)
        tin = ("attr", P("trace"), "inner")
        if reqk == "Update":
            okreq = inner[1][1] == K and len(inner[2]) == 4 and inner[2][2] == ("ctor", "Update", (("call", P("constraint"), (cin[ic],), ()),), ())
            ad = inner[2][3] if len(inner[2]) == 4 else None
            sub_tr = inner[2][1]
            expreq = "kernel.edit(key_i, subtrace_i, Update(constraint(i)), (carry, xs_i))"
        else:
            okreq = inner[1][1] == ("ctor", "Regenerate", (P("selection"),), ()) and len(inner[2]) == 3
            ad = inner[2][2] if len(inner[2]) == 3 else None
            sub_tr = inner[2][1]
            expreq = "Regenerate(selection).edit(key_i, subtrace_i, (carry, xs_i)) - the SAME selection for every iteration"
        obs.add(props | {"C12"}, "IDX-ALIGN", f"Scan.{meth}/request", okreq, derived=show(inner)[:300], expected=expreq, where=w)
        obs.add(props | {"C12"}, "IDX-ALIGN", f"Scan.{meth}/subtrace", sub_tr == ("elem", tin), derived=sub_tr, expected="i-th slice of trace.inner scanned together with the inputs", where=w)
        want_ad = ("tuple", (cin[iv], ("elem", mk_proj(diffs, 1))))
        obs.add(props | {"C12"}, "CARRY-THREAD", f"Scan.{meth}/kernel-args", ad == want_ad, derived=ad, expected="(carried value diff, i-th slice of the scanned-input diffs)", where=w)
        obs.add(props | {"C12", "C08"}, "CARRY-THREAD", f"Scan.{meth}/init", sc.init[1][iv] == mk_proj(diffs, 0), derived=sc.init[1][iv], expected="unknown_change(primal(argdiffs))[0] (conservative tags)", where=w)
        crd = mk_proj(dcall("unknown_change", mk_proj(inner, 2)), 0)
        obs.add(props | {"C12"}, "CARRY-THREAD", f"Scan.{meth}/carry-out", cout[iv] == crd, derived=cout[iv], expected="kernel retdiff[0] becomes the next carry diff", where=w)
        common_kernel(f"Scan.{meth}", sid, sc, ik, ic, iv, inner, props, w)
        f = build_fields(prog, q[0], f"Scan.{meth}")
        tr = mk_proj(inner, 0)
        yret = ("stack", mk_proj(dcall("unknown_change", mk_proj(inner, 2)), 1))
        want_ret = ("tuple", (dcall("tree_primal", ("scanfinal", sid, iv)), dcall("tree_primal", yret)))
        check_build(f, tr, PRA, want_ret, ("attr", P("trace"), "scan_length"), f"Scan.{meth}", w, props)
        obs.add(props | {"C12"}, "WEIGHT-UPD", f"Scan.{meth}/weight", q[1] == jsum(("stack", mk_proj(inner, 1))), derived=q[1], expected="sum over iterations of kernel edit weights", where=w)
        obs.add(props | {"C08", "C12"}, "TRACE-RETVAL", f"Scan.{meth}/retdiff", q[2] == ("tuple", (("scanfinal", sid, iv), yret)), derived=q[2], expected="(final carry diff, stacked output diffs)", where=w)
        if reqk == "Update":
            okb = q[3] == ("ctor", "Update", (("stack", ("attr", mk_proj(inner, 3), "constraint")),), ())
            obs.add({"C05", "C06", "C12"}, "BWD-OLDVALUES", f"Scan.{meth}/bwd", okb, derived=q[3], expected="Update(stacked kernel backward constraints)", where=w)
        bname = q[3][1] if is_t(q[3], "ctor") else "?"
        obs.add({"C06"}, "BWD-CLOSED", f"Scan.{meth}", bname in ("Update", "IndexRequest", "Regenerate"), construct=f"{bname}",
                derived=f"returns {bname}(...), which Scan.edit has no arm for", expected="a request class Scan.edit accepts (Regenerate, Update, IndexRequest)", where=w)

    # ---------------------------------------------------------------- edit_index
    ev = E()
    r = ev.eval_fn(S.methods["edit_index"], S.module, S)
    w = W(S, "edit_index")
    q = tuple_n(r.ret, 4, "Scan.edit_index")
    IDX = P("idx")
    tin = ("attr", P("trace"), "inner")
    PRA = dcall("tree_primal", P("argdiffs"))
    scanned_in = dcall("tree_primal", mk_proj(P("argdiffs"), 1))
    MAXL = SLEN(scanned_in)
    edits = [c for c in mcalls(r.ret, "edit")]
    E1 = [c for c in edits if c[1][1] == P("request")]
    E2 = [c for c in edits if is_t(c[1][1], "ctor") and c[1][1][1] == "Update"]
    if len(E1) != 1 or len(E2) != 1:
        raise AnalysisError(f"Scan.edit_index: expected the requested edit and one forced Update, found {len(E1)}/{len(E2)}")
    E1, E2 = E1[0], E2[0]
    sl = ("treemap", ("index", ("leaf", tin), IDX), (tin,))
    obs.add({"C12", "C05", "C06"}, "IDX-ALIGN", "Scan.edit_index/slice", E1[2][1] == sl and is_tag(E1[2][2], "no_change", call0(sl, "get_args")), derived=show(E1)[:300], expected="request.edit(key, trace.inner[idx], no_change(slice args))", where=w)
    nxt = ("treemap", ("index", ("leaf", ("tuple", (tin, scanned_in))), ("bin", "+", IDX, C(1))), (("tuple", (tin, scanned_in)),))
    okn = E2[2][1] == mk_proj(nxt, 0) and is_t(E2[2][2], "tuple") and E2[2][2][1][0] == mk_proj(mk_proj(E1, 2), 0) and is_tag(E2[2][2][1][1], "no_change", mk_proj(nxt, 1)) and is_call(E2[1][1][2][0], "empty")
    obs.add({"C12", "C05"}, "CARRY-THREAD", "Scan.edit_index/next-slice", okn, derived=show(E2)[:400], expected="Update(empty).edit(key, trace.inner[idx+1], (edited slice's carry retdiff, no_change(xs[idx+1])))", where=w)
    asr = [t for c, t in r.asserts]
    obs.add({"C08", "C12"}, "TAG-BRANCH-INVENTORY", "Scan.edit_index/asserts", any(is_call(t, "static_check_no_change") and t[2] == (P("argdiffs"),) for t in asr) and any(is_call(t, "static_check_no_change") and t[2] == (mk_proj(E2, 2),) for t in asr),
            derived=[show(t)[:100] for t in asr], expected="asserts: argdiffs unchanged; the next slice's retdiff unchanged", where=w)
    # weight
    form = lin(q[1])
    guardw = None
    for m in form:
        if mk_proj(E2, 1) in m and len(m) == 2:
            guardw = next(iter(m - {mk_proj(E2, 1)}))
    okw = len(form) == 2 and form.get(frozenset([mk_proj(E1, 1)])) == 1 and guardw is not None
    if okw:
        try:
            okw = all(bool(ev_int(guardw, {IDX: i, MAXL: n})) == (i + 1 < n) for n in range(1, 5) for i in range(0, n))
        except Unrecognised:
            okw = False
    obs.add({"C05", "C12"}, "WEIGHT-UPD", "Scan.edit_index/weight", okw, derived=show_lin(form), expected="w(edited slice) + [idx+1 < length] * w(next slice)", where=w)
    f = build_fields(prog, q[0], "Scan.edit_index")
    # final carry: old final carry unless the edited slice is the last one
    carried = mk_proj(f.get("retval"), 0)
    old_final = mk_proj(retval_of(P("trace")), 0)
    new_carry = dcall("tree_primal", mk_proj(mk_proj(E1, 2), 0))
    okcarry = False
    der = carried
    if is_t(carried, "treemap") and is_t(carried[1], "where"):
        g, a, b = carried[1][1], carried[1][2], carried[1][3]
        unl = lambda t: t[1] if is_t(t, "leaf") else t
        a, b = unl(a), unl(b)
        try:
            table = {(i, n): bool(ev_int(g, {IDX: i, MAXL: n})) for n in range(1, 5) for i in range(0, n)}
            if a == old_final and b == new_carry:
                okcarry = all(v == (i + 1 < n) for (i, n), v in table.items())
            elif a == new_carry and b == old_final:
                okcarry = all(v == (not (i + 1 < n)) for (i, n), v in table.items())
        except Unrecognised:
            okcarry = False
    obs.add({"C01", "C12"}, "CARRY-THREAD", "Scan.edit_index/final-carry", okcarry, construct="final carry stored in the ScanTrace",
            derived=der, expected="idx+1 < length ? previous final carry : carry returned by the edited (last) slice", where=w)
    # stacked outputs
    ys = mk_proj(f.get("retval"), 1)
    # ROW idx of the stacked outputs: the leading axis, whatever the shape of one output.  `where(arange(n) == idx, new, old)` broadcasts its (n,) mask against
    # the LAST axis of an (n, *s) output - right for scalar outputs only (vector outputs: a crash, or a silently overwritten column when s == (n,))
    new_out, old_out = ("leaf", dcall("tree_primal", mk_proj(mk_proj(E1, 2), 1))), ("leaf", mk_proj(retval_of(P("trace")), 1))
    oky = is_t(ys, "treemap") and ys[1] == ("atset", old_out, IDX, new_out)
    obs.add({"C01", "C12"}, "IDX-ALIGN", "Scan.edit_index/stacked-out", oky, derived=ys, expected="old outputs .at[idx].set(new slice output) - the leading axis is the iteration axis", where=w)
    # inner trace write-back at idx and idx+1 (guarded)
    inn = f.get("inner")
    # (consecutive leafwise maps are one fused map over (old inner, edited slice, revisited slice))
    def mutl(base_leaf, pos, val):
        return ("atset", base_leaf, pos, ("where", ("cmp", "<", pos, MAXL), ("leaf", val), ("index", base_leaf, pos)))
    want_inn = ("treemap", mutl(mutl(("leaf", tin), IDX, mk_proj(E1, 0)), ("bin", "+", IDX, C(1)), mk_proj(E2, 0)), (tin, mk_proj(E1, 0), mk_proj(E2, 0)))
    obs.add({"C01", "C12", "C05"}, "IDX-ALIGN", "Scan.edit_index/write-back", inn == want_inn, derived=inn, expected="slots idx and idx+1 (when in range) replaced by the edited / revisited slices", where=w)
    obs.add({"C01", "C02", "C12"}, "SCORE-AGG", "Scan.edit_index/score", f.get("score") == jsum(("stack", score_of(("elem", inn)))), derived=f.get("score"), expected="sum of the updated stacked kernel scores", where=w)
    obs.add({"C01", "C12"}, "TRACE-ARGS", "Scan.edit_index", f.get("args") == PRA, derived=f.get("args"), expected="Diff.tree_primal(argdiffs)", where=w)
    okrd = is_t(q[2], "tuple") and len(q[2][1]) == 2 and is_tag(q[2][1][0], "unknown_change", carried) and is_tag(q[2][1][1], "unknown_change", ys)
    obs.add({"C08", "C12"}, "TAG-CONSERVATIVE", "Scan.edit_index/retdiff", okrd, derived=q[2], expected="(unknown_change(new final carry), unknown_change(new stacked outputs))", where=w)
    obs.add({"C06", "C12"}, "BWD-OLDVALUES", "Scan.edit_index/bwd", q[3] == ("ctor", "IndexRequest", (IDX, mk_proj(E1, 3)), ()), derived=q[3], expected="IndexRequest(idx, slice backward request)", where=w)
    obs.add({"C06"}, "BWD-CLOSED", "Scan.edit_index", is_t(q[3], "ctor") and q[3][1] in ("Update", "IndexRequest", "Regenerate"), derived=q[3][1] if is_t(q[3], "ctor") else "?", expected="accepted by Scan.edit", where=w)
    if E1[2][0] == E2[2][0]:
        obs.note({"C04", "C12"}, "Scan.edit_index: the edited slice and the revisited next slice receive the same key (edit path; outside C04's statement)")

    # ---------------------------------------------------------------- edit dispatch
    ev = E()
    r = ev.eval_fn(S.methods["edit"], S.module, S)
    acc = set()
    for conds, t in arms_of(r):
        for c, pol in conds:
            if pol and is_t(c, "isinst") and c[1] == P("edit_request"):
                acc.add(c[2])
    obs.add({"C06", "C12"}, "REQ-ACCEPT", "Scan.edit", acc == {"Regenerate", "Update", "IndexRequest"}, derived=str(sorted(acc)), expected="Regenerate, Update, IndexRequest", where=W(S, "edit"))
    from .common import dispatch_roles
    ev_d = Evaluator(prog)
    ev_d.opaque_methods |= {"edit_regenerate", "edit_update", "edit_index"}
    r_d = ev_d.eval_fn(S.methods["edit"], S.module, S)
    dispatch_roles(obs, {"C05", "C07", "C12", "C06"}, "Scan", r_d, {"Regenerate": ["selection"], "Update": ["constraint"], "IndexRequest": ["idx", "request"]}, W(S, "edit"))
    obs.add({"C06"}, "REQ-EXHAUSTIVE", "Scan.edit", len(r.raises) >= 1, derived=f"{len(r.raises)} raising arm(s)", expected="default arm raises", where=W(S, "edit"))

    # ---------------------------------------------------------------- derived combinators
    m = S.module
    ev = Evaluator(prog)

    def chain_of(t):
        out, cur = [], t
        while is_t(cur, "call") and is_t(cur[1], "attr"):
            out.append((cur[1][2], cur))
            cur = cur[1][1]
        return cur, list(reversed(out))

    def kwv(call, name, pos=None):
        d = dict(call[3])
        if name in d:
            return d[name]
        return call[2][pos] if pos is not None and len(call[2]) > pos else None

    def decorated(name):
        mm, fn = prog.func(name, MOD)
        r = ev.eval_fn(fn, mm)
        if ev.closure_of(r.ret) is None:
            raise AnalysisError(f"{name} does not return a decorator")
        return ev.apply(r.ret, [P("f")], module=mm), f"{mm.rel}:{fn.lineno}"

    A, X, R = P("$args"), P("$xf"), P("$ret")
    # prepend_initial_acc
    mm, pf = prog.func("prepend_initial_acc", MOD)
    evp_ = Evaluator(prog)
    okp, tp_ = prepend_form(evp_, G(mm.dotted + ".prepend_initial_acc"), mm)
    rp = type("R", (), {"ret": tp_})()
    obs.add({"C12", "C16"}, "COMPOSE", "prepend_initial_acc", okp, derived=rp.ret, expected="tree_map(concatenate([init[newaxis], stacked]), args[0], ret[1])", where=f"{mm.rel}:{pf.lineno}")
    is_ppa = lambda t: t is not None and prepend_form(ev, t, m)[0]  # by what the function does (prepend_initial_acc or an equivalent local function)
    ident_pre = lambda t: ev.closure_of(t) is not None and ev.apply(t, [("star", P("$a"))], module=m) in (P("$a"), ("tuple", (("star", P("$a")),)))

    # accumulate: f.map(ret -> (ret, ret)).scan().dimap(pre=identity, post=prepend_initial_acc)
    t, w = decorated("accumulate")
    base, ch = chain_of(t)
    names = [n for n, _ in ch]
    ok = base == P("f") and names == ["map", "scan", "dimap"]
    obs.add({"C12"}, "COMPOSE", "accumulate/chain", ok, derived=".".join(names), expected="f.map(..).scan().dimap(..)", where=w)
    if ok:
        f1 = ev.apply(kwv(ch[0][1], "f", 0), [R], module=m)
        obs.add({"C12"}, "COMPOSE", "accumulate/kernel-post", f1 == ("tuple", (R, R)), derived=f1, expected="(ret, ret): carry and emit the new accumulator", where=w)
        obs.add({"C12"}, "COMPOSE", "accumulate/post", is_ppa(kwv(ch[2][1], "post")) and ident_pre(kwv(ch[2][1], "pre")), derived=show(kwv(ch[2][1], "post")), expected="pre=identity, post=prepend_initial_acc", where=w)
    # reduce: f.map(ret -> (ret, None)).scan().map(ret -> ret[0])
    t, w = decorated("reduce")
    base, ch = chain_of(t)
    names = [n for n, _ in ch]
    ok = base == P("f") and names == ["map", "scan", "map"]
    obs.add({"C12"}, "COMPOSE", "reduce/chain", ok, derived=".".join(names), expected="f.map(..).scan().map(..)", where=w)
    if ok:
        f1 = ev.apply(kwv(ch[0][1], "f", 0), [R], module=m)
        f2 = ev.apply(kwv(ch[2][1], "f", 0), [R], module=m)
        obs.add({"C12"}, "COMPOSE", "reduce/kernel-post", f1 == ("tuple", (R, C(None))), derived=f1, expected="(ret, None)", where=w)
        obs.add({"C12"}, "COMPOSE", "reduce/post", f2 == mk_proj(R, 0), derived=f2, expected="ret[0]: the final carry", where=w)
    # iterate / iterate_final
    for name, final in (("iterate", False), ("iterate_final", True)):
        mm, fn = prog.func(name, MOD)
        r = ev.eval_fn(fn, mm)
        t = ev.apply(r.ret, [P("f")], module=mm)
        w = f"{mm.rel}:{fn.lineno}"
        base, ch = chain_of(t)
        names = [n for n, _ in ch]
        ok = base == P("f") and names == ["dimap", "scan", "dimap"]
        obs.add({"C12"}, "COMPOSE", f"{name}/chain", ok, derived=".".join(names), expected="f.dimap(..).scan(n=n).dimap(..)", where=w)
        if not ok:
            continue
        pre1 = ev.apply(kwv(ch[0][1], "pre"), [("star", P("$a"))], module=mm)
        obs.add({"C12"}, "COMPOSE", f"{name}/strip-none", pre1 == mk_slice(P("$a"), None, -1), derived=pre1, expected="args[:-1]: drop the scanned None", where=w)
        post1 = ev.apply(kwv(ch[0][1], "post"), [A, X, R], module=mm)
        obs.add({"C12"}, "COMPOSE", f"{name}/kernel-post", post1 == (("tuple", (R, C(None))) if final else ("tuple", (R, R))), derived=post1, expected="(ret, None)" if final else "(ret, ret)", where=w)
        obs.add({"C12"}, "COMPOSE", f"{name}/length", dict(ch[1][1][3]).get("n") == P("n"), derived=show(ch[1][1])[-40:], expected=".scan(n=n)", where=w)
        pre2 = ev.apply(kwv(ch[2][1], "pre"), [("star", P("$a"))], module=mm)
        obs.add({"C12"}, "COMPOSE", f"{name}/append-none", pre2 == ("tuple", (("star", P("$a")), C(None))), derived=pre2, expected="(*args, None)", where=w)
        post2 = kwv(ch[2][1], "post")
        if final:
            p2 = ev.apply(post2, [A, X, R], module=mm)
            obs.add({"C12"}, "COMPOSE", f"{name}/post", p2 == mk_proj(R, 0), derived=p2, expected="ret[0]: the final value", where=w)
        else:
            obs.add({"C12"}, "COMPOSE", f"{name}/post", is_ppa(post2), derived=show(post2), expected="prepend_initial_acc", where=w)
    # scan decorator
    mm, fn = prog.func("scan", MOD)
    r = ev.eval_fn(fn, mm)
    t = ev.apply(r.ret, [P("f")], module=mm)
    obs.add({"C12"}, "COMPOSE", "scan/decorator", is_t(t, "ctor") and t[1] == "Scan" and ctor_fields(prog, t, "Scan", "scan decorator").get("kernel_gen_fn", t[2][0] if t[2] else None) == P("f") and ctor_fields(prog, t, "Scan", "scan decorator").get("length") == P("n"), derived=t, expected="Scan(f, length=n)", where=f"{mm.rel}:{fn.lineno}")
