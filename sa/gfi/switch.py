"""Switch / SwitchTrace, or_else, mix."""

from __future__ import annotations

from ..finite import Unrecognised, ev_int
from ..linform import lin, show_lin
from ..program import AnalysisError
from ..rules import calls, is_call, is_mcall, mcalls, mentions, mentions_any
from ..terms import C, Evaluator, G, P, is_t, mk_elem, mk_proj, mk_slice, renorm, resolve, show, subterms, mk_cmp, mk_phi
from .common import Obs, arms_of, call0, choices_of, cond_has, ctor_fields, is_zero, retval_of, score_of, tuple_n

MOD = "combinators/switch.py"
SELF = P("self")
BR = ("attr", SELF, "branches")
DIFF = G("genjax._src.core.compiler.interpreters.incremental.Diff")


def dcall(name, *xs):
    return ("call", ("attr", DIFF, name), tuple(xs), ())


def consumers(t):
    """(kind, idx) of every multi_switch / tree_choose in a term"""
    out = []
    for x in subterms(t):
        if is_t(x, "mswitch") or is_t(x, "choose"):
            out.append((x[0], x[1]))
    return list(dict.fromkeys(out))


def clamp_ok(prog, ci, fn):
    """finite check that a helper is a clamp into [0, n-1] for Python ints and for arrays"""
    ev = Evaluator(prog)
    r = ev.eval_fn(fn, ci.module, ci)
    n_t = ("call", G("len"), (BR,), ())
    ok = True
    tried = 0
    try:
        for n in range(1, 5):
            for i in range(-3, 7):
                want = min(max(i, 0), n - 1)
                for isint in (True, False):
                    env = {P("idx"): i, n_t: n}
                    # resolve isinstance(idx, int) tests
                    def ev_(t):
                        if is_t(t, "phi") and is_t(t[1], "isinst"):
                            return ev_(t[2]) if isint else ev_(t[3])
                        return ev_int(t, env)
                    tried += 1
                    if ev_(r.ret) != want:
                        ok = False
    except Unrecognised as e:
        return False, f"unrecognised form {e}", show(r.ret)
    return ok, f"{tried} (n, idx, int/array) rows", show(r.ret)


def analyse(obs: Obs, prog):
    S = prog.cls("Switch", MOD)
    ST = prog.cls("SwitchTrace", MOD)
    W = lambda c, m: f"{c.module.rel}:{c.methods[m].lineno}"

    # ---------------------------------------------------------------- which same-class helpers normalise (clamp) an index?
    clamps = {}
    for name, fn in S.methods.items():
        if len(fn.args.args) == 2 and fn.args.args[1].arg == "idx":
            ok, how, form = clamp_ok(prog, S, fn)
            clamps[name] = ok
            obs.add({"C13", "C20"}, "IDX-NORMALISE", f"Switch.{name}", ok, derived=f"{form[:200]} :: {how}", expected="min(max(idx, 0), n-1) for Python ints and for arrays (the clamp multi_switch / lax.switch applies)", where=W(S, name))
    helper_names = set(clamps)

    def E():
        ev = Evaluator(prog)
        ev.opaque_methods |= helper_names | {"_check_args_match_branches"}
        return ev

    def normalised(idx_term, raw):
        """idx_term is clamp(raw) by a verified helper (self.h(raw) or trace.gen_fn.h(raw)), or an explicit jnp.clip(raw, 0, n-1)"""
        if is_t(idx_term, "call") and is_t(idx_term[1], "attr") and idx_term[1][2] in clamps and clamps[idx_term[1][2]] and idx_term[2] == (raw,):
            return True
        if is_call(idx_term, "clip") and len(idx_term[2]) == 3 and idx_term[2][0] == raw and idx_term[2][1] == C(0):
            return True
        return False

    def idx_consist(inst, ret, raw, props, where, extra=()):
        cons = consumers(ret)
        idxs = {i for _, i in cons} | set(extra)
        one = len(idxs) == 1
        norm = one and normalised(next(iter(idxs)), raw)
        kinds = sorted({k for k, _ in cons})
        obs.add(props | {"C13"}, "IDX-CONSIST", inst, one and norm and len(cons) >= 2, construct="index seen by multi_switch (executes, clamps) and tree_choose (selects, wraps)",
                derived=f"{kinds} consume {[show(i)[:80] for i in idxs]}", expected=f"every consumer receives the SAME clamped index clamp({show(raw)})", where=where)
        return next(iter(idxs)) if one else None

    # ---------------------------------------------------------------- SwitchTrace
    ev = E()
    r = ev.eval_fn(ST.methods["get_idx"], ST.module, ST)
    raw_tr = mk_proj(("attr", SELF, "args"), 0)
    obs.add({"C13", "C34", "C01"}, "IDX-CONSIST", "SwitchTrace.get_idx", normalised(r.ret, raw_tr), derived=r.ret, expected="the clamped first argument", where=W(ST, "get_idx"))
    ev = E()
    ev.opaque_methods.add("get_idx")
    r = ev.eval_fn(ST.methods["get_choices"], ST.module, ST)
    gi = call0(SELF, "get_idx")
    subs = ("attr", SELF, "subtraces")
    okc = is_call(r.ret, "switch") and len(r.ret[2]) == 2 and r.ret[2][0] == gi and r.ret[2][1] == ("fam", subs, choices_of(("elem", subs)))
    obs.add({"C13", "C01", "C17", "C34"}, "TRACE-CHOICES", "SwitchTrace.get_choices", okc, derived=r.ret, expected="ChoiceMap.switch(self.get_idx(), [tr.get_choices() for tr in self.subtraces])", where=W(ST, "get_choices"))
    r = ev.eval_fn(ST.methods["get_inner_trace"], ST.module, ST)
    oki = r.ret == ("call", ("attr", ("index", subs, gi), "get_inner_trace"), (P("address"),), ())
    # ... but `self.subtraces` is a Python LIST: indexing it needs a concrete index.  The trace's index is an array whenever the switch runs under vmap / scan /
    # jit (get_choices / get_score / get_retval of the same trace select with tree_choose and work there): get_subtrace through such a trace raises
    list_indexed = is_mcall(r.ret, "get_inner_trace") and is_t(r.ret[1][1], "index") and r.ret[1][1][1] == ("attr", SELF, "subtraces") and not mentions_any(r.ret, lambda x: is_t(x, "choose") or is_call(x, "tree_choose") or is_call(x, "multi_switch"))
    obs.add({"C34"}, "SUBTRACE", "SwitchTrace.get_inner_trace/traced-index", not list_indexed, construct="Python list of sub-traces indexed by the trace's index",
            derived="self.subtraces[self.get_idx()]: TypeError / TracerIntegerConversionError for a switch trace under vmap, scan or jit", expected="a data-parallel selection of the branch's sub-trace (as get_choices / get_score do), list indexing only for a concrete index", where=W(ST, "get_inner_trace"))
    obs.add({"C34", "C13"}, "SUBTRACE", "SwitchTrace.get_inner_trace", oki, derived=r.ret, expected="self.subtraces[self.get_idx()].get_inner_trace(address)", where=W(ST, "get_inner_trace"))
    for acc, fld in (("get_args", "args"), ("get_retval", "retval"), ("get_score", "score")):
        r = ev.eval_fn(ST.methods[acc], ST.module, ST)
        obs.add({"C01", "C13"}, "TRACE-ACCESSOR", f"SwitchTrace.{acc}", r.ret == ("attr", SELF, fld), derived=r.ret, expected=f"self.{fld}", where=W(ST, acc))

    ARGS = P("args")
    RAW = mk_proj(ARGS, 0)
    BARGS = mk_slice(ARGS, 1, None)
    eb, ea = ("elem", BR), ("elem", BARGS)

    def fam_body(t):
        """body of the branch family inside a multi_switch"""
        ms = [x for x in subterms(t) if is_t(x, "mswitch")]
        ms = list(dict.fromkeys(ms))
        return ms

    # ---------------------------------------------------------------- simulate
    ev = E()
    r = ev.eval_fn(S.methods["simulate"], S.module, S)
    w = W(S, "simulate")
    f = ctor_fields(prog, r.ret, "SwitchTrace", "Switch.simulate")
    idx = idx_consist("Switch.simulate", r.ret, RAW, {"C01", "C04"}, w)
    ms = fam_body(r.ret)
    body = ("call", ("attr", eb, "simulate"), (P("key"), ea), ())
    okf = len(ms) == 1 and is_t(ms[0][2], "fam") and ms[0][2][2] == body
    obs.add({"C13", "C04"}, "BRANCH-FAMILY", "Switch.simulate/family", okf, derived=ms[0][2] if ms else "none", expected="branch i runs f_i.simulate(key, args_i) with branches and argument tuples zipped in order", where=w)
    obs.add({"C01", "C13"}, "TRACE-ARGS", "Switch.simulate", f.get("args") == ARGS, derived=f.get("args"), expected="args (as given, index unclamped)", where=w)
    if idx is not None and okf:
        res = ("mselem", idx, body)
        fam_it = ms[0][2][1]
        okr = f.get("retval") == ("choose", idx, ("fam", ms[0], retval_of(res))) or (is_t(f.get("retval"), "choose") and is_t(f.get("retval")[2], "fam") and f.get("retval")[2][2] == retval_of(res))
        oks = is_t(f.get("score"), "choose") and is_t(f.get("score")[2], "fam") and f.get("score")[2][2] == score_of(res)
        obs.add({"C01", "C13"}, "TRACE-RETVAL", "Switch.simulate/retval", okr, derived=f.get("retval"), expected="choose(idx, [tr_i.get_retval()])", where=w)
        obs.add({"C01", "C02", "C13"}, "SCORE-AGG", "Switch.simulate/score", oks, derived=f.get("score"), expected="choose(idx, [tr_i.get_score()]) - the executed branch's score once", where=w)
        obs.add({"C01", "C13"}, "TRACE-INNER", "Switch.simulate/subtraces", f.get("subtraces") == ms[0], derived=f.get("subtraces"), expected="the multi_switch results (placeholders for the other branches)", where=w)

    # ---------------------------------------------------------------- generate
    ev = E()
    r = ev.eval_fn(S.methods["generate"], S.module, S)
    w = W(S, "generate")
    pair = tuple_n(r.ret, 2, "Switch.generate")
    f = ctor_fields(prog, pair[0], "SwitchTrace", "Switch.generate")
    idx = idx_consist("Switch.generate", r.ret, RAW, {"C03"}, w)
    ms = fam_body(r.ret)
    body = ("call", ("attr", eb, "generate"), (P("key"), P("constraint"), ea), ())
    okf = len(ms) == 1 and is_t(ms[0][2], "fam") and ms[0][2][2] == body
    obs.add({"C13", "C03"}, "BRANCH-FAMILY", "Switch.generate/family", okf, derived=ms[0][2] if ms else "none", expected="branch i runs f_i.generate(key, constraint, args_i)", where=w)
    obs.add({"C01", "C13", "C03"}, "TRACE-ARGS", "Switch.generate", f.get("args") == ARGS, derived=f.get("args"), expected="args", where=w)
    if idx is not None and okf:
        res = ("mselem", idx, body)
        trb = mk_proj(res, 0)
        okw = is_t(pair[1], "choose") and is_t(pair[1][2], "fam") and pair[1][2][2] == mk_proj(res, 1)
        obs.add({"C03", "C13"}, "WEIGHT-GEN", "Switch.generate/weight", okw, derived=pair[1], expected="choose(idx, [w_i])", where=w)
        oks = is_t(f.get("score"), "choose") and f.get("score")[2][2] == score_of(trb)
        okr = is_t(f.get("retval"), "choose") and f.get("retval")[2][2] == retval_of(trb)
        obs.add({"C03", "C13", "C01"}, "SCORE-AGG", "Switch.generate/score", oks and okr, derived=f.get("score"), expected="choose(idx, [tr_i.get_score()]) / retval likewise", where=w)
        okst = is_t(f.get("subtraces"), "fam") and f.get("subtraces")[2] == trb
        obs.add({"C13", "C01"}, "TRACE-INNER", "Switch.generate/subtraces", okst, derived=f.get("subtraces"), expected="[tr_i for (tr_i, w_i) in results]", where=w)

    # ---------------------------------------------------------------- assess
    ev = E()
    r = ev.eval_fn(S.methods["assess"], S.module, S)
    w = W(S, "assess")
    idx = idx_consist("Switch.assess", r.ret, RAW, {"C01", "C02"}, w)
    ms = fam_body(r.ret)
    body = ("call", ("attr", eb, "assess"), (P("sample"), ea), ())
    okf = len(ms) == 1 and is_t(ms[0][2], "fam") and ms[0][2][2] == body
    obs.add({"C13", "C01"}, "BRANCH-FAMILY", "Switch.assess/family", okf, derived=ms[0][2] if ms else "none", expected="branch i runs f_i.assess(sample, args_i)", where=w)
    okc = is_t(r.ret, "choose") and (r.ret[2] == ms[0] if ms else False)
    obs.add({"C13", "C01", "C02"}, "ASSESS-AGREE", "Switch.assess/choose", okc, derived=show(r.ret)[:200], expected="choose(idx, multi_switch(idx, ...)) - score and retval of the executed branch", where=w)
    # BRANCH-EFFECT: multi_switch evaluates the shape of EVERY branch; a per-branch callee that raises at trace time under a condition
    # on an operand shared by all branches makes the non-running branches constrain the input
    H = prog.cls("AssessHandler", "generative_functions/static.py")
    evh = Evaluator(prog)
    rh = evh.eval_fn(H.methods["handle_trace"], H.module, H)
    raising = [(c, x) for c, x in rh.raises if any(mentions(t, ("attr", SELF, "choice_map_sample")) for t, p in c)]
    shared = okf and body[2][0] == P("sample")
    obs.add({"C13"}, "BRANCH-EFFECT", "Switch.assess", not (shared and raising), construct="MissingAddress",
            derived=f"every branch's assess receives the same unfiltered `sample`; the static language's assess raises {[show(x) for c, x in raising]} at trace time when `sample` lacks one of ITS addresses; multi_switch traces every branch",
            expected="assessing branch k must not need values for the addresses of branches that do not run", where=w)

    # ---------------------------------------------------------------- project
    ev = E()
    r = ev.eval_fn(S.methods["project"], S.module, S)
    w = W(S, "project")
    gi = call0(P("trace"), "get_idx")
    cons = consumers(r.ret)
    idxs = {i for _, i in cons}
    obs.add({"C10", "C13"}, "IDX-CONSIST", "Switch.project", idxs == {gi} and len(cons) >= 2, construct="index used by project",
            derived=f"{sorted({k for k, _ in cons})} consume {[show(i)[:80] for i in idxs]}", expected="trace.get_idx() (the clamped index) for both multi_switch and tree_choose", where=w)
    ms = fam_body(r.ret)
    tsub = ("attr", P("trace"), "subtraces")
    body = ("call", ("attr", eb, "project"), (P("key"), ("elem", tsub), P("selection")), ())
    okf = len(ms) == 1 and is_t(ms[0][2], "fam") and ms[0][2][2] == body and is_t(r.ret, "choose") and r.ret[2] == ms[0]
    obs.add({"C10", "C13"}, "WEIGHT-PROJ", "Switch.project/family", okf, derived=show(r.ret)[:300], expected="choose(idx, multi_switch(idx, [f_i.project(key, subtrace_i, selection)]))", where=w)

    # ---------------------------------------------------------------- edit
    ev = E()
    r = ev.eval_fn(S.methods["edit"], S.module, S)
    w = W(S, "edit")
    q = tuple_n(r.ret, 4, "Switch.edit")
    AD = P("argdiffs")
    PR = dcall("tree_primal", AD)
    RAWN = mk_proj(PR, 0)
    f = ctor_fields(prog, q[0], "SwitchTrace", "Switch.edit")
    idx = idx_consist("Switch.edit", ("tuple", (q[0], q[1], q[2])), RAWN, {"C05"}, w)
    obs.add({"C01", "C05", "C13"}, "TRACE-ARGS", "Switch.edit", f.get("args") == PR, derived=f.get("args"), expected="Diff.tree_primal(argdiffs)", where=w)
    tang = dcall("tree_tangent", mk_proj(AD, 0))
    NOC = G("genjax._src.core.compiler.interpreters.incremental.NoChange")
    UNK = G("genjax._src.core.compiler.interpreters.incremental.UnknownChange")
    ms = fam_body(("tuple", (q[0], q[1], q[2])))
    bad = mk_slice(AD, 1, None)
    same_body = ("call", ("attr", eb, "edit"), (P("key"), ("elem", tsub), P("edit_request"), ("elem", bad)), ())
    fresh_tr = ("call", ("attr", eb, "simulate"), (P("key"), dcall("tree_primal", ("elem", bad))), ())
    fresh_edit = ("call", ("attr", eb, "edit"), (P("key"), fresh_tr, P("edit_request"), dcall("no_change", ("elem", bad))), ())
    bodies = [m[2][2] for m in ms if is_t(m[2], "fam")]
    obs.add({"C05", "C13"}, "BRANCH-FAMILY", "Switch.edit/same-index", same_body in bodies, derived=[show(b)[:200] for b in bodies], expected="index unchanged: f_i.edit(key, subtrace_i, request, argdiffs_i)", where=w)
    # The index's TAG being UnknownChange does not mean its VALUE changed (scan tags every kernel argument UnknownChange): the branch edit must start from the
    # existing subtrace when clamp(new index) == trace.get_idx() and from a fresh simulation otherwise - a value test, leaf-wise selection - and since the kept
    # subtrace's arguments may have changed, the argdiffs handed to the branch are the given ones or unknown_change(primals), never no_change.
    okfresh, why = False, "no per-branch body of the expected shape"
    for b in bodies:
        if not (is_t(b, "tuple") and len(b[1]) == 4 and all(is_t(x, "proj") for x in (b[1][0], b[1][1], b[1][3])) and b[1][0][1] == b[1][1][1] == b[1][3][1]):
            continue
        e_ = b[1][0][1]
        if not (is_mcall(e_, "edit") and e_[1][1] == eb and len(e_[2]) == 4 and e_[2][0] == P("key") and e_[2][2] == P("edit_request")):
            continue
        start, ad_ = e_[2][1], e_[2][3]
        if start == ("elem", tsub):
            continue  # the same-index body
        gate_ok = is_t(start, "treemap") and is_t(start[1], "where") and start[2] == (("elem", tsub), fresh_tr) and start[1][2:] == (("leaf", ("elem", tsub)), ("leaf", fresh_tr))
        if gate_ok:
            g_ = start[1][1]
            gate_ok = is_t(g_, "cmp") and g_[1] == "==" and {g_[2], g_[3]} >= {call0(P("trace"), "get_idx")} and any(normalised(x, RAWN) for x in (g_[2], g_[3]))
        ad_ok = ad_ in (("elem", bad), dcall("unknown_change", dcall("tree_primal", ("elem", bad))), dcall("unknown_change", ("elem", bad)))
        okfresh = bool(gate_ok and ad_ok)
        why = f"start trace {'is gated by value' if gate_ok else 'is NOT where(clamp(new idx) == trace.get_idx(), old subtrace, fresh)'}: {show(start)[:200]}; branch argdiffs {show(ad_)[:80]} {'ok' if ad_ok else 'must not be no_change (the kept subtrace may have other arguments)'}"
        break
    obs.add({"C05", "C13", "C08"}, "BRANCH-FAMILY", "Switch.edit/changed-index", okfresh, construct="index tagged UnknownChange", derived=why,
            expected="f_i.edit(key, where(clamp(new idx) == trace.get_idx(), subtrace_i, f_i.simulate(key, primals_i)), request, unknown_change(primals_i)): an UnknownChange index with the SAME value keeps the existing choices", where=w)
    # weight on index change: new score - old score (no double counting of the fresh branch)
    wt = q[1]
    okw = False
    der = wt
    if is_t(wt, "phi") and wt[1] == mk_cmp("==", tang, UNK):
        form = lin(wt[2])
        old = score_of(P("trace"))
        want = dict(lin(f.get("score")))
        want[frozenset([old])] = want.get(frozenset([old]), 0) - 1
        okw = form == want and len(lin(f.get("score"))) == 1
        der = f"index changed: {show_lin(form)[:300]}"
    obs.add({"C05", "C13"}, "WEIGHT-UPD", "Switch.edit/index-changed-weight", okw, construct="weight when the index changes", derived=der,
            expected="new score - old score  (the fresh branch's own edit weight must not be added on top: with a constraint covering the new branch no random choice is introduced)", where=w)
    # The Python-level test on the index TAG (NoChange or not) picks the branch functions: every obligation on the chosen results is decided once per outcome
    # of that test, on the result with the joins on it collapsed - however the source spells the join (two switches, one comprehension over a conditional, ...)
    # (the tests are found in the result: joins whose two arms are built from different switches)
    has_ms = lambda t_: any(is_t(x_, "mswitch") for x_ in subterms(t_))
    sw_tests = list(dict.fromkeys(x_[1] for x_ in subterms(("tuple", tuple(q))) if is_t(x_, "phi") and has_ms(x_[2]) and has_ms(x_[3]) and not has_ms(x_[1])))[:3]

    def _under(t_, asg):
        for c_, pol_ in asg:
            t_ = resolve(t_, c_, pol_)
        return renorm(t_)

    import itertools as _it
    scen = [(asg, tuple(_under(x, asg) for x in q), {k_: _under(v_, asg) for k_, v_ in f.items()})
            for asg in ([tuple(zip(sw_tests, pols)) for pols in _it.product((True, False), repeat=len(sw_tests))] or [()])]
    # a test under which the index certainly has its old value: its tag is NoChange, or no argument at all changed
    keeps_index = lambda c_: c_ == mk_cmp("==", tang, NOC) or (is_call(c_, "static_check_no_change") and c_[2] in ((AD,), (mk_proj(AD, 0),)))
    if is_t(wt, "phi"):
        okw0 = all(is_t(_under(wt[3], asg), "choose") for asg, _q, _f in scen)
        obs.add({"C05", "C13"}, "WEIGHT-UPD", "Switch.edit/same-index-weight", okw0, derived=show(wt[3])[:200], expected="choose(idx, [w_i])", where=w)
    # tree_choose needs the per-branch retdiffs to have ONE tree structure, and change tags are static structure: a constraint that reaches the return value of
    # one branch only (branches with distinct addresses - the documented use) makes the tags differ.  Every raw branch retdiff handed to the choice must therefore
    # be either re-tagged uniformly (unknown_change / no_change of the primal) or guarded by "all branches report NoChange".
    def _leaves(t, conds=()):
        if is_t(t, "phi"):
            return _leaves(t[2], conds + ((t[1], True),)) + _leaves(t[3], conds + ((t[1], False),))
        return [(conds, t)]

    def _all_nochange_guard(conds):
        for c, pol in conds:
            neg = is_t(c, "un") and c[1] == "not"
            core = c[2] if neg else c
            if is_call(core, "all") and mentions_any(core, lambda x: is_call(x, "static_check_no_change")) and (pol != neg):
                return True
        return False

    raw_bad = []
    for pol_, qs_, _fs in scen:
      if is_t(qs_[2], "choose") and is_t(qs_[2][2], "fam"):
        for conds, leaf in _leaves(qs_[2][2][2]):
            retagged = is_call(leaf, "unknown_change") or is_call(leaf, "no_change") or is_call(leaf, "tree_diff")
            if not retagged and not _all_nochange_guard(conds):
                raw_bad.append(show(leaf)[:120])
            # provenance: what is chosen between is the branches' own return-value diff (component 2 of the branch edit), possibly re-tagged
            if not mentions_any(leaf, lambda x: is_t(x, "proj") and x[2] == 2 and mentions_any(x[1], lambda y: is_mcall(y, "edit"))):
                raw_bad.append("not a branch retdiff: " + show(leaf)[:100])
    obs.add({"C13", "C05", "C08"}, "BRANCH-TAG-JOIN", "Switch.edit/retdiff-tags", all(is_t(qs_[2], "choose") and is_t(qs_[2][2], "fam") for _, qs_, _f in scen) and not raw_bad, construct="per-branch retdiffs chosen by index",
            derived=f"raw branch retdiff(s) reach tree_choose with branch-dependent tags: {raw_bad[:2]}" if raw_bad else "uniformly tagged or guarded",
            expected="retdiffs re-tagged uniformly (Diff.unknown_change(Diff.tree_primal(rd))) unless every branch reports NoChange", where=w)
    oks = all(is_t(fs_.get("score"), "choose") and is_t(qs_[2], "choose") and fs_.get("retval") == dcall("tree_primal", qs_[2]) for _, qs_, fs_ in scen)
    obs.add({"C05", "C13", "C01"}, "SCORE-AGG", "Switch.edit/score", oks, derived=show(f.get("retval"))[:200], expected="score / retdiff chosen by the new index; retval = primal(retdiff)", where=w)
    okst = all(is_t(fs_.get("subtraces"), "fam") and is_t(fs_["subtraces"][1], "mswitch") and fs_["subtraces"][2] == mk_proj(mk_elem(fs_["subtraces"][1]), 0) for _, _q, fs_ in scen)
    obs.add({"C05", "C13", "C01"}, "TRACE-INNER", "Switch.edit/subtraces", okst, derived=show(f.get("subtraces"))[:200], expected="[t[0] for t in rets]: the per-branch result traces", where=w)
    # backward request: choices of the branch selected by the OLD index - the executed branch's own discard when the index (by value) did not change, ALL the
    # choices of the branch that was left when it did (going back re-creates that branch and constrains every choice); never a fixed branch's request
    bwd = q[3]
    const_sub = [x for x in subterms(bwd) if is_t(x, "proj") and (is_t(x[1], "mswitch") or is_t(x[1], "fam"))]
    old_idx = call0(P("trace"), "get_idx")
    okb_, derb_ = False, show(bwd)[:200]
    if is_t(bwd, "ctor") and bwd[1] == "Update" and len(bwd[2]) == 1 and is_call(bwd[2][0], "switch") and len(bwd[2][0][2]) == 2 and bwd[2][0][2][0] == old_idx:
        lst_ = bwd[2][0][2][1]
        # the per-branch list: a comprehension / append-filled list over the branches (one entry per branch, in branch order)
        item_ = lst_[2] if is_t(lst_, "fam") else None
        if item_ is None:
            apps = [e_ for e_ in r.env.get("__effects__", []) if is_mcall(e_, "append") and e_[1][1] == lst_ and len(e_[2]) == 1]
            item_ = apps[0][2][0] if len(apps) == 1 else None
        if item_ is not None:
            derb_ = f"per branch: {show(item_)[:260]}"
            same_val = lambda t: is_t(t, "cmp") and t[1] == "==" and old_idx in (t[2], t[3]) and any(normalised(x, RAWN) for x in (t[2], t[3]))
            oks_ = []
            # decided once per outcome of the Python-level tests (the flag is the literal True only where the index certainly kept its value)
            for asg, _qs, _fs in scen:
                it_ = _under(item_, asg)
                ok1 = False
                if is_t(it_, "bin") and it_[1] == "|" and is_mcall(it_[2], "mask") and is_mcall(it_[3], "mask") and len(it_[2][2]) == 1 and len(it_[3][2]) == 1:
                    A_, B_ = it_[2], it_[3]
                    fa, fb = A_[2][0], B_[2][0]
                    keeps = any(pol_ and keeps_index(c_) for c_, pol_ in asg)
                    flag_ok = same_val(fa) or (fa == C(True) and keeps) or (is_t(fa, "phi") and keeps_index(fa[1]) and fa[2] == C(True) and same_val(fa[3]))
                    neg_ok = (is_call(fb, "not_") and fb[2] == (fa,)) or fb == ("un", "not", fa) or fb == ("un", "~", fa) or (fa == C(True) and fb == C(False))
                    own_discard = mentions_any(A_[1], lambda x: is_t(x, "attr") and x[2] == "constraint" and mentions_any(x[1], lambda y: is_t(y, "proj") and y[2] == 3))
                    old_choices = B_[1][1] == choices_of(("elem", tsub))
                    ok1 = bool(flag_ok and neg_ok and own_discard and old_choices)
                oks_.append(ok1)
            okb_ = bool(oks_) and all(oks_)
    cs = f"rets[{const_sub[0][2]}][3]" if const_sub and not okb_ else "backward request of Switch.edit"
    obs.add({"C06", "C13"}, "BWD-SELECT", "Switch.edit", okb_, construct=cs, derived=derb_,
            expected="Update(ChoiceMap.switch(trace.get_idx(), [bwd_i.constraint.mask(same) | old_subtrace_i.get_choices().mask(not same)])) with same = (clamp(new idx) == trace.get_idx())", where=w)
    asr = [t for c, t in r.asserts]
    obs.add({"C06"}, "REQ-ACCEPT", "Switch.edit", any(is_t(t, "isinst") and t[1] == P("edit_request") and t[2] == "Update" for t in asr), derived=[show(t) for t in asr], expected="assert isinstance(edit_request, Update)", where=w)
    # the plain per-branch edit of the EXISTING subtraces (no value gate, no fresh simulation) is only right when the index certainly kept its value:
    # every outcome of the Python-level tests that uses it must have established that (index tag NoChange, or no argument changed at all)
    ungated = []
    for asg, qs_, _fs in scen:
        used = [m_[2][2] for m_ in fam_body(("tuple", qs_[:3])) if is_t(m_[2], "fam")]
        if same_body in used and not any(pol_ and keeps_index(c_) for c_, pol_ in asg):
            ungated.append(", ".join(("" if pol_ else "not ") + show(c_)[:70] for c_, pol_ in asg) or "unconditionally")
    obs.add({"C08", "C13"}, "TAG-BRANCH-INVENTORY", "Switch.edit/index-tag", not ungated and bool(sw_tests), construct="condition under which the existing subtraces are edited in place",
            derived=f"plain branch edits used when: {ungated}" if ungated else f"plain branch edits only under {[show(c_)[:70] for c_ in sw_tests if keeps_index(c_)]}",
            expected="in-place edits only when the index tag is NoChange (or nothing changed); otherwise the value-gated fresh-branch family", where=w)
    obs.note({"C04"}, "Switch._make_edit_fresh_trace reuses one key for simulate and the following edit (edit path; outside C04's statement)")

    # ---------------------------------------------------------------- switch() / or_else / mix
    m, sf = prog.func("switch", MOD)
    r = Evaluator(prog).eval_fn(sf, m)
    obs.add({"C13"}, "COMPOSE", "switch()", r.ret == ("ctor", "Switch", (P("gen_fns"),), ()), derived=r.ret, expected="Switch(gen_fns) - branches in the order given", where=f"{m.rel}:{sf.lineno}")
    m, of = prog.func("or_else", "combinators/or_else.py")
    ev = Evaluator(prog)
    r = ev.eval_fn(of, m)
    w = f"{m.rel}:{of.lineno}"
    t = r.ret
    okc = is_mcall(t, "contramap") and is_mcall(t[1][1], "switch") and t[1][1][1][1] == P("if_gen_fn") and t[1][1][2] == (P("else_gen_fn"),)
    obs.add({"C13"}, "COMPOSE", "or_else/chain", okc, derived=show(t)[:200], expected="if_gen_fn.switch(else_gen_fn).contramap(argument_mapping): if-branch is branch 0", where=w)
    if okc:
        am = ev.apply(t[2][0], [P("b"), P("if_args"), P("else_args")], module=m)
        oka = is_t(am, "tuple") and len(am[1]) == 3 and am[1][1:] == (P("if_args"), P("else_args"))
        if oka:
            try:
                oka = all(int(ev_int(am[1][0], {P("b"): b})) == (0 if b else 1) for b in (True, False))
            except (Unrecognised, Exception):
                oka = False
        obs.add({"C13"}, "COMPOSE", "or_else/index", oka, derived=am, expected="(int(not b), if_args, else_args): True -> branch 0 (if), False -> branch 1 (else)", where=w)
    gf = prog.cls("GenerativeFunction", "core/generative/generative_function.py")
    evg = Evaluator(prog)
    r = evg.eval_fn(gf.methods["switch"], gf.module, gf)
    obs.add({"C13"}, "COMPOSE", "GenerativeFunction.switch", is_t(r.ret, "call") and r.ret[2] == (SELF, ("star", P("branches"))), derived=r.ret, expected="genjax.switch(self, *branches): self is branch 0", where=f"{gf.module.rel}:{gf.methods['switch'].lineno}")
    r = evg.eval_fn(gf.methods["or_else"], gf.module, gf)
    obs.add({"C13"}, "COMPOSE", "GenerativeFunction.or_else", is_t(r.ret, "call") and r.ret[2] == (SELF, P("gen_fn")), derived=r.ret, expected="genjax.or_else(self, gen_fn)", where=f"{gf.module.rel}:{gf.methods['or_else'].lineno}")
    m, mf = prog.func("mix", "combinators/mixture.py")
    ev = Evaluator(prog)
    r = ev.eval_fn(mf, m)
    w = f"{m.rel}:{mf.lineno}"
    inner = prog.nested(mf, "mixture_model")
    okg = is_call(r.ret, "gen") and ev.closure_of(r.ret[2][0]) is not None and ev.closure_of(r.ret[2][0]).node is inner
    obs.add({"C13"}, "COMPOSE", "mix/gen", okg, derived=r.ret, expected="gen(mixture_model)", where=w)
    if okg:
        mm = ev.apply(r.ret[2][0], [P("mixture_logits"), ("star", P("$a"))], module=m)
        sw = ("call", G(m.dotted.rsplit(".", 1)[0] + ".switch.switch"), (("star", P("gen_fns")),), ())
        okm = is_t(mm, "bin") and mm[1] == "@" and mm[3] == C("component_sample") and is_t(mm[2], "call") and len(mm[2][2]) == 2 and is_t(mm[2][2][0], "bin") and mm[2][2][0][1] == "@" \
            and mm[2][2][0][3] == C("mixture_component") and is_call(mm[2][2][0][2], "categorical") and dict(mm[2][2][0][2][3]).get("logits") == P("mixture_logits") \
            and mm[2][2][1] == ("star", P("$a")) and is_call(mm[2][1], "switch") and mm[2][1][2] == (("star", P("gen_fns")),)
        obs.add({"C13", "C02"}, "COMPOSE", "mix/model", okm, derived=mm, expected='switch(*gen_fns)(categorical(logits=mixture_logits) @ "mixture_component", *args) @ "component_sample"  (score = categorical log-prob + component score by the static language)', where=w)
