"""Static language (StaticGenerativeFunction, its six handlers, StaticTrace)."""

from __future__ import annotations

import ast

from ..linform import lin, show_lin
from ..program import AnalysisError
from ..rules import calls, is_call, is_mcall, mcalls, mentions, mentions_any
from ..finite import Unrecognised, ev_int
from ..terms import C, Evaluator, G, P, is_t, mk_elem, mk_proj, show, subterms, mk_cmp, mk_phi
from .common import Obs, arms_of, call0, choices_of, cond_has, ctor_fields, is_zero, retval_of, score_of, tuple_n

MOD = "generative_functions/static.py"
SELF = P("self")
ADDR, GEN, ARGS = P("addr"), P("gen_fn"), P("args")


def sattr(n):
    return ("attr", SELF, n)


# handler -> (callee kind, weight field, properties)
HANDLERS = {
    "SimulateHandler": dict(kind="simulate"),
    "AssessHandler": dict(kind="assess"),
    "GenerateHandler": dict(kind="generate"),
    "UpdateHandler": dict(kind="update"),
    "StaticEditRequestHandler": dict(kind="static_request"),
    "RegenerateRequestHandler": dict(kind="regenerate"),
}


def _flat_conds(conds):
    """path conditions with conjunctions flattened: [(term, polarity)]"""
    out = []
    for t, pol in conds:
        if pol and is_t(t, "bool") and t[1] == "and":
            out += [(x, True) for x in t[2]]
        else:
            out.append((t, pol))
    return out


def linear_events(prog, ci, fn, depth=0):
    """the calls / raises of a loop-free method in evaluation order (source order), with calls to the class's own methods expanded in place: the order of
    two events does not depend on which of them were moved into helper methods.  -> [ast node]"""
    nodes = [n for n in ast.walk(fn) if isinstance(n, (ast.Call, ast.Raise)) and hasattr(n, "lineno")]
    nodes.sort(key=lambda n: (n.lineno, n.col_offset))
    out = []
    for n in nodes:
        if isinstance(n, ast.Call) and isinstance(n.func, ast.Attribute) and isinstance(n.func.value, ast.Name) and n.func.value.id == "self" and depth < 3:
            hit = prog.find_method(ci, n.func.attr)
            if hit is not None and hit[1] is not fn:
                out.append(n)
                out.extend(linear_events(prog, hit[0], hit[1], depth + 1))
                continue
        out.append(n)
    return out


def analyse(obs: Obs, prog):
    m = prog.module(MOD)
    W = lambda c, meth: f"{c.module.rel}:{c.methods[meth].lineno}"
    SH = prog.cls("StaticHandler", MOD)
    # ---------------------------------------------------------------- record: test before write
    ev = Evaluator(prog)
    r = ev.eval_fn(SH.methods["record"], SH.module, SH)
    tr_key = "self.traces"
    wrote = r.env.get(tr_key)
    okw = is_t(wrote, "setitem") and wrote[2] == P("addr") and wrote[3] == P("trace")
    # Addresses are hierarchical ("x", ("x",) and everything below "x" are one sub-tree): "the same address twice" must be judged on normalised PATHS, by a
    # prefix test against everything visited so far - a raw `addr in self.traces` misses "x" vs ("x", "y") (double-counted score, later a crash in get_choices).
    # The test lives in a helper (found by what it does) that record calls BEFORE writing, and that the assess handler calls as well (assess never records).
    # Decided on the derived terms: the guard of `raise AddressReuse` is evaluated (E4, finite) for every pair of a small domain of visited paths and addresses
    # and must be exactly the prefix relation on normalised paths, however it is spelled (min-length slices, sorted by length, any(...) over a helper, ...).
    _PATHS = [("a",), ("b",), ("a", "b"), ("a", "c"), ("b", "a"), ("a", "b", "c")]
    _ADDRS = _PATHS + ["a", "b"]

    def _reuse_test(res):
        """-> (ok, text) for the AddressReuse raise(s) of an evaluated method; ok None when there is no such raise"""
        hits = [(c, x) for c, x in res.raises if (is_t(x, "ctor") and x[1] == "AddressReuse") or is_call(x, "AddressReuse")]
        if not hits:
            return None, "no raise AddressReuse"
        if len(hits) != 1:
            return False, f"{len(hits)} AddressReuse raises"
        conds, _exc = hits[0]
        it, pred = None, []
        for c, pol in conds:
            if is_t(c, "iter") and pol and it is None:
                it = c[1]
            elif is_t(c, "call") and c[1] == G("any") and pol and len(c[2]) == 1 and is_t(c[2][0], "fam") and it is None and not is_t(c[2][0][1], "tuple"):
                it, pred = c[2][0][1], pred + [(c[2][0][2], True)]
            else:
                pred.append((c, pol))
        if it is None or not pred:
            return False, "the raise is not guarded by a test against every path visited so far"
        marks = [e for e in res.env.get("__effects__", []) if is_t(e, "call") and is_t(e[1], "attr") and e[1][2] in ("append", "add") and e[1][1] == it and len(e[2]) == 1]
        if len(marks) != 1:
            return False, f"{show(it)} is tested but the visited path is not remembered in it"
        norm = lambda a_: a_ if isinstance(a_, tuple) else (a_,)
        bad = []
        try:
            for addr in _ADDRS:
                env_ = {P("addr"): addr}
                if ev_int(marks[0][2][0], env_) != norm(addr):
                    bad.append(f"addr={addr!r}: remembers {ev_int(marks[0][2][0], env_)!r}, not the normalised path")
                for seen in _PATHS:
                    env_ = {P("addr"): addr, mk_elem(it): seen}
                    got = all(bool(ev_int(c, env_)) == pol for c, pol in pred)
                    k = min(len(seen), len(norm(addr)))
                    if got != (seen[:k] == norm(addr)[:k]):
                        bad.append(f"visited {seen!r}, addr {addr!r}: raises={got}")
        except Unrecognised as e:
            raise AnalysisError(f"address-reuse test: unrecognised predicate form {e}")
        except (TypeError, IndexError) as e:
            return False, f"the test is ill-typed on paths: {e}"
        return (not bad), ("; ".join(bad[:3]) if bad else f"prefix relation on normalised paths ({len(_ADDRS) * len(_PATHS)} pairs evaluated), path remembered in {show(it)}")

    okr, txt_r = _reuse_test(r)
    okr = bool(okr)
    # helpers that perform the test (by what they do): used for the statement-order obligations
    visit_helpers = []
    for hn, hf in SH.methods.items():
        if hn == "record" or not any(isinstance(x, ast.Raise) for x in ast.walk(hf)):
            continue
        try:
            if _reuse_test(Evaluator(prog).eval_fn(hf, SH.module, SH))[0]:
                visit_helpers.append(hn)
        except AnalysisError:
            pass
    body = SH.methods["record"].body
    def _calls_helper(st):
        return any(isinstance(x, ast.Call) and isinstance(x.func, ast.Attribute) and x.func.attr in visit_helpers and ast.unparse(x.func.value) == "self" for x in ast.walk(st))
    idx_if = next((i for i, s_ in enumerate(body) if _calls_helper(s_) or any(isinstance(x, ast.Raise) and "AddressReuse" in ast.unparse(x) for x in ast.walk(s_))), None)
    idx_w = next((i for i, s_ in enumerate(body) if isinstance(s_, ast.Assign) and isinstance(s_.targets[0], ast.Subscript)), None)
    obs.add({"C22"}, "ADDR-UNIQUE", "StaticHandler.record/raise", okr, construct="address-reuse test", derived=txt_r,
            expected="raise AddressReuse(addr) iff the normalised path of addr is a prefix of / has as a prefix / equals a path visited before", where=W(SH, "record"))
    obs.add({"C22", "C01"}, "ADDR-UNIQUE", "StaticHandler.record/write", okw, derived=wrote, expected="self.traces[addr] = trace", where=W(SH, "record"))
    obs.add({"C22"}, "ADDR-UNIQUE", "StaticHandler.record/order", idx_if is not None and idx_w is not None and idx_if < idx_w, derived=f"test@{idx_if} write@{idx_w}", expected="test before write", where=W(SH, "record"))

    # every write of the handlers' trace table goes through record (the only place the reuse test runs): no `self.traces[...] = ...` anywhere else
    direct = []
    for hn_ in list(HANDLERS) + ["StaticHandler"]:
        Hc = prog.cls(hn_, MOD)
        for mn_, mf_ in Hc.methods.items():
            if hn_ == "StaticHandler" and mn_ == "record":
                continue
            writes_ = []
            for n_ in ast.walk(mf_):
                tg = n_.targets if isinstance(n_, ast.Assign) else ([n_.target] if isinstance(n_, (ast.AugAssign, ast.AnnAssign)) else [])
                for t_ in tg:
                    if isinstance(t_, ast.Subscript) and ast.unparse(t_.value) == "self.traces":
                        writes_.append(n_)
            if writes_:
                # `record` spelled out in a handler is as good as calling it: the same reuse test (decided on the evaluated method, as for record) must be
                # evaluated before the store, on the address that is stored
                try:
                    okd_, _txt = _reuse_test(Evaluator(prog).eval_fn(mf_, Hc.module, Hc))
                except AnalysisError:
                    okd_ = False
                pos_v = min(((x.lineno, x.col_offset) for x in ast.walk(mf_) if (isinstance(x, ast.Call) and isinstance(x.func, ast.Attribute) and x.func.attr in visit_helpers
                             and ast.unparse(x.func.value) == "self") or (isinstance(x, ast.Raise) and "AddressReuse" in ast.unparse(x))), default=None)
                for n_ in writes_:
                    key_ok = ast.unparse(n_.targets[0].slice) == "addr" if isinstance(n_, ast.Assign) else False
                    if not (okd_ and key_ok and pos_v is not None and pos_v < (n_.lineno, n_.col_offset)):
                        direct.append(f"{hn_}.{mn_}:{n_.lineno}")
    obs.add({"C22", "C01"}, "RECORD-ONCE", "handlers/direct-trace-writes", not direct, construct="writes of self.traces outside StaticHandler.record that are not preceded by the reuse test", derived=str(direct) if direct else "none",
            expected="sub-traces are stored by self.record(addr, tr) only, so a second visit of an address always reaches the AddressReuse test", where=W(SH, "record"))
    n_handlers = 0
    ys_index = {}
    for hname, spec in HANDLERS.items():
        H = prog.cls(hname, MOD)
        kind = spec["kind"]
        n_handlers += 1
        ev = Evaluator(prog)
        if kind != "simulate" and "__init__" in H.methods:
            # the accumulator rules below speak about the handler's running total `self.weight` / `self.score`.  A handler that keeps its state differently
            # (e.g. a list of per-site weights summed in yield_state) is a representation these rules cannot read: no verdict (exit 2), not a violation
            acc_ = "score" if kind == "assess" else "weight"
            if f"self.{acc_}" not in Evaluator(prog).eval_fn(H.methods["__init__"], H.module, H).env:
                raise AnalysisError(f"{hname}: no running total self.{acc_} is set up in __init__ - unrecognised handler state representation")
        r = ev.eval_fn(H.methods["handle_trace"], H.module, H)
        w = W(H, "handle_trace")
        inst = f"{hname}.handle_trace"
        env = r.env
        ret = r.ret
        everything = ("tuple", tuple(x for x in [ret, env.get("self.traces"), env.get("self.weight"), env.get("self.score")] + list(env.get("__effects__", [])) if isinstance(x, tuple)))
        # ---- yield_state layout (needed later even when this handler's obligations fail)
        ys = ev.eval_fn(H.methods["yield_state"], H.module, H)
        lay = {}
        items = ys.ret[1] if is_t(ys.ret, "tuple") else [ys.ret]
        for i, t in enumerate(items):
            if is_t(t, "attr") and t[1] == SELF:
                lay[t[2]] = i
        ys_index[hname] = (lay, is_t(ys.ret, "tuple"))
        # ---- key discipline
        if kind != "assess":
            keyt = ("call", G("jax.random.fold_in"), (sattr("key"), sattr("key_counter")), ())
            cnt = env.get("self.key_counter")
            okc = cnt == ("bin", "+", sattr("key_counter"), C(1))
            obs.add({"C04"}, "KEY-COUNTER", inst + "/counter", okc, derived=cnt, expected="key_counter incremented by 1 after each fresh key", where=w)
            # the handler's own key is a PARENT: it is only ever folded, never replaced.  Chaining it (self.key = fold_in(self.key, j)) makes site j+1's key
            # fold_in(k_j, j+1) - exactly the key a vmap / repeat / scan at site j derives for its element j+1 (split(k, n)[i] == fold_in(k, i))
            newkey = env.get("self.key")
            obs.add({"C04"}, "KEY-LINEAR", inst + "/parent-key", newkey in (None, sattr("key")), construct="the handler's key after a trace site", derived=show(newkey)[:120] if newkey is not None else "unchanged",
                    expected="self.key is never reassigned: every site key is fold_in(<the same parent key>, counter)", where=w)
            init = ev.eval_fn(H.methods["__init__"], H.module, H)
            k0 = init.env.get("self.key")
            c0 = init.env.get("self.key_counter")
            obs.add({"C04"}, "KEY-COUNTER", f"{hname}.__init__", k0 == P("key") and is_t(c0, "const") and isinstance(c0[1], int), derived=f"key={show(k0)} counter={show(c0)}", expected="self.key = key; integer counter", where=W(H, "__init__"))
        # ---- the callee call
        if kind == "simulate":
            callee = [c for c in mcalls(everything, "simulate") if c[1][1] == GEN]
            want_args = (keyt, ARGS)
        elif kind == "assess":
            callee = [c for c in mcalls(everything, "assess") if c[1][1] == GEN]
            sub = ("call", sattr("choice_map_sample"), (ADDR,), ())
            want_args = (sub, ARGS)
        elif kind == "generate":
            callee = [c for c in mcalls(everything, "generate") if c[1][1] == GEN]
            sub = ("call", sattr("choice_map"), (ADDR,), ())
            want_args = (keyt, sub, ARGS)
        else:
            callee = [c for c in mcalls(everything, "edit")]
            if kind == "update":
                prev = ("call", ("attr", sattr("previous_trace"), "get_inner_trace"), (ADDR,), ())
                req = ("ctor", "Update", (("call", sattr("constraint"), (ADDR,), ()),), ())
            elif kind == "static_request":
                prev = ("call", ("attr", sattr("previous_trace"), "get_subtrace"), (ADDR,), ())
                req = ("call", ("attr", sattr("addressed"), "get"), (ADDR, ("ctor", "EmptyRequest", (), ())), ())
            else:
                prev = ("call", ("attr", sattr("previous_trace"), "get_subtrace"), (ADDR,), ())
                req = ("ctor", "Regenerate", (("call", sattr("selection"), (ADDR,), ()),), ())
            want_args = (keyt, prev, ARGS)
        if len(callee) != 1:
            obs.add({"C01", "C02", "C03", "C05", "C07", "C22", "C38"}, "ADDR-ALIGN", inst + "/callee", False, derived=f"{len(callee)} callee call(s)", expected="exactly one call into the traced generative function", where=w)
            continue
        cal = callee[0]
        props_k = {"simulate": {"C01", "C04"}, "assess": {"C01", "C02", "C22"}, "generate": {"C03"}, "update": {"C05"}, "static_request": {"C38", "C06"}, "regenerate": {"C07"}}[kind]
        obs.add(props_k | {"C22"}, "ADDR-ALIGN", inst + "/callee-args", cal[2] == want_args, derived=show(("tuple", cal[2]))[:300], expected=show(("tuple", want_args))[:300] + "  (sub-trace, sub-constraint/selection/request all looked up at the same addr)", where=w)
        if kind in ("update", "static_request", "regenerate"):
            obs.add(props_k, "ADDR-ALIGN", inst + "/request", cal[1][1] == req, derived=cal[1][1], expected=show(req), where=w)
            # the callee that performs the edit must be the one the RE-EXECUTED program hands to handle_trace (`gen_fn`): a callee object can carry data
            # (partial_apply(a), a closure, a combinator of those) and that data changes with the arguments.  `request.edit(key, subtrace, argdiffs)`
            # dispatches on subtrace.get_gen_fn() - the callee captured when the OLD trace was made.
            uses_fresh = mentions(cal, P("gen_fn"))
            obs.add({"update": {"C05"}, "static_request": {"C38"}, "regenerate": {"C07"}}[kind], "CALLEE-FRESH", inst + "/callee", uses_fresh,
                    construct="callee that performs the edit", derived=f"{show(cal)[:160]} - the `gen_fn` argument of handle_trace is unused; the edit runs on subtrace.get_gen_fn()",
                    expected="the re-executed program's callee (gen_fn) edits the sub-trace, so data captured by the callee follows the argument change", where=w)
            # ... and when the fresh callee IS used, the change tags of the data it carries must not be dropped (Diff.tree_primal(gen_fn) alone makes that data a
            # closed-over constant of the callee's own incremental run, tagged NoChange although it changed): the handler has to look at those tags
            tags_seen = mentions_any(("tuple", tuple(t for t, _p in [x for c_, _ in r.returns for x in c_])) if r.returns else C(None), lambda x: is_call(x, "static_check_no_change") and mentions(x, P("gen_fn"))) \
                or mentions_any(everything, lambda x: is_call(x, "static_check_no_change") and mentions(x, P("gen_fn")))
            obs.add({"C08"}, "CALLEE-FRESH", inst + "/callee-tags", (not uses_fresh) or tags_seen, construct="change tags of the data carried by the callee",
                    derived=f"{show(cal)[:160]} - the callee's own leaves are stripped to primals and their change tags never consulted", expected="argdiffs forced to UnknownChange (or the callee revisited) when Diff.static_check_no_change(gen_fn) fails", where=w)
        if kind != "assess":
            obs.add({"C04"}, "KEY-LINEAR", inst + "/key", cal[2][0] == keyt, derived=cal[2][0], expected="fold_in(self.key, self.key_counter)", where=w)
        # ---- record exactly once with own addr and the callee's trace
        if kind == "assess":
            evs_ = linear_events(prog, H, H.methods["handle_trace"])
            first_ = lambda pred: next((i for i, x in enumerate(evs_) if pred(x)), None)
            i_vis = first_(lambda x: (isinstance(x, ast.Call) and isinstance(x.func, ast.Attribute) and x.func.attr in (visit_helpers + ["record"]) and ast.unparse(x.func.value) == "self")
                           or (isinstance(x, ast.Raise) and "AddressReuse" in ast.unparse(x)))
            i_cal = first_(lambda x: isinstance(x, ast.Call) and isinstance(x.func, ast.Attribute) and x.func.attr == "assess")
            okv_, txtv_ = _reuse_test(r)
            obs.add({"C22", "C02"}, "ADDR-UNIQUE", inst + "/visit", bool(okv_) and i_vis is not None and i_cal is not None and i_vis < i_cal, construct="address-reuse test under assess",
                    derived=f"{txtv_}; visit@{i_vis} callee assess@{i_cal}", expected="assess marks each visited address (self.visit(addr)) before assessing the callee: a duplicated address raises AddressReuse instead of counting its density twice", where=w)
            sc = env.get("self.score")
            okacc = sc == ("bin", "+", sattr("score"), mk_proj(cal, 0))
            obs.add({"C02", "C01"}, "SCORE-AGG", inst + "/accumulate", okacc, derived=sc, expected="self.score += score returned by the callee's assess", where=w)
            obs.add({"C01"}, "TRACE-RETVAL", inst + "/retval", ret == mk_proj(cal, 1), derived=ret, expected="callee's assessed return value", where=w)
            # MissingAddress iff the sub-sample is statically empty, before the callee runs
            mis = [(c, x) for c, x in r.raises if (is_t(x, "ctor") and x[1] == "MissingAddress") or is_call(x, "MissingAddress")]
            emp = ("call", ("attr", sub, "static_is_empty"), (), ())
            # the guard is exactly "the sub-map is statically empty": a narrower guard (e.g. `and isinstance(gen_fn, Distribution)`, seeded change C22-2) lets
            # combinator-wrapped distributions (normal.vmap(), normal.mask(), or_else) be assessed against an empty map without MissingAddress
            okm = len(mis) == 1 and cond_has(mis[0][0], lambda t: t == emp, True) and (mis[0][1][2] == (ADDR,))
            # ... but an empty sub-map is not a missing value when the callee makes no random choice (a deterministic @gen callee, a zero-length vmap / scan):
            # simulate gives such a trace an empty choice map, and assess(tr.get_choices(), tr.get_args()) must accept it
            only_emp = len(mis) == 1 and all(t == emp for t, p in mis[0][0] if p) and not any(mentions(t, P("gen_fn")) for t, p in mis[0][0])
            obs.add({"C01", "C02"}, "MISSING-EXACT", inst + "/empty-callee", not only_emp, construct="MissingAddress for every statically empty sub-map",
                    derived="raises MissingAddress(addr) whenever choice_map(addr) is statically empty, whatever the callee is: a callee without random choices has an empty sub-map by construction",
                    expected="no MissingAddress for a callee that makes no random choice", where=w)
            obs.add({"C22"}, "MISSING-ADDR", inst + "/raise", okm, derived=f"{[(show(x), [show(t) for t, p in c]) for c, x in r.raises]}", expected="raise MissingAddress(addr) iff choice_map(addr).static_is_empty()", where=w)
            # evaluation order is source order in this loop-free body: the emptiness test is evaluated before the callee's assess is called (otherwise the
            # callee fails first, with its own inner address), whatever the statement structure around them is
            evs2_ = linear_events(prog, H, H.methods["handle_trace"])
            f2_ = lambda pred: next((i for i, x in enumerate(evs2_) if pred(x)), None)
            i_raise = f2_(lambda x: isinstance(x, ast.Call) and isinstance(x.func, ast.Attribute) and x.func.attr == "static_is_empty")
            i_call = f2_(lambda x: isinstance(x, ast.Call) and isinstance(x.func, ast.Attribute) and x.func.attr == "assess")
            obs.add({"C22"}, "MISSING-ADDR", inst + "/order", i_raise is not None and i_call is not None and i_raise < i_call, derived=f"test@{i_raise} call@{i_call}", expected="test before calling the callee", where=w)
        else:
            trs = env.get("self.traces")
            tr_term = cal if kind == "simulate" else mk_proj(cal, 0)
            okrec = is_t(trs, "setitem") and trs[1] == sattr("traces") and trs[2] == ADDR and trs[3] == tr_term
            obs.add({"C22", "C01", "C02"}, "RECORD-ONCE", inst + "/record", okrec, derived=trs, expected="self.traces[addr] = <trace returned by this site's call>, exactly once", where=w)
            if kind == "simulate":
                obs.add({"C01", "C04"}, "TRACE-RETVAL", inst + "/retval", ret == retval_of(cal), derived=ret, expected="callee trace's retval", where=w)
            elif kind == "generate":
                wt = env.get("self.weight")
                obs.add({"C03"}, "WEIGHT-GEN", inst + "/accumulate", wt == ("bin", "+", sattr("weight"), mk_proj(cal, 1)), derived=wt, expected="self.weight += callee's generate weight", where=w)
                obs.add({"C03", "C01"}, "TRACE-RETVAL", inst + "/retval", ret == retval_of(mk_proj(cal, 0)), derived=ret, expected="callee trace's retval", where=w)
            else:
                wt = env.get("self.weight")
                obs.add(props_k, "WEIGHT-UPD", inst + "/accumulate", wt == ("bin", "+", sattr("weight"), mk_proj(cal, 1)), derived=wt, expected="self.weight += callee's edit weight", where=w)
                obs.add(props_k | {"C08"}, "TRACE-RETVAL", inst + "/retdiff", ret == mk_proj(cal, 2), derived=ret, expected="callee's retdiff flows back into the incremental interpreter", where=w)
                eff = env.get("__effects__", [])
                fld = "bwd_constraints" if kind == "update" else "bwd_requests"
                want = ("attr", mk_proj(cal, 3), "constraint") if kind == "update" else mk_proj(cal, 3)
                app = [e for e in eff if is_mcall(e, "append") and e[1][1] == sattr(fld)]
                obs.add({"C06"} | props_k, "BWD-OLDVALUES", inst + "/bwd", len(app) == 1 and app[0][2] == (want,), derived=f"{[show(a) for a in app]}", expected=f"self.{fld}.append(<this site's backward request{'.constraint' if kind == 'update' else ''}>) once", where=w)
        # ---- initial accumulators are zero
        if kind != "simulate":
            init = ev.eval_fn(H.methods["__init__"], H.module, H)
            acc = "score" if kind == "assess" else "weight"
            a0 = init.env.get(f"self.{acc}")
            obs.add({"C02", "C03", "C05"}, "SCORE-AGG", f"{hname}.__init__/{acc}", a0 is not None and is_zero(a0), derived=a0, expected=f"self.{acc} starts at 0", where=W(H, "__init__"))
    obs.add({"C01", "C22"}, "FLOOR", "static handlers", n_handlers >= 6, derived=str(n_handlers), expected="6", where=m.rel)

    # ---------------------------------------------------------------- StaticTrace
    ST = prog.cls("StaticTrace", MOD)
    ev = Evaluator(prog)
    r = ev.eval_fn(ST.methods["get_score"], ST.module, ST)
    subs = sattr("subtraces")
    okg = is_call(r.ret, "sum") and len(r.ret[2]) == 1 and any(is_t(x, "fam") and x[1] == subs and x[2] == score_of(("index", subs, ("elem", subs))) for x in subterms(r.ret))
    obs.add({"C02", "C01", "C34"}, "SCORE-AGG", "StaticTrace.get_score", okg, derived=r.ret, expected="sum over ALL subtraces of subtrace.get_score()", where=W(ST, "get_score"))
    r = ev.eval_fn(ST.methods["get_choices"], ST.module, ST)
    pairs_ = r.ret[2][0] if is_call(r.ret, "from_mapping") and len(r.ret[2]) == 1 else None
    okc = is_t(pairs_, "fam") and pairs_[1] == subs and pairs_[2] == ("tuple", (("elem", subs), choices_of(("index", subs, ("elem", subs)))))
    obs.add({"C22", "C01", "C34"}, "TRACE-CHOICES", "StaticTrace.get_choices", okc, derived=r.ret, expected="ChoiceMap.d({address: subtrace.get_choices() for every recorded subtrace})", where=W(ST, "get_choices"))
    for acc, fld in (("get_args", "args"), ("get_retval", "retval"), ("get_gen_fn", "gen_fn")):
        r = ev.eval_fn(ST.methods[acc], ST.module, ST)
        obs.add({"C01"}, "TRACE-ACCESSOR", f"StaticTrace.{acc}", r.ret == sattr(fld), derived=r.ret, expected=f"self.{fld}", where=W(ST, acc))
    r = ev.eval_fn(ST.methods["get_inner_trace"], ST.module, ST)
    oki = all(is_t(t, "index") and t[1] == subs for c, t in arms_of(r)) and any(mentions(t, P("address")) for c, t in arms_of(r))
    obs.add({"C34"}, "SUBTRACE", "StaticTrace.get_inner_trace", oki, derived=r.ret, expected="self.subtraces[address]", where=W(ST, "get_inner_trace"))
    # the deprecated compatibility path (a 1-tuple looked up as its component) may only be taken when the address AS GIVEN is not recorded: a call genuinely traced
    # at ("obs",) must still be found under ("obs",)
    rewr, guarded = [], True
    for c_, t_ in arms_of(r):
        for x in subterms(t_):
            if is_t(x, "phi") and (x[2] != x[3]) and mentions(x, P("address")) and not (x[2] == P("address") and x[3] == P("address")):
                rewr.append(x)
                conj = x[1][2] if is_t(x[1], "bool") and x[1][1] == "and" else (x[1],)
                if not any(is_t(y, "cmp") and y[1] == "not in" and y[3] == subs for y in conj):
                    guarded = False
                if not any(is_t(y, "cmp") and y[1] == "==" and C(1) in (y[2], y[3]) and mentions(y, P("address")) for y in conj):
                    guarded = False  # the shortcut is for 1-tuples only
    obs.add({"C34"}, "SUBTRACE", "StaticTrace.get_inner_trace/compat-guard", (not rewr) or guarded, construct="address rewritten before the lookup", derived=f"{len(rewr)} rewriting arm(s); guarded by `address not in self.subtraces`: {guarded}",
            expected="the 1-tuple shortcut only when the tuple itself is not a recorded address", where=W(ST, "get_inner_trace"))

    # ---------------------------------------------------------------- StaticGenerativeFunction
    SG = prog.cls("StaticGenerativeFunction", MOD)
    ev = Evaluator(prog)
    SRC = sattr("source")

    def handler_ctor(t, name):
        return [x for x in subterms(t) if is_t(x, "ctor") and x[1] == name]

    # simulate
    r = ev.eval_fn(SG.methods["simulate"], SG.module, SG)
    f = ctor_fields(prog, r.ret, "StaticTrace", "Static.simulate")
    w = W(SG, "simulate")
    h = ("ctor", "SimulateHandler", (P("key"),), ())
    run = lambda hh, *a: ("call", ("call", G("genjax._src.core.compiler.interpreters.stateful.stateful"), (SRC,), ()), (hh,) + a, ())
    obs.add({"C01"}, "TRACE-ARGS", "Static.simulate", f.get("args") == ARGS, derived=f.get("args"), expected="args", where=w)
    obs.add({"C01", "C04"}, "TRACE-RETVAL", "Static.simulate", f.get("retval") == run(h, ("star", ARGS)), derived=f.get("retval"), expected="stateful(source)(SimulateHandler(key), *args)", where=w)
    obs.add({"C01", "C22"}, "TRACE-CHOICES", "Static.simulate/subtraces", f.get("subtraces") == call0(h, "yield_state"), derived=f.get("subtraces"), expected="the handler's recorded traces", where=w)
    lay, tup = ys_index["SimulateHandler"]
    obs.add({"C01", "C22"}, "YIELD-LAYOUT", "SimulateHandler.yield_state", not tup, derived=str(lay), expected="returns self.traces", where=W(prog.cls("SimulateHandler", MOD), "yield_state"))
    # generate
    r = ev.eval_fn(SG.methods["generate"], SG.module, SG)
    pair = tuple_n(r.ret, 2, "Static.generate")
    f = ctor_fields(prog, pair[0], "StaticTrace", "Static.generate")
    w = W(SG, "generate")
    h = ("ctor", "GenerateHandler", (P("key"), P("constraint")), ())
    lay, _ = ys_index["GenerateHandler"]
    ys = call0(h, "yield_state")
    obs.add({"C01", "C03"}, "TRACE-ARGS", "Static.generate", f.get("args") == ARGS, derived=f.get("args"), expected="args", where=w)
    obs.add({"C03"}, "WEIGHT-GEN", "Static.generate/weight", "weight" in lay and pair[1] == mk_proj(ys, lay["weight"]), derived=pair[1], expected="the handler's accumulated weight (sum over sites)", where=w)
    obs.add({"C03", "C01", "C22"}, "TRACE-CHOICES", "Static.generate/subtraces", "traces" in lay and f.get("subtraces") == mk_proj(ys, lay["traces"]), derived=f.get("subtraces"), expected="the handler's recorded traces", where=w)
    obs.add({"C03", "C01"}, "TRACE-RETVAL", "Static.generate", f.get("retval") == run(h, ("star", ARGS)), derived=f.get("retval"), expected="stateful(source)(GenerateHandler(key, constraint), *args)", where=w)
    # assess
    r = ev.eval_fn(SG.methods["assess"], SG.module, SG)
    pair = tuple_n(r.ret, 2, "Static.assess")
    h = ("ctor", "AssessHandler", (P("sample"),), ())
    lay, _ = ys_index["AssessHandler"]
    w = W(SG, "assess")
    obs.add({"C01", "C02"}, "ASSESS-AGREE", "Static.assess/score", "score" in lay and pair[0] == mk_proj(call0(h, "yield_state"), lay["score"]), derived=pair[0], expected="the handler's accumulated score (sum over sites)", where=w)
    obs.add({"C01"}, "ASSESS-AGREE", "Static.assess/retval", pair[1] == run(h, ("star", ARGS)), derived=pair[1], expected="stateful(source)(AssessHandler(sample), *args)", where=w)
    # project
    r = ev.eval_fn(SG.methods["project"], SG.module, SG)
    w = W(SG, "project")
    keys = ("attr", P("trace"), "subtraces")  # d.keys() / d.items() / d.values() iterate the dictionary: canonical iterable is d itself
    el = ("elem", keys)
    term = ("call", ("attr", ("call", ("attr", P("trace"), "get_subtrace"), (el,), ()), "project"), (P("key"), ("call", P("selection"), (el,), ())), ())
    term2 = ("call", ("attr", ("index", keys, el), "project"), (P("key"), ("call", P("selection"), (el,), ())), ())  # trace.subtraces[addr] (items())
    okp = is_t(r.ret, "bin") and r.ret[1] == "+" and is_zero(r.ret[2]) and r.ret[3] in (("sumover", keys, term), ("sumover", keys, term2))
    obs.add({"C10"}, "WEIGHT-PROJ", "Static.project", okp, derived=r.ret, expected="sum over ALL trace.subtraces addresses of subtrace(addr).project(key, selection(addr))", where=w)
    # the three edits
    EDITS = {
        "edit_update": ("UpdateHandler", (P("key"), P("trace"), P("constraint")), "update", {"C05"}),
        "edit_static_edit_request": ("StaticEditRequestHandler", (P("key"), P("trace"), P("addressed")), "static_request", {"C38"}),
        "edit_regenerate": ("RegenerateRequestHandler", (P("key"), P("trace"), P("selection"), P("edit_request")), "regenerate", {"C07"}),
    }
    PR = ("call", ("attr", G("genjax._src.core.compiler.interpreters.incremental.Diff"), "tree_primal"), (P("argdiffs"),), ())
    TG = ("call", ("attr", G("genjax._src.core.compiler.interpreters.incremental.Diff"), "tree_tangent"), (P("argdiffs"),), ())
    norm_forms = {}
    for meth, (hn, hargs, kind, props) in EDITS.items():
        r = ev.eval_fn(SG.methods[meth], SG.module, SG)
        q = tuple_n(r.ret, 4, f"Static.{meth}")
        tr, wt, rd, bwd = q
        w = W(SG, meth)
        f = ctor_fields(prog, tr, "StaticTrace", f"Static.{meth}")
        h = ("ctor", hn, hargs, ())
        lay, _ = ys_index[hn]
        ys = call0(h, "yield_state")
        inc = ("call", ("call", G("genjax._src.core.compiler.interpreters.incremental.incremental"), (SRC,), ()), (h, PR, TG), ())
        inst = f"Static.{meth}"
        obs.add(props | {"C01"}, "TRACE-ARGS", inst, f.get("args") == PR, derived=f.get("args"), expected="Diff.tree_primal(argdiffs)", where=w)
        obs.add(props | {"C08", "C15"}, "TAG-PAIRING", inst + "/incremental", mentions(r.ret, inc), derived=[show(c)[:200] for c in calls(r.ret, "incremental")][:1], expected="incremental(source)(handler, tree_primal(argdiffs), tree_tangent(argdiffs))", where=w)
        obs.add(props | {"C01"}, "TRACE-RETVAL", inst, is_call(f.get("retval"), "tree_primal") and f.get("retval")[2] == (inc,), derived=f.get("retval"), expected="Diff.tree_primal(retval diffs of this run)", where=w)
        obs.add(props, "WEIGHT-UPD", inst + "/weight", "weight" in lay and wt == mk_proj(ys, lay["weight"]), derived=wt, expected="the handler's accumulated weight (sum over sites)", where=w)
        obs.add(props | {"C22", "C01"}, "TRACE-CHOICES", inst + "/subtraces", "traces" in lay and f.get("subtraces") == mk_proj(ys, lay["traces"]), derived=f.get("subtraces"), expected="the handler's recorded traces", where=w)
        # retdiff normalisation (sibling agreement)
        D_ = G("genjax._src.core.compiler.interpreters.incremental.Diff")
        chkd = ("call", ("attr", D_, "static_check_tree_diff"), (inc,), ())
        keep = ("call", ("attr", D_, "tree_diff"), (("call", ("attr", D_, "tree_primal"), (inc,), ()), ("call", ("attr", D_, "tree_tangent"), (inc,), ())), ())
        normed = rd == mk_phi(("un", "not", chkd), keep, inc)
        overwrites = is_t(rd, "phi") and is_call(rd[2], "no_change")
        obs.add(props | {"C08"}, "SIBLING-NORMALISE", inst + "/retdiff", normed, construct="retval diffs normalised before they reach the Retdiff-annotated return slot",
                derived=rd, expected="retval_diffs if it is a tree of Diffs else Diff.tree_diff(tree_primal(rd), tree_tangent(rd))  (constant leaves become NoChange, Diff leaves keep their tags; "
                "Diff.no_change(rd) would overwrite a genuine UnknownChange; no normalisation makes beartype reject a constant return value)", where=w)
        # backward request
        bfld = "bwd_constraints" if kind == "update" else "bwd_requests"
        tkeys = call0(mk_proj(ys, lay.get("traces", 99)), "keys")
        bl = mk_proj(ys, lay.get(bfld, 99))
        TR_ = tkeys[1][1]  # the dictionary of recorded subtraces: iterating it, or its .keys(), gives the visited addresses in order

        def pairing(t, as_dict):
            """t pairs the visited addresses with the per-site list, in order: zip(traces[.keys()], lst) as a value, dict(zip(..)), or the comprehension over that zip"""
            ks = (TR_, tkeys)
            while not as_dict and is_t(t, "call") and t[1] in (G("list"), G("tuple")) and len(t[2]) == 1 and not t[3]:
                t = t[2][0]  # list(zip(..)): the same pairs
            if not as_dict:
                if is_t(t, "call") and t[1] == G("zip") and len(t[2]) == 2 and t[2][0] in ks and t[2][1] == bl and not t[3]:
                    return True
                return is_t(t, "fam") and is_t(t[1], "zip") and t[1][1] == (TR_, bl) and t[2] == ("tuple", (("elem", TR_), ("elem", bl)))
            if is_t(t, "call") and t[1] == G("dict") and len(t[2]) == 1 and not t[3]:
                return pairing(t[2][0], False)
            return is_t(t, "dictfam") and is_t(t[1], "zip") and t[1][1] == (TR_, bl) and t[2:] == (("elem", TR_), ("elem", bl))
        if kind == "update":
            okb = is_t(bwd, "ctor") and bwd[1] == "Update" and is_call(bwd[2][0], "from_mapping") and len(bwd[2][0][2]) == 1 and pairing(bwd[2][0][2][0], False)
            exp = "Update(ChoiceMap.from_mapping(zip(visited addresses, per-site backward constraints)))"
        else:
            okb = is_t(bwd, "ctor") and bwd[1] == "StaticRequest" and len(bwd[2]) == 1 and pairing(bwd[2][0], True)
            exp = "StaticRequest(dict(zip(visited addresses, per-site backward requests)))"
        obs.add({"C06"} | props, "BWD-OLDVALUES", inst + "/bwd", okb, derived=bwd, expected=exp, where=w)
        obs.add({"C06"}, "BWD-CLOSED", inst, is_t(bwd, "ctor") and bwd[1] in ("Update", "StaticRequest"), derived=bwd[1] if is_t(bwd, "ctor") else show(bwd)[:80], expected="a request class StaticGenerativeFunction.edit accepts", where=w)
    # edit dispatch
    r = ev.eval_fn(SG.methods["edit"], SG.module, SG)
    acc = {}
    for conds, t in arms_of(r):
        for c, pol in conds:
            if pol and is_t(c, "isinst") and c[1] == P("edit_request"):
                acc[c[2]] = t
    w = W(SG, "edit")
    obs.add({"C06", "C38"}, "REQ-ACCEPT", "Static.edit", set(acc) == {"Update", "StaticRequest", "Regenerate"}, derived=str(sorted(acc)), expected="Update, StaticRequest, Regenerate", where=w)
    from .common import dispatch_roles
    ev_d = Evaluator(prog)
    ev_d.opaque_methods |= {"edit_update", "edit_static_edit_request", "edit_regenerate"}
    r_d = ev_d.eval_fn(SG.methods["edit"], SG.module, SG)
    dispatch_roles(obs, {"C05", "C07", "C38", "C06"}, "Static", r_d, {"Update": ["constraint"], "StaticRequest": ["addressed"], "Regenerate": ["selection"]}, w)
    obs.add({"C06"}, "REQ-EXHAUSTIVE", "Static.edit", len(r.raises) >= 1, derived=f"{len(r.raises)} raising default arm(s)", expected="unsupported requests raise", where=w)
    # trace() / dispatch writer-reader agreement
    _, tf = prog.func("trace", MOD)
    r = Evaluator(prog).eval_fn(tf, m)
    okt = is_t(r.ret, "call") and r.ret[2][1:] == (P("gen_fn"), P("args")) and is_call(r.ret[2][0], "tree_const") and r.ret[2][0][2] == (P("addr"),)
    obs.add({"C22"}, "TRACE-BIND", "static.trace", okt, derived=r.ret, expected="bind(trace_p)(tree_const(addr), gen_fn, args)", where=f"{m.rel}:{tf.lineno}")
    r = Evaluator(prog).eval_fn(SH.methods["dispatch"], SH.module, SH)
    un = [x for x in subterms(r.ret) if is_mcall(x, "handle_trace")]
    okd = len(un) == 1 and is_call(un[0][2][0], "tree_const_unwrap") and mentions(un[0][2][0], mk_proj(("call", G("jax.tree_util.tree_unflatten"), (), ()), 0)[1][1]) if un else False
    okd = len(un) == 1 and is_call(un[0][2][0], "tree_const_unwrap") and is_t(un[0][2][1], "proj") and un[0][2][1][2] == 1 and is_t(un[0][2][2], "proj") and un[0][2][2][2] == 2 and is_t(un[0][2][0][2][0], "proj") and un[0][2][0][2][0][2] == 0
    # ... and only for the trace primitive (the polarity of the test matters: `!=` would hand every OTHER primitive to handle_trace)
    is_tp = lambda c: is_t(c, "cmp") and c[1] == "==" and P("primitive") in (c[2], c[3]) and any(is_t(x, "global") and x[1].endswith("trace_p") for x in (c[2], c[3]))
    okd = okd and all(any(pol and is_tp(c) for c, pol in conds) for conds, ret in r.returns if mentions_any(ret, lambda x: is_mcall(x, "handle_trace")))
    rh = Evaluator(prog).eval_fn(SH.methods["handles"], SH.module, SH) if "handles" in SH.methods else None
    # handles: `primitive == trace_p`, or membership in a rule table whose only key is trace_p
    is_tp_in = lambda c: is_t(c, "cmp") and c[1] == "in" and c[2] == P("primitive") and is_t(c[3], "dict") and len(c[3][1]) == 1 and is_t(c[3][1][0][0], "global") and c[3][1][0][0][1].endswith("trace_p")
    okd = okd and (rh is None or is_tp(rh.ret) or is_tp_in(rh.ret))
    obs.add({"C22"}, "TRACE-BIND", "StaticHandler.dispatch", okd, derived=[show(u)[:200] for u in un], expected="handle_trace(unwrap(addr), gen_fn, args) unflattened in the order trace() bound them", where=W(SH, "dispatch"))
