"""MaskCombinator / MaskTrace and Dimap / DimapTrace (+ map, contramap)."""

from __future__ import annotations

from ..linform import _factors, lin, show_lin, subst_flags
from ..program import AnalysisError
from ..rules import calls, is_call, is_mcall, mcalls, mentions, mentions_any
from ..terms import C, Evaluator, G, P, is_t, mk_proj, mk_slice, show, subterms
from .common import main_ret, Obs, arms_of, call0, choices_of, cond_has, ctor_fields, is_zero, retval_of, score_of, tuple_n, args_of

SELF = P("self")
DIFF = G("genjax._src.core.compiler.interpreters.incremental.Diff")


def dcall(name, *xs):
    return ("call", ("attr", DIFF, name), tuple(xs), ())


def is_mask_build(t, v, f):
    return is_call(t, "build") and is_t(t[1], "attr") and is_t(t[1][1], "global") and t[1][1][1].split(".")[-1] == "Mask" and t[2] == (v, f)


def analyse_mask(obs: Obs, prog):
    MOD = "combinators/mask.py"
    M = prog.cls("MaskCombinator", MOD)
    MT = prog.cls("MaskTrace", MOD)
    W = lambda c, m: f"{c.module.rel}:{c.methods[m].lineno}"
    ev = Evaluator(prog)
    GF = ("attr", SELF, "gen_fn")
    ARGS = P("args")
    CHECK, INNER_ARGS = mk_proj(ARGS, 0), mk_slice(ARGS, 1, None)

    def check_build(t, inner, check, inst, where, props):
        f = ctor_fields(prog, t, "MaskTrace", inst)
        obs.add(props | {"C14", "C01"}, "TRACE-ARGS", inst, f.get("args") == ("tuple", (check, ("star", args_of(inner)))), derived=f.get("args"), expected="(check, *inner.get_args())", where=where)
        form = lin(f.get("score"))
        obs.add(props | {"C14", "C02", "C01", "C16"}, "SCORE-GATE", inst + "/score", form == {frozenset([check, score_of(inner)]): 1}, derived=show_lin(form), expected="check * inner score", where=where)
        obs.add(props | {"C14", "C01"}, "SCORE-GATE", inst + "/choices", f.get("chm") == ("call", ("attr", choices_of(inner), "mask"), (check,), ()), derived=f.get("chm"), expected="inner choices masked by check", where=where)
        obs.add(props | {"C14", "C01"}, "SCORE-GATE", inst + "/retval", is_mask_build(f.get("ret"), retval_of(inner), check), derived=f.get("ret"), expected="Mask.build(inner retval, check)", where=where)
        obs.add(props | {"C14"}, "TRACE-INNER", inst + "/inner", f.get("inner") == inner and f.get("check") == check, derived=f"inner={show(f.get('inner'))[:80]} check={show(f.get('check'))[:60]}", expected="inner trace and flag stored", where=where)
        return f

    for acc, fld in (("get_args", "args"), ("get_retval", "ret"), ("get_score", "score"), ("get_choices", "chm")):
        r = ev.eval_fn(MT.methods[acc], MT.module, MT)
        obs.add({"C01", "C14"}, "TRACE-ACCESSOR", f"MaskTrace.{acc}", r.ret == ("attr", SELF, fld), derived=r.ret, expected=f"self.{fld}", where=W(MT, acc))
    r = ev.eval_fn(MT.methods["get_inner_trace"], MT.module, MT)
    # the parent's score is check * inner score and its choices are masked by check, but the sub-trace handed out below the mask is the UNMASKED inner one: with a
    # false flag its choices / score are not the parent's sub-map / the call's contribution (vmap(mask(f)) with flags [T, F, T]: sub-trace scores sum to -5.39,
    # parent score -2.01)
    obs.add({"C34"}, "SUBTRACE", "MaskTrace.get_inner_trace/flag", mentions(r.ret, ("attr", SELF, "check")), construct="sub-trace below a mask",
            derived="self.inner.get_inner_trace(address) - the flag is not applied", expected="the forwarded sub-trace gated by self.check (or its score / choices masked)", where=W(MT, "get_inner_trace"))
    obs.add({"C34"}, "SUBTRACE", "MaskTrace.get_inner_trace", r.ret == ("call", ("attr", ("attr", SELF, "inner"), "get_inner_trace"), (P("address"),), ()), derived=r.ret, expected="self.inner.get_inner_trace(address)", where=W(MT, "get_inner_trace"))
    # simulate
    r = ev.eval_fn(M.methods["simulate"], M.module, M)
    inner = ("call", ("attr", GF, "simulate"), (P("key"), INNER_ARGS), ())
    check_build(r.ret, inner, CHECK, "Mask.simulate", W(M, "simulate"), {"C04"})
    # generate
    r = ev.eval_fn(M.methods["generate"], M.module, M)
    pair = tuple_n(r.ret, 2, "Mask.generate")
    g = ("call", ("attr", GF, "generate"), (P("key"), P("constraint"), INNER_ARGS), ())
    check_build(pair[0], mk_proj(g, 0), CHECK, "Mask.generate", W(M, "generate"), {"C03"})
    form = lin(pair[1])
    obs.add({"C03", "C14"}, "SCORE-GATE", "Mask.generate/weight", form == {frozenset([CHECK, mk_proj(g, 1)]): 1}, derived=show_lin(form), expected="check * inner weight", where=W(M, "generate"))
    # assess
    r = ev.eval_fn(M.methods["assess"], M.module, M)
    pair = tuple_n(r.ret, 2, "Mask.assess")
    a = ("call", ("attr", GF, "assess"), (P("sample"), INNER_ARGS), ())
    form = lin(pair[0])
    obs.add({"C01", "C02", "C14"}, "SCORE-GATE", "Mask.assess/score", form == {frozenset([CHECK, mk_proj(a, 0)]): 1}, derived=show_lin(form), expected="check * inner assess score", where=W(M, "assess"))
    # the inner return value may itself be a Mask (f.mask().mask(), a @gen function returning a masked value): only Mask.build merges the flags, the raw
    # constructor asserts `not isinstance(value, Mask)`.  Sibling agreement: simulate / generate / edit all wrap with Mask.build (MaskTrace.build).
    okr = is_mask_build(pair[1], mk_proj(a, 1), CHECK)
    obs.add({"C01", "C14"}, "SCORE-GATE", "Mask.assess/retval", okr, derived=pair[1], expected="Mask.build(inner retval, check) - as MaskTrace.build does for simulate / generate / edit; the raw Mask(...) constructor rejects an inner return value that is a Mask", where=W(M, "assess"))
    # flag False must be inert: simulate / generate store `choices.mask(check)`, which for a CONCRETE False flag is the statically empty map; assess is
    # handed exactly that map on the round trip assess(tr.get_choices(), tr.get_args()), so its inner assess must not run (demand addresses) on a path
    # where the flag is concretely False
    ungated = [ret for conds, ret in r.returns if mentions(ret, a) and not any(mentions(t, CHECK) for t, _p in conds)]
    obs.add({"C14"}, "BRANCH-EFFECT", "Mask.assess/MissingAddress", not ungated, construct="inner assess runs whatever the flag is",
            derived="self.gen_fn.assess(sample, inner_args) is called on every path; with a concrete False flag the trace's own choices are statically empty, so assess(tr.get_choices(), tr.get_args()) raises MissingAddress (a traced False flag gives score 0)",
            expected="no demand for the inner addresses when the flag is concretely False", where=W(M, "assess"))
    # edit
    r = ev.eval_fn(M.methods["edit"], M.module, M)
    w = W(M, "edit")
    q = tuple_n(main_ret(obs, r, "Mask.edit", w, {"C05", "C14"}), 4, "Mask.edit")
    AD = P("argdiffs")
    post = dcall("tree_primal", mk_proj(AD, 0))
    pre = ("attr", P("trace"), "check")
    orig = ("attr", P("trace"), "inner")
    edits = [c for c in mcalls(r.ret, "edit") if c[1][1] == GF]
    if len(edits) != 1:
        raise AnalysisError(f"Mask.edit: expected one inner edit, found {len(edits)}")
    E = edits[0]
    want = (P("key"), orig, ("ctor", "Update", (("attr", P("edit_request"), "constraint"),), ()), mk_slice(AD, 1, None))
    obs.add({"C05", "C14"}, "DELEG-ROLE", "Mask.edit/inner", E[2] == want, derived=show(("tuple", E[2]))[:300], expected="gen_fn.edit(key, trace.inner, Update(request.constraint), argdiffs[1:])", where=w)
    check_build(q[0], mk_proj(E, 0), post, "Mask.edit", w, {"C05"})
    form = lin(q[1])
    S_old, S_new, W_in = score_of(orig), score_of(mk_proj(E, 0)), mk_proj(E, 1)
    final_tr = [x for x in subterms(q[1]) if is_t(x, "treemap") and is_t(x[1], "where") and x[1][1] == post]
    rows = {}
    okrows = True
    desc = []
    for pv in (True, False):
        for qv in (True, False):
            f2 = subst_flags(form, {pre: pv, post: qv})
            # under post=True the flag-selected final trace IS the edited trace
            f3 = {}
            for mono, c in f2.items():
                mono2 = frozenset((S_new if (qv and final_tr and x == score_of(final_tr[0])) else x) for x in mono)
                f3[mono2] = f3.get(mono2, 0) + c
            f3 = {k: v for k, v in f3.items() if v != 0}
            exp = {(True, True): {frozenset([W_in]): 1}, (True, False): {frozenset([S_old]): -1}, (False, True): {frozenset([S_new]): 1}, (False, False): {}}[(pv, qv)]
            rows[(pv, qv)] = f3
            desc.append(f"{'T' if pv else 'F'}->{'T' if qv else 'F'}: {show_lin(f3)[:120]}")
            if f3 != exp:
                okrows = False
    obs.add({"C05", "C14"}, "WEIGHT-UPD", "Mask.edit/transition-table", okrows, construct="flag transition weights",
            derived=" | ".join(desc), expected="T->T inner edit weight; T->F -(old inner score); F->T +(new inner score); F->F 0   (= post*S' - pre*S)", where=w)
    okrd = is_mask_build(q[2], mk_proj(E, 2), mk_proj(AD, 0))
    obs.add({"C14", "C08"}, "TRACE-RETVAL", "Mask.edit/retdiff", okrd, derived=q[2], expected="Mask.build(inner retdiff, check diff)", where=w)
    # contradiction rule (callee belief vs caller fact): the Mask arm of Mask.build asserts that neither flag is a Diff, yet edit hands it the *diff* of the flag
    # (argdiffs[0]) together with the inner retdiff - and the inner return value may itself be a Mask (its retdiff then is a Mask whose flag is a Diff)
    FT = prog.cls("Mask", "generative/functional_types.py")
    bnode = FT.methods["build"]
    import ast as _ast
    guarded = []
    for mc in [n for n in _ast.walk(bnode) if isinstance(n, _ast.match_case)]:
        if isinstance(mc.pattern, _ast.MatchClass) and _ast.unparse(mc.pattern.cls) == "Mask":
            for a_ in [n for n in _ast.walk(mc) if isinstance(n, _ast.Assert)]:
                txt = _ast.unparse(a_.test)
                if "isinstance" in txt and "Diff" in txt and "not" in txt:
                    guarded.append(a_.lineno)
    flag_is_diff = okrd and q[2][2][1] == mk_proj(AD, 0)  # an element of `argdiffs: Argdiffs`, never passed through tree_primal
    obs.add({"C14"}, "BUILD-PRECOND", "Mask.edit/retdiff", not (guarded and flag_is_diff), construct="Mask.build(inner retdiff, check_diff) when the inner return value is a Mask",
            derived=f"Mask.build's `case Mask(value, g)` arm asserts the flags are not Diffs (functional_types.py:{guarded[:1]}); Mask.edit passes argdiffs[0] (a Diff) with the inner function's retdiff, which is a Mask whenever the inner function returns one",
            expected="either Mask.build combines Diff flags (primal and_, tangent join) or edit never reaches that arm", where=w)
    okb = is_t(q[3], "ctor") and q[3][1] == "Update" and mentions(q[3], ("attr", mk_proj(E, 3), "constraint"))
    obs.add({"C06", "C05", "C14"}, "BWD-OLDVALUES", "Mask.edit/bwd", okb, derived=q[3], expected="Update(<inner backward constraint> ...)", where=w)
    # the discard holds the previous values of the addresses that were VISIBLE before the edit: the inner backward constraint gated by the OLD flag
    # (gating by the new flag loses the overwritten values on True -> False, so the backward edit exposes the constrained value instead of the original one)
    inner_bwd = ("attr", mk_proj(E, 3), "constraint")
    okg = is_t(q[3], "ctor") and q[3][1] == "Update" and len(q[3][2]) == 1 and q[3][2][0] in (("call", ("attr", inner_bwd, "mask"), (pre,), ()), ("call", ("attr", inner_bwd, "filter"), (pre,), ()))
    obs.add({"C06", "C05", "C14"}, "BWD-OLDVALUES", "Mask.edit/bwd-gate", okg, construct="flag gating the backward constraint", derived=q[3],
            expected="Update(<inner backward constraint>.mask(trace.check)) - the flag the trace had BEFORE the edit", where=w)
    obs.add({"C06"}, "BWD-CLOSED", "Mask.edit", is_t(q[3], "ctor") and q[3][1] == "Update", derived=q[3][1] if is_t(q[3], "ctor") else "?", expected="Update", where=w)
    asr = [t for c, t in r.asserts]
    obs.add({"C06"}, "REQ-ACCEPT", "Mask.edit", any(is_t(t, "isinst") and t[1] == P("edit_request") and t[2] == "Update" for t in asr), derived=[show(t) for t in asr], expected="assert isinstance(edit_request, Update)", where=w)
    obs.note({"C14", "C06"}, "Mask.edit: the backward constraint is masked by the post flag (recorded, not judged): " + show(q[3])[:160])
    r = ev.eval_fn(M.methods["project"], M.module, M)
    obs.note({"C10"}, f"MaskCombinator.project raises NotImplementedError by design ({len(r.raises)} raising path)")


def analyse_dimap(obs: Obs, prog):
    MOD = "combinators/dimap.py"
    D = prog.cls("Dimap", MOD)
    DT = prog.cls("DimapTrace", MOD)
    W = lambda c, m: f"{c.module.rel}:{c.methods[m].lineno}"
    ev = Evaluator(prog)
    INNER = ("attr", SELF, "inner")
    PRE = ("attr", SELF, "argument_mapping")
    POST = ("attr", SELF, "retval_mapping")
    ARGS = P("args")
    ia = ("call", PRE, (("star", ARGS),), ())
    post = lambda a, x, rv: ("call", POST, (a, x, rv), ())
    r = ev.eval_fn(DT.methods["get_choices"], DT.module, DT)
    obs.add({"C15", "C01"}, "TRACE-ACCESSOR", "DimapTrace.get_choices", r.ret == choices_of(INNER), derived=r.ret, expected="self.inner.get_choices()", where=W(DT, "get_choices"))
    r = ev.eval_fn(DT.methods["get_score"], DT.module, DT)
    obs.add({"C15", "C01", "C02"}, "TRACE-ACCESSOR", "DimapTrace.get_score", r.ret == score_of(INNER), derived=r.ret, expected="self.inner.get_score()", where=W(DT, "get_score"))
    for acc, fld in (("get_args", "args"), ("get_retval", "retval")):
        r = ev.eval_fn(DT.methods[acc], DT.module, DT)
        obs.add({"C15", "C01"}, "TRACE-ACCESSOR", f"DimapTrace.{acc}", r.ret == ("attr", SELF, fld), derived=r.ret, expected=f"self.{fld}", where=W(DT, acc))
    r = ev.eval_fn(DT.methods["get_inner_trace"], DT.module, DT)
    obs.add({"C34"}, "SUBTRACE", "DimapTrace.get_inner_trace", r.ret == ("call", ("attr", INNER, "get_inner_trace"), (P("address"),), ()), derived=r.ret, expected="self.inner.get_inner_trace(address)", where=W(DT, "get_inner_trace"))
    # simulate
    r = ev.eval_fn(D.methods["simulate"], D.module, D)
    w = W(D, "simulate")
    f = ctor_fields(prog, r.ret, "DimapTrace", "Dimap.simulate")
    tr = ("call", ("attr", INNER, "simulate"), (P("key"), ia), ())
    obs.add({"C15", "C04"}, "DELEG-ROLE", "Dimap.simulate/inner", f.get("inner") == tr, derived=f.get("inner"), expected="inner.simulate(key, pre(*args))", where=w)
    obs.add({"C15", "C01"}, "TRACE-ARGS", "Dimap.simulate", f.get("args") == ARGS, derived=f.get("args"), expected="args (outer)", where=w)
    obs.add({"C15", "C01"}, "TRACE-RETVAL", "Dimap.simulate/retval", f.get("retval") == post(ARGS, ia, retval_of(tr)), derived=f.get("retval"), expected="post(args, pre(*args), inner retval)", where=w)
    # generate
    r = ev.eval_fn(D.methods["generate"], D.module, D)
    w = W(D, "generate")
    pair = tuple_n(r.ret, 2, "Dimap.generate")
    g = ("call", ("attr", INNER, "generate"), (P("key"), P("constraint"), ia), ())
    f = ctor_fields(prog, pair[0], "DimapTrace", "Dimap.generate")
    obs.add({"C15", "C03"}, "DELEG-ROLE", "Dimap.generate/inner", f.get("inner") == mk_proj(g, 0), derived=f.get("inner"), expected="inner.generate(key, constraint, pre(*args))[0]", where=w)
    obs.add({"C15", "C03"}, "WEIGHT-GEN", "Dimap.generate/weight", pair[1] == mk_proj(g, 1), derived=pair[1], expected="inner weight", where=w)
    obs.add({"C15", "C01"}, "TRACE-ARGS", "Dimap.generate", f.get("args") == ARGS, derived=f.get("args"), expected="args (outer)", where=w)
    obs.add({"C15", "C01"}, "TRACE-RETVAL", "Dimap.generate/retval", f.get("retval") == post(ARGS, ia, retval_of(mk_proj(g, 0))), derived=f.get("retval"), expected="post(args, pre(*args), inner retval)", where=w)
    # assess
    r = ev.eval_fn(D.methods["assess"], D.module, D)
    w = W(D, "assess")
    pair = tuple_n(r.ret, 2, "Dimap.assess")
    a = ("call", ("attr", INNER, "assess"), (P("sample"), ia), ())
    obs.add({"C15", "C01", "C02"}, "ASSESS-AGREE", "Dimap.assess/score", pair[0] == mk_proj(a, 0), derived=pair[0], expected="inner assess score", where=w)
    obs.add({"C15", "C01"}, "ASSESS-AGREE", "Dimap.assess/retval", pair[1] == post(ARGS, ia, mk_proj(a, 1)), derived=pair[1], expected="post(args, pre(*args), inner retval) - same argument order as simulate", where=w)
    # project
    r = ev.eval_fn(D.methods["project"], D.module, D)
    obs.add({"C10", "C15"}, "WEIGHT-PROJ", "Dimap.project", r.ret == ("call", ("attr", ("attr", P("trace"), "inner"), "project"), (P("key"), P("selection")), ()), derived=r.ret, expected="trace.inner.project(key, selection)", where=W(D, "project"))
    # edit
    r = ev.eval_fn(D.methods["edit_change_target"], D.module, D)
    w = W(D, "edit_change_target")
    q = tuple_n(main_ret(obs, r, "Dimap.edit_change_target", w, {"C05", "C15"}), 4, "Dimap.edit_change_target")
    AD = P("argdiffs")
    pr, tg = dcall("tree_primal", AD), dcall("tree_tangent", AD)
    INC = G("genjax._src.core.compiler.interpreters.incremental.incremental")
    iad = ("call", ("call", INC, (PRE,), ()), (C(None), pr, tg), ())
    edits = [c for c in mcalls(r.ret, "edit") if c[1][1] == INNER]
    if len(edits) != 1:
        raise AnalysisError("Dimap.edit_change_target: inner edit not found")
    E = edits[0]
    obs.add({"C15", "C08", "C05"}, "TAG-PAIRING", "Dimap.edit/pre", E[2] == (P("key"), ("attr", P("trace"), "inner"), P("request"), iad), derived=show(("tuple", E[2]))[:300],
            expected="inner.edit(key, trace.inner, request, incremental(pre)(None, tree_primal(argdiffs), tree_tangent(argdiffs)))", where=w)
    f = ctor_fields(prog, q[0], "DimapTrace", "Dimap.edit")
    rd = q[2]
    okrd = is_t(rd, "call") and is_t(rd[1], "call") and rd[1][1] == INC and len(rd[2]) == 3 and rd[2][0] == C(None) \
        and rd[2][1] == ("tuple", (pr, dcall("tree_primal", mk_proj(E, 2)))) and rd[2][2] == ("tuple", (tg, dcall("tree_tangent", mk_proj(E, 2))))
    obs.add({"C15", "C08"}, "TAG-PAIRING", "Dimap.edit/post", okrd, derived=rd, expected="incremental(closed_mapping)(None, (primals, primal(inner retdiff)), (tangents, tangent(inner retdiff))) - primal/tangent of the same trees in the same order", where=w)
    if okrd:
        cm = rd[1][2][0]
        if ev.closure_of(cm) is not None or (is_t(cm, "attr") and cm[1] == P("self") and cm[2] in D.methods):
            # a local closure or a method of the combinator: applied to symbolic (args, retval) either way
            rr = ev.apply(cm, [P("$a"), P("$r")], module=D.module, cls=D)
            okc = rr == ("call", POST, (P("$a"), ("call", PRE, (("star", P("$a")),), ()), P("$r")), ())
            obs.add({"C15", "C08", "C01", "C05"}, "DELEG-ROLE", "Dimap.edit/closed_mapping", okc, derived=rr, expected="post(args, pre(*args), retval) - pre recomputed on the NEW primals", where=w)
        else:
            obs.add({"C15", "C08", "C01", "C05"}, "DELEG-ROLE", "Dimap.edit/closed_mapping", False, derived=cm, expected="a local closure or a method of Dimap", where=w)
    obs.add({"C15", "C01", "C05"}, "TRACE-ARGS", "Dimap.edit", f.get("args") == pr, derived=f.get("args"), expected="Diff.tree_primal(argdiffs)", where=w)
    obs.add({"C15", "C01"}, "TRACE-RETVAL", "Dimap.edit/retval", f.get("retval") == dcall("tree_primal", rd), derived=f.get("retval"), expected="primal of the returned retdiff", where=w)
    obs.add({"C15", "C05"}, "WEIGHT-UPD", "Dimap.edit/weight", q[1] == mk_proj(E, 1) and f.get("inner") == mk_proj(E, 0), derived=q[1], expected="inner weight; inner trace", where=w)
    obs.add({"C15", "C06"}, "BWD-OLDVALUES", "Dimap.edit/bwd", q[3] == mk_proj(E, 3), derived=q[3], expected="inner backward request", where=w)
    evd_ = Evaluator(prog)
    evd_.opaque_methods.add("edit_change_target")
    r = evd_.eval_fn(D.methods["edit"], D.module, D)
    ok = r.ret == ("call", ("attr", SELF, "edit_change_target"), (P("key"), P("trace"), P("edit_request"), P("argdiffs")), ())
    obs.add({"C15", "C06"}, "DELEG-ROLE", "Dimap.edit", ok, derived=show(r.ret)[:120], expected="delegates every request to the inner function", where=W(D, "edit"))
    # decorators
    m = D.module
    ev2 = Evaluator(prog)
    _, df = prog.func("dimap", MOD)
    r = ev2.eval_fn(df, m)
    t = ev2.apply(r.ret, [P("f")], module=m)
    obs.add({"C15"}, "COMPOSE", "dimap/decorator", t == ("ctor", "Dimap", (P("f"), P("pre"), P("post")), ()) and D.fields[:3] == ["inner", "argument_mapping", "retval_mapping"], derived=t, expected="Dimap(f, pre, post)", where=f"{m.rel}:{df.lineno}")
    _, mf = prog.func("map", MOD)
    r = ev2.eval_fn(mf, m)
    t = ev2.apply(r.ret, [P("g")], module=m)
    okm = is_t(t, "ctor") and t[1] == "Dimap" and len(t[2]) == 3
    if okm:
        p1 = ev2.apply(t[2][1], [("star", P("$a"))], module=m)
        p2 = ev2.apply(t[2][2], [P("$a"), P("$x"), P("$r")], module=m)
        okm = p1 in (P("$a"), ("tuple", (("star", P("$a")),))) and p2 == ("call", P("f"), (P("$r"),), ())
    obs.add({"C15"}, "COMPOSE", "map", okm, derived=t, expected="dimap(pre=identity, post=(_, _, x) -> f(x))", where=f"{m.rel}:{mf.lineno}")
    _, cf = prog.func("contramap", MOD)
    r = ev2.eval_fn(cf, m)
    t = ev2.apply(r.ret, [P("g")], module=m)
    okc = is_t(t, "ctor") and t[1] == "Dimap" and len(t[2]) == 3 and t[2][1] == P("f")
    if okc:
        p2 = ev2.apply(t[2][2], [P("$a"), P("$x"), P("$r")], module=m)
        okc = p2 == P("$r")
    obs.add({"C15"}, "COMPOSE", "contramap", okc, derived=t, expected="dimap(pre=f, post=identity on the return value)", where=f"{m.rel}:{cf.lineno}")


def analyse_gf_methods(obs: Obs, prog):
    gf = prog.cls("GenerativeFunction", "core/generative/generative_function.py")
    ev = Evaluator(prog)
    W = lambda m: f"{gf.module.rel}:{gf.methods[m].lineno}"
    r = ev.eval_fn(gf.methods["dimap"], gf.module, gf)
    ok = is_t(r.ret, "call") and r.ret[2] == (SELF,) and is_t(r.ret[1], "call") and dict(r.ret[1][3]) == {"pre": P("pre"), "post": P("post")}
    obs.add({"C15"}, "COMPOSE", "GenerativeFunction.dimap", ok, derived=r.ret, expected="genjax.dimap(pre=pre, post=post)(self)", where=W("dimap"))
    r = ev.eval_fn(gf.methods["map"], gf.module, gf)
    ok = is_t(r.ret, "call") and r.ret[2] == (SELF,) and is_t(r.ret[1], "call") and (dict(r.ret[1][3]).get("f") == P("f") or r.ret[1][2] == (P("f"),))
    obs.add({"C15"}, "COMPOSE", "GenerativeFunction.map", ok, derived=r.ret, expected="genjax.map(f)(self)", where=W("map"))
    r = ev.eval_fn(gf.methods["contramap"], gf.module, gf)
    ok = is_t(r.ret, "call") and r.ret[2] == (SELF,) and is_t(r.ret[1], "call") and (dict(r.ret[1][3]).get("f") == P("f") or r.ret[1][2] == (P("f"),))
    obs.add({"C15"}, "COMPOSE", "GenerativeFunction.contramap", ok, derived=r.ret, expected="genjax.contramap(f)(self)", where=W("contramap"))
    r = ev.eval_fn(gf.methods["mask"], gf.module, gf)
    obs.add({"C14", "C16"}, "COMPOSE", "GenerativeFunction.mask", is_t(r.ret, "call") and r.ret[2] == (SELF,), derived=r.ret, expected="genjax.mask(self)", where=W("mask"))
    r = ev.eval_fn(gf.methods["vmap"], gf.module, gf)
    ok = is_t(r.ret, "call") and r.ret[2] == (SELF,) and is_t(r.ret[1], "call") and dict(r.ret[1][3]).get("in_axes") == P("in_axes")
    obs.add({"C11"}, "COMPOSE", "GenerativeFunction.vmap", ok, derived=r.ret, expected="genjax.vmap(in_axes=in_axes)(self)", where=W("vmap"))
    r = ev.eval_fn(gf.methods["scan"], gf.module, gf)
    ok = is_t(r.ret, "call") and r.ret[2] == (SELF,) and is_t(r.ret[1], "call") and dict(r.ret[1][3]).get("n") == P("n")
    obs.add({"C12"}, "COMPOSE", "GenerativeFunction.scan", ok, derived=r.ret, expected="genjax.scan(n=n)(self)", where=W("scan"))
    r = ev.eval_fn(gf.methods["repeat"], gf.module, gf)
    ok = is_t(r.ret, "call") and r.ret[2] == (SELF,) and is_t(r.ret[1], "call") and dict(r.ret[1][3]).get("n") == P("n")
    obs.add({"C11"}, "COMPOSE", "GenerativeFunction.repeat", ok, derived=r.ret, expected="genjax.repeat(n=n)(self)", where=W("repeat"))
    for nm in ("iterate", "iterate_final"):
        r = ev.eval_fn(gf.methods[nm], gf.module, gf)
        ok = is_t(r.ret, "call") and r.ret[2] == (SELF,) and is_t(r.ret[1], "call") and dict(r.ret[1][3]).get("n") == P("n") and r.ret[1][1][1].endswith("." + nm)
        obs.add({"C12"}, "COMPOSE", f"GenerativeFunction.{nm}", ok, derived=r.ret, expected=f"genjax.{nm}(n=n)(self)", where=W(nm))
    for nm in ("accumulate", "reduce", "masked_iterate", "masked_iterate_final"):
        r = ev.eval_fn(gf.methods[nm], gf.module, gf)
        ok = is_t(r.ret, "call") and r.ret[2] == (SELF,) and is_t(r.ret[1], "call") and r.ret[1][1][1].endswith("." + nm)
        obs.add({"C12", "C16"}, "COMPOSE", f"GenerativeFunction.{nm}", ok, derived=r.ret, expected=f"genjax.{nm}()(self)", where=W(nm))


def analyse(obs, prog):
    analyse_gf_methods(obs, prog)
    analyse_mask(obs, prog)
    analyse_dimap(obs, prog)
