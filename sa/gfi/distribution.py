"""Base cases of the GFI induction: Distribution / ExactDensity / DistributionTrace."""

from __future__ import annotations

import ast

from ..linform import lin, show_lin
from ..program import AnalysisError
from ..rules import is_call, is_mcall, mcalls, mentions, mentions_any, calls
from ..terms import C, Evaluator, G, P, is_t, mk_proj, scenarios, show, subterms
from .common import Obs, arms_of, call0, choices_of, cond_has, ctor_fields, is_zero, retval_of, score_of, single, tuple_n

MOD = "distributions/distribution.py"
SELF = P("self")
STAR_ARGS = ("star", P("args"))


def elp(key, v, args):
    return ("call", ("attr", SELF, "estimate_logpdf"), (key, v, ("star", args)), ())


def is_elp(t, v=None, args=None):
    if not (is_mcall(t, "estimate_logpdf") and t[1][1] == SELF and len(t[2]) == 3):
        return False
    if v is not None and t[2][1] != v:
        return False
    if args is not None and t[2][2] != ("star", args):
        return False
    return True


def rw(key, args):
    return ("call", ("attr", SELF, "random_weighted"), (key, ("star", args)), ())


def is_tag(t, tag, inner=None):
    """Diff.no_change(x) / Diff.unknown_change(x)"""
    ok = is_call(t, tag) and len(t[2]) == 1
    return ok and (inner is None or t[2][0] == inner)


def is_empty_chm(t):
    return is_call(t, "empty") and not t[2]


def is_update(t, inner_pred=None):
    return is_t(t, "ctor") and t[1] == "Update" and len(t[2]) == 1 and (inner_pred is None or inner_pred(t[2][0]))


def _is_like(t):
    return is_t(t, "call") and is_t(t[1], "attr") and t[1][2] == "_like" and len(t[2]) == 2


def strip_like(t):
    """Distribution._like(value, proto) changes the dtype of `value` to proto's and nothing else: value-preserving for the provenance comparison
    (that it IS applied, with the right prototype, is the DTYPE-ALIGN obligation)"""
    if _is_like(t):
        return strip_like(t[2][0])
    if isinstance(t, tuple):
        return tuple(strip_like(x) if isinstance(x, tuple) else x for x in t)
    return t


def analyse(obs: Obs, prog):
    ev = Evaluator(prog)
    ev.opaque_methods |= {"estimate_logpdf", "random_weighted", "assess", "sample", "logpdf"}
    D = prog.cls("Distribution", MOD)
    E = prog.cls("ExactDensity", MOD)
    DT = prog.cls("DistributionTrace", MOD)
    W = lambda c, m: f"{c.module.rel}:{c.methods[m].lineno}"

    # ---------------------------------------------------------------- DistributionTrace accessors
    for acc, fld in (("get_args", "args"), ("get_retval", "value"), ("get_score", "score")):
        r = ev.eval_fn(DT.methods[acc], DT.module, DT)
        obs.add({"C01", "C34"}, "TRACE-ACCESSOR", f"DistributionTrace.{acc}", r.ret == ("attr", SELF, fld), derived=r.ret, expected=f"self.{fld}", where=W(DT, acc))
    r = ev.eval_fn(DT.methods["get_choices"], DT.module, DT)
    obs.add({"C01", "C17", "C22"}, "TRACE-CHOICES", "DistributionTrace.get_choices", is_call(r.ret, "choice") and r.ret[2] == (("attr", SELF, "value"),), derived=r.ret,
            expected="ChoiceMap.choice(self.value)", where=W(DT, "get_choices"))
    obs.add({"C01"}, "TRACE-FIELDS", "DistributionTrace", DT.fields == ["gen_fn", "args", "value", "score"], derived=str(DT.fields), expected="gen_fn, args, value, score", where=f"{DT.module.rel}:{DT.node.lineno}")

    # ---------------------------------------------------------------- simulate
    r = ev.eval_fn(D.methods["simulate"], D.module, D)
    f = ctor_fields(prog, r.ret, "DistributionTrace", "Distribution.simulate")
    RW = rw(P("key"), P("args"))
    w = W(D, "simulate")
    obs.add({"C01", "C32"}, "TRACE-ARGS", "Distribution.simulate", f.get("args") == P("args"), derived=f.get("args"), expected="args", where=w)
    obs.add({"C01", "C02", "C24"}, "TRACE-SCORE", "Distribution.simulate", f.get("score") == mk_proj(RW, 0), derived=f.get("score"), expected="random_weighted(key, *args)[0]", where=w)
    obs.add({"C01", "C04"}, "TRACE-RETVAL", "Distribution.simulate", f.get("value") == mk_proj(RW, 1), derived=f.get("value"), expected="random_weighted(key, *args)[1]", where=w)
    obs.add({"C01"}, "TRACE-GENFN", "Distribution.simulate", f.get("gen_fn") == SELF, derived=f.get("gen_fn"), expected="self", where=w)

    # ---------------------------------------------------------------- ExactDensity
    r = ev.eval_fn(E.methods["random_weighted"], E.module, E)
    wv = tuple_n(r.ret, 2, "ExactDensity.random_weighted")
    smp = ("call", ("attr", SELF, "sample"), (P("key"), STAR_ARGS), ())
    w = W(E, "random_weighted")
    obs.add({"C04", "C24", "C02"}, "SAMPLE", "ExactDensity.random_weighted/value", wv[1] == smp, derived=wv[1], expected="self.sample(key, *args)", where=w)
    obs.add({"C02", "C24", "C01"}, "SCORE-AGG", "ExactDensity.random_weighted/score", is_elp(wv[0], smp, P("args")), derived=wv[0], expected="estimate_logpdf(key, <the sampled value>, *args)", where=w)
    r = ev.eval_fn(E.methods["estimate_logpdf"], E.module, E)
    lp = ("call", ("attr", SELF, "logpdf"), (P("v"), STAR_ARGS), ())
    der = r.ret
    shp = ("attr", lp, "shape")

    def scalar_(conds):
        """does this path establish that logpdf's result is a scalar (True), is not (False), or neither (None)?"""
        for c, pol in conds:
            if c == shp:  # `if w.shape:` - a non-empty shape
                return not pol
            if is_t(c, "cmp") and c[1] == "==" and ((c[2] == ("call", G("len"), (shp,), ()) and c[3] == C(0)) or (c[2] == shp and c[3] == ("tuple", ())) or (c[2] == ("attr", lp, "ndim") and c[3] == C(0))):
                return pol
        return None
    ok = True
    for conds, leaf in scenarios(r.ret):
        sc_ = scalar_(conds)
        ok = ok and ((is_call(leaf, "sum") and leaf[2] == (lp,)) or (leaf == lp and sc_ is True))
    obs.add({"C02", "C24"}, "SCORE-AGG", "ExactDensity.estimate_logpdf", ok, derived=der, expected="logpdf(v, *args) summed over its leaves (both arms of the shape test)", where=W(E, "estimate_logpdf"))
    # assess
    r = ev.eval_fn(E.methods["assess"], E.module, E)
    v0 = call0(P("sample"), "get_value")
    n_ok = 0
    for conds, t in scenarios(r.ret):
        pair = tuple_n(t, 2, "ExactDensity.assess")
        masked = cond_has(conds, lambda x: is_t(x, "isinst") and x[2] == "Mask" or (is_t(x, "bool") and any(is_t(y, "isinst") and y[2] == "Mask" for y in x[2])), True)
        val = ("attr", v0, "value") if masked else v0
        inst = "ExactDensity.assess/" + ("mask" if masked else "value")
        obs.add({"C01", "C02", "C24", "C35"}, "ASSESS-AGREE", inst + "/score", is_elp(pair[0], val, P("args")), derived=pair[0], expected=f"estimate_logpdf(key, {show(val)}, *args)", where=W(E, "assess"))
        obs.add({"C01", "C35"}, "ASSESS-AGREE", inst + "/retval", pair[1] == val, derived=pair[1], expected=show(val), where=W(E, "assess"))
        n_ok += 1
    obs.add({"C01", "C35"}, "FLOOR", "ExactDensity.assess/arms", n_ok >= 2, derived=f"{n_ok} arms", expected="Mask arm and plain arm", where=W(E, "assess"))

    # ---------------------------------------------------------------- generate_choice_map
    r = ev.eval_fn(D.methods["generate_choice_map"], D.module, D)
    w = W(D, "generate_choice_map")
    V = call0(P("chm"), "get_value")
    seen = set()
    # DTYPE-ALIGN: a masked constraint goes through a flag-dependent cond whose arms return "the constraint value" and "a sampled value": they must agree on
    # the dtype (lax.cond demands identical output types), so the constraint value is first given the dtype of what the distribution samples.  The unmasked
    # path accepts e.g. a bool for bernoulli or an int for poisson by promotion; the masked path raised TypeError for the same value.
    likes_g = [x for c_, t_ in arms_of(r) for x in subterms(t_) if _is_like(x)]
    okg_ = bool(likes_g) and all(x[2][0] == ("attr", V, "value") and is_call(x[2][1], "eval_shape") for x in likes_g)
    obs.add({"C35", "C03", "C24"}, "DTYPE-ALIGN", "Distribution.generate/masked/dtype", okg_, construct="dtype of a masked constraint value", derived=f"{len(likes_g)} coercion(s): {[show(x)[:120] for x in likes_g[:1]]}",
            expected="the constraint value cast to the dtype of the distribution's samples (abstractly evaluated random_weighted) before the cond", where=w)
    # the prototype may be a Python scalar (a trace built from `C["x"].set(1.0)` holds a float): its dtype is taken by result_type / asarray, not by the
    # attribute `.dtype` (AttributeError: masked updates of such traces crashed)
    lk = D.methods.get("_like")
    if lk is not None:
        rl_ = Evaluator(prog).eval_fn(lk, D.module, D)
        dts = [dict(x[3]).get("dtype") for x in subterms(rl_.ret) if is_call(x, "asarray") and dict(x[3]).get("dtype") is not None]
        raw_attr = [d_ for d_ in dts if is_t(d_, "attr") and d_[2] == "dtype" and is_t(d_[1], "leaf")]
        obs.add({"C35", "C05", "C24"}, "DTYPE-ALIGN", "Distribution._like/scalar-prototype", bool(dts) and not raw_attr, construct="dtype of the prototype value",
                derived=[show(d_)[:80] for d_ in dts], expected="jnp.result_type(proto) (or jnp.asarray(proto).dtype): defined for Python scalars as well as arrays", where=W(D, "_like"))
    for conds, t in [(c_, strip_like(t_)) for c_, t_ in arms_of(r)]:
        pair = tuple_n(t, 2, "Distribution.generate_choice_map")
        tr, wt = pair
        f = ctor_fields(prog, tr, "DistributionTrace", "generate_choice_map")
        none_arm = cond_has(conds, lambda x: x == ("is", V, C(None)), True)
        mask_arm = cond_has(conds, lambda x: (is_t(x, "isinst") and x[1] == V and x[2] == "Mask") or (is_t(x, "bool") and any(is_t(y, "isinst") and y[2] == "Mask" for y in x[2])), True)
        RW = rw(P("key"), P("args"))
        obs.add({"C01", "C03"}, "TRACE-ARGS", "Distribution.generate", f.get("args") == P("args"), derived=f.get("args"), expected="args", where=w)
        if none_arm:
            seen.add("none")
            inst = "Distribution.generate/unconstrained"
            obs.add({"C03"}, "WEIGHT-GEN", inst + "/weight", is_zero(wt), derived=wt, expected="0 (nothing constrained)", where=w)
            obs.add({"C03", "C01"}, "TRACE-SCORE", inst + "/trace", f.get("score") == mk_proj(RW, 0) and f.get("value") == mk_proj(RW, 1), derived=tr, expected="a simulated trace", where=w)
        elif mask_arm:
            seen.add("mask")
            inst = "Distribution.generate/masked"
            val, flag = ("attr", V, "value"), ("attr", V, "flag")
            e = elp(P("key"), val, P("args"))
            want_w = ("phi", flag, e, C(0.0))
            okw = is_t(wt, "phi") and wt[1] == flag and wt[2] == e and is_zero(wt[3])
            obs.add({"C03", "C35", "C23"}, "WEIGHT-GEN", inst + "/weight", okw, derived=wt, expected="flag ? logpdf(constraint value) : 0", where=w)
            sc, vv = f.get("score"), f.get("value")
            oks = is_t(sc, "phi") and sc[1] == flag and sc[2] == e and sc[3] == mk_proj(RW, 0)
            obs.add({"C01", "C03", "C35", "C02", "C23"}, "TRACE-SCORE", inst + "/score", oks, derived=sc, expected="flag ? logpdf(constraint value) : score of the freshly sampled value", where=w)
            okv = is_t(vv, "phi") and vv[1] == flag and vv[2] == val and vv[3] == mk_proj(RW, 1)
            obs.add({"C03", "C35", "C01", "C23"}, "TRACE-RETVAL", inst + "/value", okv, derived=vv, expected="flag ? constraint value : freshly sampled value", where=w)
        else:
            seen.add("value")
            inst = "Distribution.generate/constrained"
            e = elp(P("key"), V, P("args"))
            obs.add({"C03", "C24"}, "WEIGHT-GEN", inst + "/weight", wt == e, derived=wt, expected="estimate_logpdf(key, constraint value, *args)", where=w)
            obs.add({"C03", "C01", "C02"}, "TRACE-SCORE", inst + "/score", f.get("score") == e, derived=f.get("score"), expected="the same log density", where=w)
            obs.add({"C03", "C01"}, "TRACE-RETVAL", inst + "/value", f.get("value") == V, derived=f.get("value"), expected="the constraint's value", where=w)
    obs.add({"C03", "C35"}, "FLOOR", "Distribution.generate/arms", seen == {"none", "mask", "value"}, derived=str(sorted(seen)), expected="none, mask, value arms", where=w)
    # generate delegates
    r = ev.eval_fn(D.methods["generate"], D.module, D)
    tgt = [t for c, t in arms_of(r)]
    gcm = ("call", ("attr", SELF, "generate_choice_map"), (P("key"), P("constraint"), P("args")), ())
    evg_ = Evaluator(prog)
    evg_.opaque_methods.add("generate_choice_map")
    rg_ = evg_.eval_fn(D.methods["generate"], D.module, D)
    okd = len(tgt) == 1 and any(t == ("tuple", (mk_proj(gcm, 0), mk_proj(gcm, 1))) for c, t in arms_of(rg_))
    obs.add({"C03", "C38"}, "DELEG-ROLE", "Distribution.generate", okd, derived=f"{len(tgt)} returning arm(s)", expected="one (ChoiceMap) arm; others raise", where=W(D, "generate"))

    # ---------------------------------------------------------------- edit_update_with_constraint
    r = ev.eval_fn(D.methods["edit_update_with_constraint"], D.module, D)
    w = W(D, "edit_update_with_constraint")
    CV = call0(P("constraint"), "get_value")
    PR = ("call", ("attr", G("genjax._src.core.compiler.interpreters.incremental.Diff"), "tree_primal"), (P("argdiffs"),), ())
    OLD = score_of(P("trace"))
    OLDC = choices_of(P("trace"))
    seen = set()
    likes_u = [x for c_, t_ in arms_of(r) for x in subterms(t_) if _is_like(x)]
    oku_ = bool(likes_u) and all(x[2][0] == ("attr", CV, "value") and x[2][1] == call0(OLDC, "get_value") for x in likes_u)
    obs.add({"C35", "C05", "C24"}, "DTYPE-ALIGN", "Distribution.edit_update/masked/dtype", oku_, construct="dtype of a masked constraint value", derived=f"{len(likes_u)} coercion(s): {[show(x)[:120] for x in likes_u[:1]]}",
            expected="the constraint value cast to the dtype of the trace's old value before the flag-dependent cond", where=w)
    for conds, t in [(c_, strip_like(t_)) for c_, t_ in arms_of(r)]:
        q = tuple_n(t, 4, "edit_update_with_constraint")
        tr, wt, rd, bwd = q
        f = ctor_fields(prog, tr, "DistributionTrace", "edit_update_with_constraint")
        none_arm = cond_has(conds, lambda x: x == ("is", CV, C(None)), True)
        mask_arm = cond_has(conds, lambda x: is_t(x, "isinst") and x[1] == CV and x[2] == "Mask", True)
        pr = f.get("args")
        obs.add({"C05", "C01"}, "TRACE-ARGS", "Distribution.edit_update", is_call(pr, "tree_primal") and pr[2] == (P("argdiffs"),), derived=pr, expected="Diff.tree_primal(argdiffs)", where=w)
        if none_arm:
            seen.add("none")
            inst = "Distribution.edit_update/unconstrained"
            oldv = call0(OLDC, "get_value")
            e = elp(P("key"), oldv, pr)
            form = lin(wt)
            obs.add({"C05", "C08"}, "WEIGHT-UPD", inst + "/weight", form == {frozenset([e]): 1, frozenset([OLD]): -1}, derived=show_lin(form), expected="logpdf(old value | new args) - old score", where=w)
            obs.add({"C05", "C01"}, "TRACE-SCORE", inst + "/trace", f.get("score") == e and f.get("value") == oldv, derived=tr, expected="old value, re-scored at the new arguments", where=w)
            obs.add({"C08", "C05"}, "TAG-NOCHANGE-PROV", inst + "/retdiff", is_tag(rd, "no_change", oldv), derived=rd, expected="Diff.no_change(previous value)", where=w)
            obs.add({"C05", "C06"}, "BWD-OLDVALUES", inst + "/bwd", is_update(bwd, is_empty_chm), derived=bwd, expected="Update(empty)", where=w)
        elif mask_arm:
            seen.add("mask")
            inst = "Distribution.edit_update/masked"
            flag = call0(CV, "primal_flag")
            newv, oldv = ("attr", CV, "value"), call0(OLDC, "get_value")
            e_new, e_old = elp(P("key"), newv, pr), elp(P("key"), oldv, pr)
            okv = f.get("value") == ("phi", flag, newv, oldv)
            obs.add({"C05", "C35", "C23"}, "TRACE-RETVAL", inst + "/value", okv, derived=f.get("value"), expected="flag ? constraint value : old value", where=w)
            oks = f.get("score") == ("phi", flag, e_new, e_old)
            obs.add({"C05", "C35", "C01", "C23"}, "TRACE-SCORE", inst + "/score", oks, derived=f.get("score"), expected="flag ? logpdf(new value) : logpdf(old value), at the new arguments", where=w)
            okw = is_t(wt, "phi") and wt[1] == flag and lin(wt[2]) == {frozenset([e_new]): 1, frozenset([OLD]): -1} and lin(wt[3]) == {frozenset([e_old]): 1, frozenset([OLD]): -1}
            obs.add({"C05", "C35", "C23"}, "WEIGHT-UPD", inst + "/weight", okw, derived=wt, expected="flag ? logpdf(new) - old score : logpdf(old | new args) - old score", where=w)
            okb = is_update(bwd, lambda c: is_mcall(c, "mask") and c[1][1] == OLDC and c[2] == (flag,))
            obs.add({"C05", "C06", "C35"}, "BWD-OLDVALUES", inst + "/bwd", okb, derived=bwd, expected="Update(old choices masked by the flag)", where=w)
            obs.add({"C08"}, "TAG-CONSERVATIVE", inst + "/retdiff", is_tag(rd, "unknown_change", f.get("value")), derived=rd, expected="Diff.unknown_change(new value)", where=w)
        else:
            seen.add("value")
            inst = "Distribution.edit_update/constrained"
            e = elp(P("key"), CV, pr)
            form = lin(wt)
            obs.add({"C05", "C24"}, "WEIGHT-UPD", inst + "/weight", form == {frozenset([e]): 1, frozenset([OLD]): -1}, derived=show_lin(form), expected="logpdf(constraint value | new args) - old score", where=w)
            obs.add({"C05", "C01"}, "TRACE-SCORE", inst + "/trace", f.get("score") == e and f.get("value") == CV, derived=tr, expected="constraint value with its log density", where=w)
            obs.add({"C05", "C06"}, "BWD-OLDVALUES", inst + "/bwd", is_update(bwd, lambda c: c == OLDC), derived=bwd, expected="Update(old choices)", where=w)
            obs.add({"C08"}, "TAG-CONSERVATIVE", inst + "/retdiff", is_tag(rd, "unknown_change", CV), derived=rd, expected="Diff.unknown_change(new value)", where=w)
    obs.add({"C05", "C35"}, "FLOOR", "Distribution.edit_update/arms", seen == {"none", "mask", "value"}, derived=str(sorted(seen)), expected="none, mask, value arms", where=w)

    # ---------------------------------------------------------------- project
    r = ev.eval_fn(D.methods["project"], D.module, D)
    t = r.ret
    chkc = call0(P("selection"), "check")
    okp = is_t(t, "where") and t[1] == chkc and t[2] == OLD and is_zero(t[3])
    obs.add({"C10"}, "WEIGHT-PROJ", "Distribution.project", okp, derived=t, expected="where(selection.check(), trace.get_score(), 0)", where=W(D, "project"))

    # ---------------------------------------------------------------- edit_regenerate
    r = ev.eval_fn(D.methods["edit_regenerate"], D.module, D)
    w = W(D, "edit_regenerate")
    seen = set()
    chk_in = None
    for conds, t in arms_of(r):
        q = tuple_n(t, 4, "edit_regenerate")
        tr, wt, rd, bwd = q
        sel_true = cond_has(conds, lambda x: is_call(x, "concrete_true"), True)
        nochange = cond_has(conds, lambda x: is_call(x, "static_check_no_change"), True)
        for c, pol in conds:
            if is_call(c, "concrete_true") or is_call(c, "concrete_false"):
                chk_in = c[2][0]
        if sel_true:
            seen.add("selected")
            inst = "Distribution.edit_regenerate/selected"
            f = ctor_fields(prog, tr, "DistributionTrace", inst)
            pr = f.get("args")
            RWn = rw(P("key"), pr)
            obs.add({"C07", "C01"}, "TRACE-ARGS", inst + "/args", is_call(pr, "tree_primal") and pr[2] == (P("argdiffs"),), derived=pr, expected="Diff.tree_primal(argdiffs)", where=w)
            obs.add({"C07"}, "REGEN-PRIOR", inst + "/value", f.get("value") == mk_proj(RWn, 1) and f.get("score") == mk_proj(RWn, 0), derived=tr, expected="value and score from random_weighted(key, *new primals)", where=w)
            form = lin(wt)
            obs.add({"C07"}, "WEIGHT-REGEN", inst + "/weight", form == {frozenset([mk_proj(RWn, 0)]): 1, frozenset([OLD]): -1}, derived=show_lin(form), expected="new score - old score", where=w)
            obs.add({"C07", "C06"}, "BWD-OLDVALUES", inst + "/bwd", is_update(bwd, lambda c: is_call(c, "choice") and c[2] == (retval_of(P("trace")),)), derived=bwd, expected="Update(choice(old value))", where=w)
            obs.add({"C08"}, "TAG-CONSERVATIVE", inst + "/retdiff", is_tag(rd, "unknown_change", mk_proj(RWn, 1)), derived=rd, expected="unknown_change(new value)", where=w)
        elif nochange or tr == P("trace"):
            # an arm that returns the INPUT trace is the identity shortcut whatever its guard looks like; the guard is judged below
            seen.add("shortcut")
            inst = "Distribution.edit_regenerate/unselected-nochange"
            guard = [c for c, pol in conds if is_call(c, "static_check_no_change") and pol]
            whole = guard and guard[0][2] == (P("argdiffs"),)
            obs.add({"C07", "C08", "C32"}, "TAG-SHORTCUT-GUARD", inst, tr == P("trace") and whole, construct="identity shortcut guard",
                    derived=f"returns {show(tr)[:60]} under static_check_no_change({show(guard[0][2][0]) if guard else '?'})", expected="the input trace, only when ALL argdiffs are NoChange", where=w)
            obs.add({"C07"}, "WEIGHT-REGEN", inst + "/weight", is_zero(wt), derived=wt, expected="0", where=w)
            obs.add({"C08", "C07"}, "TAG-NOCHANGE-PROV", inst + "/retdiff", is_tag(rd, "no_change", retval_of(P("trace"))), derived=rd, expected="no_change(previous retval)", where=w)
            obs.add({"C07", "C06"}, "BWD-OLDVALUES", inst + "/bwd", is_update(bwd, is_empty_chm), derived=bwd, expected="Update(empty)", where=w)
        else:
            seen.add("rescore")
            inst = "Distribution.edit_regenerate/unselected"
            f = ctor_fields(prog, tr, "DistributionTrace", inst)
            pr = f.get("args")
            # the kept value is re-scored through the interface EVERY Distribution implements (estimate_logpdf, as edit_update does) - `assess` exists on
            # ExactDensity only (the base method raises NotImplementedError), so Marginal / Algorithm / DiscreteHMM sites could not be regenerated around
            ass = ("call", ("attr", SELF, "estimate_logpdf"), (P("key"), call0(OLDC, "get_value"), ("star", pr)), ())
            base_assess = prog.find_method(D, "assess")
            only_exact = base_assess is not None and base_assess[0].name == "Distribution" and all(isinstance(st, ast.Raise) or (isinstance(st, ast.Expr) and isinstance(st.value, ast.Constant)) for st in base_assess[1].body)
            used_assess = mentions_any(f.get("score"), lambda x: is_mcall(x, "assess") and x[1][1] == SELF)
            obs.add({"C07", "C01"}, "REQ-INTERFACE", inst + "/interface", not (used_assess and only_exact), construct="self.assess on the base Distribution",
                    derived=f"score = {show(f.get('score'))[:160]}; Distribution.assess {'only raises NotImplementedError (ExactDensity alone overrides it)' if only_exact else 'is implemented'}",
                    expected="self.estimate_logpdf(key, old value, *new primals) - the density interface of every Distribution", where=w)
            ass_alt = mk_proj(("call", ("attr", SELF, "assess"), (OLDC, pr), ()), 0)  # the same number for an ExactDensity; REQ-INTERFACE judges its availability
            if f.get("score") == ass_alt:
                ass = ass_alt
            obs.add({"C07", "C01"}, "TRACE-SCORE", inst + "/trace", f.get("score") == ass and f.get("value") == call0(OLDC, "get_value") and is_call(pr, "tree_primal"), derived=tr,
                    expected="old value re-scored at the new primals: estimate_logpdf(key, old value, *primals)", where=w)
            form = lin(wt)
            obs.add({"C07"}, "WEIGHT-REGEN", inst + "/weight", form == {frozenset([ass]): 1, frozenset([OLD]): -1}, derived=show_lin(form), expected="new score - old score", where=w)
            obs.add({"C08", "C07"}, "TAG-NOCHANGE-PROV", inst + "/retdiff", is_tag(rd, "no_change", retval_of(P("trace"))), derived=rd, expected="no_change(previous retval)", where=w)
            obs.add({"C07", "C06"}, "BWD-OLDVALUES", inst + "/bwd", is_update(bwd, is_empty_chm), derived=bwd, expected="Update(empty)", where=w)
    obs.add({"C07"}, "FLOOR", "Distribution.edit_regenerate/arms", seen == {"selected", "shortcut", "rescore"}, derived=str(sorted(seen)), expected="selected, shortcut, rescore", where=w)
    okc = chk_in is not None and chk_in == ("cmp", "in", ("tuple", ()), P("selection"))
    obs.add({"C07", "C23"}, "POLARITY", "Distribution.edit_regenerate/check", okc, derived=chk_in, expected="() in selection  (the leaf itself is selected)", where=w)
    third = [x for c, x in r.raises]
    obs.add({"C07", "C23"}, "CONCRETE-ELSE-RAISES", "Distribution.edit_regenerate/traced-flag", len(third) >= 1, derived=f"{len(third)} raising path(s)", expected="a traced (non-concrete) check raises NotImplementedError rather than guessing", where=w)

    # ---------------------------------------------------------------- edit dispatch
    r = ev.eval_fn(D.methods["edit"], D.module, D)
    w = W(D, "edit")
    acc = set()
    for conds, t in arms_of(r):
        for c, pol in conds:
            if pol and is_t(c, "isinst") and c[1] == P("edit_request"):
                acc.add(c[2])
    obs.add({"C06", "C38"}, "REQ-ACCEPT", "Distribution.edit", acc == {"Update", "Regenerate"}, derived=str(sorted(acc)), expected="Update, Regenerate", where=w)
    obs.add({"C06"}, "REQ-EXHAUSTIVE", "Distribution.edit", len(r.raises) >= 1, derived=f"{len(r.raises)} raising default arm(s)", expected="unsupported requests raise", where=w)
    for conds, t in arms_of(r):
        kind = [c[2] for c, pol in conds if pol and is_t(c, "isinst") and c[1] == P("edit_request")]
        if not kind:
            continue
        fld = ("attr", P("edit_request"), "constraint" if kind[0] == "Update" else "selection")
        obs.add({"C05", "C07", "C38"}, "DELEG-ROLE", f"Distribution.edit/{kind[0]}", mentions(t, fld) and mentions(t, P("argdiffs")) and mentions(t, P("trace")) and mentions(t, P("key")),
                derived=show(t)[:160], expected=f"key, trace, request.{fld[2]}, argdiffs forwarded", where=w)
    # edit_update delegates to edit_update_with_constraint for ChoiceMap constraints
    r2 = ev.eval_fn(D.methods["edit_update"], D.module, D)
    obs.add({"C05"}, "DELEG-ROLE", "Distribution.edit_update", len(arms_of(r2)) == 1 and len(r2.raises) >= 1, derived=f"{len(arms_of(r2))} returning / {len(r2.raises)} raising", expected="one ChoiceMap arm", where=W(D, "edit_update"))
