"""Check driver state: obligations, violations, known findings, evidence, exit codes."""

from __future__ import annotations

import hashlib
import json
import os
import re
import sys
import time

from .program import AnalysisError, Program

VERIF = os.path.dirname(os.path.dirname(os.path.abspath(__file__)))
KNOWN = os.path.join(VERIF, "known_findings.json")


def norm_key(rule: str, instance: str, construct: str) -> str:
    c = re.sub(r"\s+", " ", construct.strip())
    return f"{rule}/{instance}/{c}"


class Check:
    def __init__(self, pid: str, tier: str = "quick", seed: int = 0, write_evidence: bool = True):
        self.pid = pid
        self.tier = tier
        self.seed = seed
        self.t0 = time.time()
        self.write_evidence = write_evidence
        self.obligations: list[dict] = []
        self.violations: list[dict] = []
        self.notes: list[str] = []
        self.samples: list = []
        self.assumptions: list[str] = []
        self.explanation = ""
        self.rules: dict[str, int] = {}
        self.floors: list[str] = []
        self.extra: dict = {}
        self.prog: Program | None = None

    # ------------------------------------------------------------------ recording
    def ok(self, rule: str, instance: str, fact: str = "", nontrivial: bool = True):
        self.obligations.append({"rule": rule, "instance": instance, "status": "discharged", "fact": fact[:400], "nontrivial": nontrivial})
        self.rules[rule] = self.rules.get(rule, 0) + 1

    def violation(self, rule: str, instance: str, construct: str, derived: str = "", expected: str = "", where: str = ""):
        key = norm_key(rule, instance, construct)
        self.obligations.append({"rule": rule, "instance": instance, "status": "violated", "fact": derived[:400], "nontrivial": True})
        self.rules[rule] = self.rules.get(rule, 0) + 1
        self.violations.append(
            {"key": key, "rule": rule, "instance": instance, "construct": construct, "derived": derived[:1500], "expected": expected[:800], "where": where}
        )

    def require(self, cond: bool, rule: str, instance: str, construct: str, derived: str = "", expected: str = "", where: str = "", fact: str = ""):
        if cond:
            self.ok(rule, instance, fact or derived)
        else:
            self.violation(rule, instance, construct, derived, expected, where)
        return cond

    def note(self, s: str):
        self.notes.append(s)

    def floor(self, what: str, got: int, need: int):
        """a rule matching fewer instances than confirmed by hand is a broken analysis, not a pass"""
        self.floors.append(f"{what}: {got} >= {need}")
        if got < need:
            raise AnalysisError(f"floor shortfall: {what}: found {got}, confirmed by hand {need}")

    def sample(self, s):
        if len(self.samples) < 12:
            self.samples.append(s if isinstance(s, (dict, list)) else str(s)[:600])

    # ------------------------------------------------------------------ finishing
    def where(self, module, node) -> str:
        return f"{module.rel}:{getattr(node, 'lineno', '?')}"

    def finish(self) -> int:
        known = []
        if os.path.exists(KNOWN):
            known = json.load(open(KNOWN))
        open_keys = {k["key"]: k for k in known if k.get("status") == "open" and k.get("property") == self.pid}
        lines = []
        new = []
        matched = set()
        for v in self.violations:
            if v["key"] in open_keys:
                matched.add(v["key"])
                lines.append(f"KNOWN-FINDING: property={self.pid} {v['key']} :: {open_keys[v['key']].get('what', '')}")
            else:
                new.append(v)
        stale = [k for k in open_keys if k not in matched]
        rc = 0
        replay_dir = os.path.join(VERIF, "evidence", "replay")
        if new:
            rc = 1
            if self.write_evidence:
                os.makedirs(replay_dir, exist_ok=True)
            for i, v in enumerate(new):
                path = os.path.join(replay_dir, f"{self.pid}-{i}.json")
                if self.write_evidence:
                    json.dump({"property": self.pid, **v}, open(path, "w"), indent=1)
                lines.append(f"VIOLATION property={self.pid} replay={path}")
                lines.append(f"  rule={v['rule']} instance={v['instance']} at {v['where']}")
                lines.append(f"  construct: {v['construct']}")
                if v["derived"]:
                    lines.append(f"  derived : {v['derived'][:600]}")
                if v["expected"]:
                    lines.append(f"  expected: {v['expected'][:400]}")
        n_ob = len(self.obligations)
        n_dis = sum(1 for o in self.obligations if o["status"] == "discharged")
        distinct = len({(o["rule"], o["instance"]) for o in self.obligations if o.get("nontrivial")})
        ev = {
            "property_id": self.pid,
            "tier": self.tier,
            "seed": self.seed,
            "level": "other",
            "coverage": {
                "explanation": self.explanation
                or "static obligations (structural induction step per constructor) derived from /repo's current source by ast-based dataflow; no repository code executed",
                "obligations": n_ob,
                "discharged": n_dis,
                "evaluations": max(n_ob, 1),
                "distinct_nontrivial": distinct,
                "rule": "one evaluation = one rule instance (rule, class.method/site) judged on the current tree; non-trivial = the derived fact is not vacuous (anchor present, form recognised); distinct = distinct (rule, instance) pairs",
                "samples": self.samples or [o for o in self.obligations[:5]],
                "rules": self.rules,
                "floors": self.floors,
                "files_analysed": self.prog.stats()["files"] if self.prog else 0,
                "functions_in_package": self.prog.stats()["functions"] if self.prog else 0,
                "modules_consulted": sorted(self.prog.consulted) if self.prog else [],
                "source_digest": self.prog.digest() if self.prog else "",
                "known_findings_matched": sorted(matched),
                "known_findings_stale": sorted(stale),
                "notes": self.notes[:40],
                "violations_detail": [{k: v[k] for k in ("key", "where", "derived", "expected")} for v in self.violations][:20],
                **self.extra,
            },
            "assumptions": self.assumptions
            or ["Python/ast semantics", "JAX primitives (lax.scan/switch/cond/select, vmap, random.split/fold_in) behave as documented", "paper lemma linking the local obligations to the property (DESIGN.md section 5)"],
            "wall_s": round(time.time() - self.t0, 3),
            "violations": len(new),
        }
        if self.write_evidence:
            os.makedirs(os.path.join(VERIF, "evidence"), exist_ok=True)
            json.dump(ev, open(os.path.join(VERIF, "evidence", f"{self.pid}.json"), "w"), indent=1, default=str)
        for s in stale:
            lines.append(f"note: known finding no longer reproduced (stale): {s}")
        print(f"{self.pid} [{self.tier}] obligations={n_ob} discharged={n_dis} violations={len(new)} known={len(matched)} wall={ev['wall_s']}s")
        for l in lines:
            print(l)
        return rc
