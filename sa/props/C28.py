"""C28 - HMC proposals follow leapfrog dynamics and return the MH log ratio.

Decided, by dataflow over the scan kernel of HMC.edit (slots identified by the provenance of their
initial value, not by position or name):
  KICK-1     first half-kick  m' = m + (eps/2) * g_carried
  DRIFT      position step    x' = x + eps * m'
  REGRAD     gradient recomputed by selection_gradient on the trace updated with x'
  KICK-2     second half-kick m'' = m' + (eps/2) * g_recomputed
  CARRY-FRESH every carried slot that the body re-derives is returned in its re-derived version
  ALPHA      alpha = score(final) - score(start) + momenta_score(final) - momenta_score(start)
  only chm.filter(selection) values are moved.
Not decided: symplecticity / invariance (mathematics on top of these facts).
"""
from ..linform import lin, show_lin
from ..program import AnalysisError
from ..rules import is_call, is_mcall, mentions, calls, mcalls
from ..terms import C, Evaluator, P, is_t, mk_proj, show, subterms

MOD = "inference/requests/hmc.py"


def _leaf_form(t):
    """linear form of a tree_map body"""
    if not is_t(t, "treemap"):
        return None
    return lin(t[1])


def run(chk, prog):
    ev = Evaluator(prog)
    ev.fuse_treemaps = False  # the leapfrog step is read stage by stage (kick, drift, kick): the staged leafwise maps are kept apart
    ev.opaque_funcs |= {"selection_gradient", "sample_momenta", "assess_momenta"}
    ci, fn = prog.method("HMC", "edit", MOD)
    where = chk.where(ci.module, fn)
    r = ev.eval_fn(fn, ci.module, ci)
    if not is_t(r.ret, "tuple") or len(r.ret[1]) != 4:
        raise AnalysisError("HMC.edit does not return a 4-tuple")
    final_trace, alpha, retdiff, bwd = r.ret[1]
    if len(ev.scans) != 1:
        raise AnalysisError(f"HMC.edit: expected one lax.scan, found {len(ev.scans)}")
    sid, sc = next(iter(ev.scans.items()))
    init = sc.init[1] if is_t(sc.init, "tuple") else None
    cin = sc.carry_in[1] if is_t(sc.carry_in, "tuple") else None
    cout = sc.carry_out[1] if is_t(sc.carry_out, "tuple") else None
    if not init or not cout or len(init) != len(cout):
        raise AnalysisError("HMC kernel carry is not a fixed-length tuple")
    inst = "HMC.edit.kernel"
    # ---- identify slots by provenance of the initial value
    def slot(pred, what):
        hits = [i for i, t in enumerate(init) if pred(t)]
        if len(hits) != 1:
            raise AnalysisError(f"HMC kernel: cannot identify the {what} slot ({len(hits)} candidates)")
        return hits[0]

    sg0 = [c for c in calls(sc.init, "selection_gradient")]
    if len(sg0) != 1:
        raise AnalysisError("HMC.edit: initial selection_gradient call not found")
    sg0 = sg0[0]
    i_tr = slot(lambda t: t == P("tr"), "trace")
    i_val = slot(lambda t: t == mk_proj(sg0, 0), "values")
    i_grad = slot(lambda t: t == mk_proj(sg0, 1), "gradient")
    i_mom = slot(lambda t: is_t(t, "proj") and t[2] == 0 and is_call(t[1], "sample_momenta"), "momenta")
    chk.sample({"slots": {"trace": i_tr, "values": i_val, "gradient": i_grad, "momenta": i_mom}})
    chk.require(sg0[2][0] == ("attr", P("self"), "selection") and sg0[2][1] == P("tr"), "DELEG-ROLE", inst + "/init-gradient",
                "initial gradient at the start trace for self.selection", derived=show(sg0)[:200], expected="selection_gradient(self.selection, tr, argdiffs)", where=where)
    eps = ("attr", P("self"), "eps")
    m_in, g_in, v_in, t_in = cin[i_mom], cin[i_grad], cin[i_val], cin[i_tr]
    # ---- locate the recomputed gradient in the body
    sgs = [c for c in calls(sc.carry_out, "selection_gradient")]
    chk.require(len(sgs) == 1, "REGRAD", inst + "/regrad", "gradient recomputation in the kernel", derived=f"{len(sgs)} selection_gradient call(s) in the kernel",
                expected="exactly one, on the updated trace", where=where)
    if len(sgs) != 1:
        return
    sg = sgs[0]
    new_trace = sg[2][1]
    edits = [x for x in subterms(new_trace) if is_mcall(x, "edit")]
    okedit = is_t(new_trace, "proj") and new_trace[2] == 0 and is_mcall(new_trace[1], "edit")
    chk.require(okedit, "REGRAD", inst + "/new-trace", "gradient taken at the updated trace", derived=show(new_trace)[:300], expected="Update(x').edit(key', trace, argdiffs)[0]", where=where)
    if not okedit:
        return
    E = new_trace[1]
    req = E[1][1]
    kparent = [x for x in subterms(sc.init) if False]
    ek = E[2][0]
    okkey = is_call(ek, "fold_in") and len(ek[2]) == 2 and ek[2][1] == ("elem", sc.xs) and is_t(ek[2][0], "proj") and is_call(ek[2][0][1], "split")
    chk.require(okkey, "KEY-LOOP", inst + "/edit-key", "a fresh key per leapfrog step", derived=show(ek)[:160], expected="fold_in(key', step seed) with the step seeds scanned over", where=where)
    chk.require(E[2][2] == P("argdiffs"), "DELEG-ROLE", inst + "/edit-argdiffs", "argdiffs forwarded", derived=show(E[2][2])[:80], expected="argdiffs", where=where)
    chk.require(E[2][1] == t_in, "CARRY-THREAD", inst + "/edit-trace", "update applied to the carried trace", derived=show(E[2][1])[:200], expected="the carried trace slot", where=where)
    chk.require(sg[2][0] == ("attr", P("self"), "selection"), "DELEG-ROLE", inst + "/regrad-selection", "same selection", derived=show(sg[2][0]), expected="self.selection", where=where)
    x1 = req[2][0] if is_t(req, "ctor") and req[1] == "Update" and req[2] else None
    chk.require(x1 is not None, "DRIFT", inst + "/request", "positions installed with Update", derived=show(req)[:200], expected="Update(x')", where=where)
    if x1 is None:
        return
    # ---- DRIFT: x' = x + eps * m'
    f = _leaf_form(x1)
    m1 = None
    if f is not None:
        cands = [next(iter(m - {eps})) for m in f if eps in m and len(m) == 2]
        if len(cands) == 1 and is_t(cands[0], "leaf"):
            m1 = cands[0][1]
    okdrift = f is not None and m1 is not None and len(f) == 2 and f.get(frozenset([("leaf", v_in)])) == 1 and f.get(frozenset([eps, ("leaf", m1)])) == 1
    chk.require(okdrift, "DRIFT", inst + "/drift", "position step", derived=show_lin(f)[:300] if f else show(x1)[:300], expected="leaf(x) + eps*leaf(m') with x the carried values", where=where)
    # ---- KICK-1: m' = m + eps/2 * g_carried
    if m1 is not None:
        f1 = _leaf_form(m1)
        ok1 = f1 is not None and len(f1) == 2 and f1.get(frozenset([("leaf", m_in)])) == 1 and f1.get(frozenset([eps, ("leaf", g_in)])) is not None and abs(f1[frozenset([eps, ("leaf", g_in)])] - 0.5) < 1e-9
        chk.require(ok1, "KICK-1", inst + "/kick1", "first half-kick", derived=show_lin(f1)[:300] if f1 else show(m1)[:300], expected="leaf(m) + 1/2*eps*leaf(g) with m, g the carried momenta / gradient", where=where)
    # ---- KICK-2 on the recomputed gradient
    g_new = mk_proj(sg, 1)
    m2 = cout[i_mom]
    f2 = _leaf_form(m2)
    ok2 = f2 is not None and m1 is not None and len(f2) == 2 and f2.get(frozenset([("leaf", m1)])) == 1 and f2.get(frozenset([eps, ("leaf", g_new)])) is not None and abs(f2[frozenset([eps, ("leaf", g_new)])] - 0.5) < 1e-9
    chk.require(ok2, "KICK-2", inst + "/kick2", "second half-kick uses the recomputed gradient", derived=show_lin(f2)[:400] if f2 else show(m2)[:300],
                expected="leaf(m') + 1/2*eps*leaf(g') with g' = selection_gradient(new trace)[1]", where=where)
    # ---- carried outputs
    chk.require(cout[i_tr] == new_trace, "CARRY-THREAD", inst + "/trace-out", "trace slot", derived=show(cout[i_tr])[:200], expected="the updated trace", where=where)
    chk.require(cout[i_val] == mk_proj(sg, 0), "CARRY-THREAD", inst + "/values-out", "values slot", derived=show(cout[i_val])[:200], expected="values re-read from the updated trace", where=where)
    fresh = cout[i_grad] == g_new
    stale = cout[i_grad] == cin[i_grad]
    chk.require(fresh, "CARRY-FRESH", inst, "gradient" if stale else f"gradient <- {show(cout[i_grad])[:80]}", derived=f"gradient slot returned as {show(cout[i_grad])[:160]}",
                expected="the gradient recomputed at the new position (selection_gradient(new_trace)[1]); the carried slot is read by the next first half-kick", where=where)
    # ---- only selected values move: selection_gradient filters by the selection
    m_, sgfn = prog.func("selection_gradient", MOD)
    ev2 = Evaluator(prog)
    r2 = ev2.eval_fn(sgfn, m_)
    flt = [c for c in mcalls(r2.ret, "filter")]
    pos = [c for c in flt if c[2] and c[2][0] == P("selection")]
    neg = [c for c in flt if c[2] and c[2][0] == ("un", "~", P("selection"))]
    chk.require(len(pos) >= 1 and mentions(mk_proj(r2.ret, 0), pos[0]) and not any(mentions(mk_proj(r2.ret, 0), n) for n in neg), "POLARITY", "selection_gradient/moved-values",
                "moved values are chm.filter(selection); the complement is only merged back for assess", derived=show(mk_proj(r2.ret, 0))[:300], expected="values from chm.filter(selection) only", where=chk.where(m_, sgfn))
    ass = [c for c in mcalls(r2.ret, "assess")]
    okass = len(ass) == 1 and is_call(ass[0][2][1], "tree_primal") and len(neg) >= 1 and mentions(ass[0][2][0], neg[0]) and mentions(ass[0][2][0], pos[0])
    chk.require(okass, "DELEG-ROLE", "selection_gradient/assess", "gradient of assess at the primal arguments",
                derived=show(ass[0])[:300] if ass else "no assess call", expected="gen_fn.assess(selected choices merged with the complement, Diff.tree_primal(argdiffs))", where=chk.where(m_, sgfn))
    # ---- grad_tree_unzip / grad_tree_zip partition the choices by differentiability and put them back together
    for fname in ("grad_tree_unzip", "grad_tree_zip"):
        mm_, gf_ = prog.func(fname, MOD)
        evg = Evaluator(prog)
        rg_ = evg.eval_fn(gf_, mm_)
        if fname == "grad_tree_unzip":
            t_ = rg_.ret
            okz = is_t(t_, "tuple") and len(t_[1]) == 2 and all(is_t(x, "treemap") and x[2] == (P("tree"),) for x in t_[1])
            if okz:
                sg_ = ("call", ("global", "genjax._src.core.typing.static_check_supports_grad"), (("leaf", P("tree")),), ())
                okz = t_[1][0][1] == ("phi", sg_, ("leaf", P("tree")), ("const", None)) and t_[1][1][1] == ("phi", sg_, ("const", None), ("leaf", P("tree")))
            chk.require(okz, "GRAD-PARTITION", "grad_tree_unzip", "differentiable leaves / the rest, complementary", derived=show(t_)[:260], expected="(v if supports_grad(v) else None, v if not supports_grad(v) else None)", where=f"{mm_.rel}:{gf_.lineno}")
        else:
            t_ = rg_.ret
            a_, b_ = ("leaf", P("grad_tree")), ("leaf", P("nongrad_tree"))
            okz = is_t(t_, "treemap") and t_[2] == (P("grad_tree"), P("nongrad_tree")) and t_[1] == ("phi", ("is", a_, ("const", None)), b_, a_)
            chk.require(okz, "GRAD-PARTITION", "grad_tree_zip", "takes the differentiable leaf when present", derived=show(t_)[:200], expected="v1 if v1 is not None else v2", where=f"{mm_.rel}:{gf_.lineno}")
    # ---- momenta: one independent key per selected leaf; scored as independent standard normals
    mm_, smf = prog.func("sample_momenta", MOD)
    evs = Evaluator(prog)
    evs.opaque_funcs |= {"assess_momenta", "normal_sample"}
    rs_ = evs.eval_fn(smf, mm_)
    CG = P("choice_gradients")
    seeds = ("call", ("global", "jax.tree_util.tree_unflatten"), (("call", ("global", "jax.tree_util.tree_structure"), (CG,), ()), ("call", ("global", "jax.numpy.arange"), (("call", ("global", "len"), (("call", ("global", "jax.tree_util.tree_leaves"), (CG,), ()),), ()),), ())), ())
    want_m = ("treemap", ("call", ("global", mm_.dotted + ".normal_sample"), (("call", ("global", "jax.random.fold_in"), (P("key"), ("leaf", seeds)), ()), ("attr", ("leaf", CG), "shape")), ()), (CG, seeds))
    # second spelling: flatten, one draw per (position, leaf) of the flattened tree, unflatten with the same tree structure
    def _flat_form(t):
        TU, TF = ("global", "jax.tree_util.tree_unflatten"), ("call", ("global", "jax.tree_util.tree_flatten"), (CG,), ())
        leaves_ok = lambda x: x in (mk_proj(TF, 0), ("call", ("global", "jax.tree_util.tree_leaves"), (CG,), ()))
        tdef_ok = lambda x: x in (mk_proj(TF, 1), ("call", ("global", "jax.tree_util.tree_structure"), (CG,), ()))
        if not (is_t(t, "call") and t[1] == TU and len(t[2]) == 2 and tdef_ok(t[2][0]) and is_t(t[2][1], "fam") and is_t(t[2][1][1], "enumerate") and leaves_ok(t[2][1][1][1])):
            return False
        lv = t[2][1][1][1]
        return t[2][1][2] == ("call", ("global", mm_.dotted + ".normal_sample"), (("call", ("global", "jax.random.fold_in"), (P("key"), ("enumidx", lv)), ()), ("attr", ("elem", lv), "shape")), ())
    okm_ = is_t(rs_.ret, "tuple") and len(rs_.ret[1]) == 2 and (rs_.ret[1][0] == want_m or _flat_form(rs_.ret[1][0])) and is_call(rs_.ret[1][1], "assess_momenta") and rs_.ret[1][1][2] == (rs_.ret[1][0],)
    chk.require(okm_, "KEY-LOOP", "sample_momenta", "independent momentum per selected leaf", derived=show(rs_.ret)[:300], expected="tree_map(normal_sample(fold_in(key, i_leaf), leaf.shape)) with DISTINCT seeds arange(#leaves), and the score of those momenta", where=f"{mm_.rel}:{smf.lineno}")
    _, amf = prog.func("assess_momenta", MOD)
    eva = Evaluator(prog)
    eva.opaque_funcs.add("normal_score")
    ra_ = eva.eval_fn(amf, mm_)
    lvm_ = ("call", ("global", "jax.tree_util.tree_leaves"), (P("momenta"),), ())
    elm_ = ("elem", lvm_)
    oka_ = is_call(ra_.ret, "sum") and any(is_t(x, "fam") and x[1] == lvm_ and is_call(x[2], "normal_score") and x[2][2] in ((("bin", "*", P("mul"), elm_),), (("bin", "*", elm_, P("mul")),)) for x in subterms(ra_.ret))
    chk.require(oka_, "ALPHA", "assess_momenta", "sum over leaves of the standard-normal log density of mul * momentum", derived=show(ra_.ret)[:240], expected="sum(normal_score(mul * v) for every leaf)", where=f"{mm_.rel}:{amf.lineno}")
    # normal_score(v): the standard-normal log density of the WHOLE leaf v, summed over its elements: sum(Normal(0, 1).log_prob(v)), or its closed form
    # -0.5 * (sum(v ** 2) + n * log(2 pi)) - the square inside the sum
    _, nsf = prog.func("normal_score", MOD)
    rns = Evaluator(prog).eval_fn(nsf, mm_)
    V_ = P("v")
    def _lp_form(t):
        inner = t[2][0] if is_call(t, "sum") and t[2] else t
        return is_mcall(inner, "log_prob") and inner[2] == (V_,) and is_call(inner[1][1], "Normal") and tuple(inner[1][1][2]) in ((C(0.0), C(1.0)), (C(0), C(1)))
    def _closed_form(t):
        f_ = lin(t)
        quad_atoms = (("call", ("global", "jax.numpy.sum"), (("bin", "**", V_, C(2)),), ()), ("call", ("global", "jax.numpy.sum"), (("bin", "*", V_, V_),), ()),
                      ("call", ("global", "jax.numpy.sum"), (("call", ("global", "jax.numpy.square"), (V_,), ()),), ()), ("call", ("global", "jax.numpy.vdot"), (V_, V_), ()))
        with_v = [m_ for m_ in f_ if any(mentions(x, V_) and not (is_call(x, "size") or is_call(x, "shape") or (is_t(x, "attr") and x[2] in ("size", "shape"))) for x in m_)]
        return len(with_v) == 1 and len(with_v[0]) == 1 and next(iter(with_v[0])) in quad_atoms and f_[with_v[0]] == -0.5
    rets_ns = [t for c_, t in rns.returns]
    okns = bool(rets_ns) and (all(_lp_form(t) for t in rets_ns) or all(_closed_form(t) for t in rets_ns))
    chk.require(okns, "ALPHA", "normal_score", "standard-normal log density of a momentum leaf", derived=str([show(t)[:120] for t in rets_ns]),
                expected="sum over the elements of Normal(0, 1).log_prob(v)  (closed form: -0.5 * (sum(v ** 2) + n log 2 pi))", where=f"{mm_.rel}:{nsf.lineno}")
    _, shf = prog.func("SafeHMC", MOD)
    rh_ = Evaluator(prog).eval_fn(shf, mm_)
    okh_ = is_mcall(rh_.ret, "map") and rh_.ret[1][1] == ("ctor", "HMC", (P("selection"), P("eps"), P("L")), ())
    chk.require(okh_, "DELEG-ROLE", "SafeHMC", "selection, step size and step count all forwarded", derived=show(rh_.ret)[:160], expected="HMC(selection, eps, L).map(retdiff_assertion)", where=f"{mm_.rel}:{shf.lineno}")
    hc = prog.cls("HMC", MOD)
    chk.require(hc.fields == ["selection", "eps", "L"], "DELEG-ROLE", "HMC/fields", "field order", derived=str(hc.fields), expected="selection, eps, L", where=f"{hc.module.rel}:{hc.node.lineno}")
    lens = [x for x in subterms(r.ret) if is_t(x, "scanfinal")]
    def _n_seeds(t):
        """number of per-step seeds: arange(n) / arange(a, b), possibly shifted elementwise by a constant -> linear form of the length"""
        while is_t(t, "bin") and t[1] in ("+", "-") and (is_t(t[2], "const") or is_t(t[3], "const")):
            t = t[3] if is_t(t[2], "const") else t[2]
        if is_call(t, "arange") and not t[3]:
            if len(t[2]) == 1:
                return lin(t[2][0])
            if len(t[2]) == 2:
                d = dict(lin(t[2][1]))
                for k_, v_ in lin(t[2][0]).items():
                    d[k_] = d.get(k_, 0) - v_
                return {k_: v_ for k_, v_ in d.items() if v_ != 0}
        return None
    chk.require(sc.length == ("attr", P("self"), "L") and _n_seeds(sc.xs) == lin(("attr", P("self"), "L")), "DELEG-ROLE", "HMC.edit/steps", "L leapfrog steps", derived=f"length={show(sc.length)} xs={show(sc.xs)[:80]}", expected="scan(kernel, ..., arange(L) + 1, length=L)", where=where)
    # ---- ALPHA
    fa = lin(alpha)
    fin_t = ("scanfinal", sid, i_tr)
    fin_m = ("scanfinal", sid, i_mom)
    sm = [c for c in calls(sc.init, "sample_momenta")][0]
    exp = {
        frozenset([("call", ("attr", fin_t, "get_score"), (), ())]): 1,
        frozenset([("call", ("attr", P("tr"), "get_score"), (), ())]): -1,
        frozenset([mk_proj(sm, 1)]): -1,
    }
    am = [m for m in fa if len(m) == 1 and is_call(next(iter(m)), "assess_momenta")]
    okalpha = len(fa) == 4 and all(fa.get(k) == v for k, v in exp.items()) and len(am) == 1 and fa[am[0]] == 1 and next(iter(am[0]))[2][0] == fin_m
    chk.require(okalpha, "ALPHA", "HMC.edit/alpha", "alpha linear form", derived=show_lin(fa)[:600],
                expected="+score(final trace) - score(tr) + assess_momenta(final momenta) - sample_momenta(...)[1]", where=where)
    chk.require(final_trace == fin_t, "TRACE-RETVAL", "HMC.edit/trace", "returned trace is the final carried trace", derived=show(final_trace)[:100], expected="final carry trace slot", where=where)
    chk.note(f"scan kernel slots by init provenance: trace={i_tr} values={i_val} gradient={i_grad} momenta={i_mom}")
    # the request is compositional (it implements `edit` itself): it reaches an element of a vector combinator only if the combinator's index edit dispatches
    # through request.edit (REQ-DISPATCH in the vmap / scan analyses), not through gen_fn.edit
    from ._share import take
    take(chk, prog, "C11", lambda o: o["rule"] == "REQ-DISPATCH", "index-edit dispatch obligations (from C11)", 1)
