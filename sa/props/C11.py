"""C11 - vmap/repeat (IDX-ALIGN, in_axes agreement, SCORE-AGG, zero length, repeat wiring).

Induction step of the GFI oracle (DESIGN.md Appendix A): obligations tagged C11 emitted by the constructor analyses in sa/gfi/*.
Decided: the structural clauses named above, for every inner program / input / history at once (inner calls are opaque atoms; IH).
Not decided: numeric agreement up to tolerance; behaviour of JAX primitives.
"""
from ..gfi.all import ALL
from ..gfi.common import run_for


def run(chk, prog):
    n, obs = run_for(chk, prog, "C11", ALL)
    chk.floor("obligations tagged C11", n, 40)
    # "a constraint at index i affects only element i": Indexed.get_inner_map masks the sub-map with (addr == i), and the mask reaches the leaves only if every
    # container's filter / get_inner_map recurses into every child (C17's CHM-RECURSE)
    from ._share import take
    take(chk, prog, "C17", lambda o: o["rule"] == "CHM-RECURSE", "choice-map container recursion (from C17)", 8)
    chk.explanation = "structural-induction obligations for C11: vmap/repeat (IDX-ALIGN, in_axes agreement, SCORE-AGG, zero length, repeat wiring); each inner GFI call is an opaque atom (induction hypothesis), the derived provenance terms / linear forms are compared with the oracle table"
    for o in [o for o in obs.items if "C11" in o["props"]][:6]:
        chk.sample({"rule": o["rule"], "instance": o["instance"], "derived": o["derived"][:200], "expected": o["expected"][:160]})
