"""C06 - backward requests undo edits exactly.

Decided (necessary conditions visible in code shape):
  BWD-CLOSED     every EditRequest class that can reach the 4th return slot of G.edit* is one G.edit dispatches on
  BWD-OLDVALUES  the returned backward constraint derives from the OLD trace's choices / the inner backward requests
  BWD-SELECT     Switch: the backward request comes from the executed branch
  REQ-ACCEPT / REQ-EXHAUSTIVE   dispatch tables and raising default arms
  WEIGHT-UPD / WEIGHT-REGEN and the stored score / args on every edit path: the forward weight telescopes (new score - old score),
                 which is what makes the backward weight its negation.
Not decided: numeric restoration of score / retval by the round trip.
"""
from ..gfi.all import ALL
from ..gfi.common import Obs


def run(chk, prog):
    obs = Obs()
    for fn in ALL:
        fn(obs, prog)
    n = 0
    for o in obs.items:
        on_edit = "edit" in o["instance"]
        take = "C06" in o["props"] or (on_edit and o["rule"] in ("WEIGHT-UPD", "WEIGHT-REGEN", "TRACE-SCORE", "TRACE-ARGS", "SCORE-AGG") and (o["props"] & {"C05", "C07"}))
        if take:
            n += 1
            chk.require(o["ok"], o["rule"], o["instance"], o["construct"], derived=o["derived"], expected=o["expected"], where=o["where"])
    for props, s in obs.notes:
        if "C06" in props:
            chk.note(s)
    chk.floor("obligations for C06", n, 78)
    chk.explanation = "request typestate (which EditRequest classes reach the backward slot vs which the dispatcher accepts), provenance of backward constraints, and telescoping of forward weights on all 9 edit implementers"
    for o in [o for o in obs.items if "C06" in o["props"]][:6]:
        chk.sample({"rule": o["rule"], "instance": o["instance"], "derived": o["derived"][:200], "expected": o["expected"][:160]})
