"""C02 - scores are sums of inner scores exactly once (SCORE-AGG, SCORE-GATE, base logpdf).

Induction step of the GFI oracle (DESIGN.md Appendix A): obligations tagged C02 emitted by the constructor analyses in sa/gfi/*.
Decided: the structural clauses named above, for every inner program / input / history at once (inner calls are opaque atoms; IH).
Not decided: numeric agreement up to tolerance; behaviour of JAX primitives.
"""
from ..gfi.all import ALL
from ..gfi.common import run_for


def run(chk, prog):
    n, obs = run_for(chk, prog, "C02", ALL)
    chk.floor("obligations tagged C02", n, 55)
    # "any program" includes partially applied closures: their assess / simulate paths (stored + given arguments, in that order) - shared with C32
    from ._share import take
    take(chk, prog, "C32", lambda o: ".assess" in o["instance"] or ".simulate" in o["instance"], "closure obligations on the assess / simulate paths (from C32)", 2)
    chk.explanation = "structural-induction obligations for C02: scores are sums of inner scores exactly once (SCORE-AGG, SCORE-GATE, base logpdf); each inner GFI call is an opaque atom (induction hypothesis), the derived provenance terms / linear forms are compared with the oracle table"
    for o in [o for o in obs.items if "C02" in o["props"]][:6]:
        chk.sample({"rule": o["rule"], "instance": o["instance"], "derived": o["derived"][:200], "expected": o["expected"][:160]})
