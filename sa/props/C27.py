"""C27 - Rejuvenate returns the Metropolis-Hastings log acceptance ratio.

Decided (WEIGHT-INF): the returned weight is  +w_model + bwd_proposal_score - fwd_proposal_score  where
  w_model  = weight of the Update edit installing the proposed choices on the *input* trace,
  fwd      = score returned by proposal.propose at arguments mapped from the *current* choices,
  bwd      = proposal.assess(discard, A)[0] with A = argument_mapping(.) depending on the *new* trace,
and the returned trace is the edited trace.  Not decided: numeric values.
"""
from ..linform import lin, show_lin
from ..rules import inner_edit_calls, is_mcall, mcalls, mentions
from ..terms import Evaluator, P, is_t, mk_proj, show

MOD = "inference/requests/rejuvenate.py"


def run(chk, prog):
    ev = Evaluator(prog)
    ci, fn = prog.method("Rejuvenate", "edit", MOD)
    where = chk.where(ci.module, fn)
    r = ev.eval_fn(fn, ci.module, ci)
    items = r.ret[1] if is_t(r.ret, "tuple") else None
    if not items or len(items) != 4:
        from ..program import AnalysisError

        raise AnalysisError("Rejuvenate.edit does not return a 4-tuple")
    new_tr, weight, retdiff, bwd = items
    inst = "Rejuvenate.edit"
    edits = inner_edit_calls(weight)
    model_edits = [e for e in edits if e[2] == P("tr")]
    chk.require(len(model_edits) == 1, "WEIGHT-INF", inst + "/model-edit", "model edit on the input trace",
                derived=f"{len(model_edits)} edit call(s) on `tr` feed the weight", expected="exactly one Update edit of the input trace", where=where)
    if len(model_edits) != 1:
        return
    E, ekey, etr, ereq, eargs = model_edits[0]
    chk.sample({"weight": show(weight)[:500]})
    # the request installs the proposed choices
    props = mcalls(weight, "propose")
    props = [p for p in props if mentions(p, ("attr", P("self"), "proposal"))]
    chk.require(len(props) == 1, "WEIGHT-INF", inst + "/propose", "forward proposal", derived=f"{len(props)} propose call(s)", expected="one", where=where)
    if len(props) != 1:
        return
    prop = props[0]
    chk.require(is_t(ereq, "ctor") and ereq[1] == "Update" and mentions(ereq, mk_proj(prop, 0)), "WEIGHT-INF", inst + "/request",
                "request installs proposed choices", derived=show(ereq)[:300], expected="Update(<choices returned by proposal.propose>)", where=where)
    # forward proposal arguments come from the current choices, not from the edit
    fargs = prop[2][1] if len(prop[2]) > 1 else None
    chk.require(fargs is not None and mentions(fargs, P("tr")) and not mentions(fargs, E), "WEIGHT-INF", inst + "/fwd-args",
                "forward proposal arguments", derived=show(fargs)[:300] if fargs else "none", expected="argument_mapping(current choices of tr)", where=where)
    # linear form
    form = lin(weight)
    w_model = frozenset([mk_proj(E, 1)])
    fwd = frozenset([mk_proj(prop, 1)])
    bwd_terms = [m for m in form if len(m) == 1 and is_t(next(iter(m)), "proj") and next(iter(m))[2] == 0 and is_mcall(next(iter(m))[1], "assess")]
    expected = "+edit(tr)[1] + proposal.assess(discard, argmap(new choices))[0] - proposal.propose(argmap(old choices))[1]"
    okform = len(form) == 3 and form.get(w_model) == 1 and form.get(fwd) == -1 and len(bwd_terms) == 1 and form.get(bwd_terms[0]) == 1
    chk.require(okform, "WEIGHT-INF", inst + "/form", "weight linear form", derived=show_lin(form)[:900], expected=expected, where=where)
    if len(bwd_terms) == 1:
        a = next(iter(bwd_terms[0]))[1]
        sample_, bargs = (a[2] + (None, None))[:2]
        chk.require(sample_ is not None and mentions(sample_, mk_proj(E, 3)), "WEIGHT-INF", inst + "/bwd-sample", "backward proposal assessed on the discard",
                    derived=show(sample_)[:300], expected="the constraint of the backward request returned by the model edit", where=where)
        new_trace = mk_proj(E, 0)
        chk.require(bargs is not None and mentions(bargs, new_trace), "WEIGHT-INF", inst + "/bwd-args", "backward proposal arguments",
                    derived=show(bargs)[:400], expected="argument_mapping(<choices of the NEW trace edit(tr)[0]>)", where=where)
        chk.require(is_mcall(a, "assess") and mentions(a[1], ("attr", P("self"), "proposal")), "WEIGHT-INF", inst + "/bwd-proposal", "backward density from the same proposal",
                    derived=show(a[1])[:200], expected="self.proposal.assess", where=where)
    chk.require(new_tr == mk_proj(E, 0), "TRACE-RETVAL", inst + "/trace", "returned trace", derived=show(new_tr)[:300], expected="the trace produced by the model edit", where=where)
    chk.require(retdiff == mk_proj(E, 2), "TRACE-RETVAL", inst + "/retdiff", "returned retdiff", derived=show(retdiff)[:300], expected="the model edit's retdiff", where=where)
    chk.require(eargs == P("argdiffs") and ekey != prop[2][0], "DELEG-ROLE", inst + "/roles", "argdiffs and distinct keys",
                derived=f"argdiffs={show(eargs)[:80]} edit-key={show(ekey)[:80]} propose-key={show(prop[2][0])[:80]}", expected="argdiffs forwarded; proposal and model edit use different keys", where=where)
    # the request is compositional (it implements `edit` itself): it reaches an element of a vector combinator only if the combinator's index edit dispatches
    # through request.edit (REQ-DISPATCH in the vmap / scan analyses), not through gen_fn.edit
    from ._share import take
    take(chk, prog, "C11", lambda o: o["rule"] == "REQ-DISPATCH", "index-edit dispatch obligations (from C11)", 1)
    # the backward proposal term is scored at the OLD values, which Rejuvenate reads from the discard of the inner Update: the discard obligations of the
    # distributions (BWD-OLDVALUES, shared with C05 / C06)
    # the forward proposal score is proposal.propose(...)'s score: the derived method, defined once as the score of one simulate (C38's rules on it)
    take(chk, prog, "C38", lambda o: o["instance"] in ("GenerativeFunction.propose", "GenerativeFunction/derived-methods"), "propose is the inherited derived method (from C38)", 2)
    take(chk, prog, "C13", lambda o: o["rule"] == "BWD-SELECT", "the discard of a switch model comes from the branch the trace had (from C13)", 1)
    take(chk, prog, "C05", lambda o: o["rule"] == "BWD-OLDVALUES" and o["instance"].startswith("Distribution."), "discard obligations of Distribution edits (from C05)", 2)
