"""C14 - mask (SCORE-GATE on 5 outputs, 4-row transition table by finite case split).

Induction step of the GFI oracle (DESIGN.md Appendix A): obligations tagged C14 emitted by the constructor analyses in sa/gfi/*.
Decided: the structural clauses named above, for every inner program / input / history at once (inner calls are opaque atoms; IH).
Not decided: numeric agreement up to tolerance; behaviour of JAX primitives.
"""
from ..gfi.all import ALL
from ..gfi.common import run_for


def run(chk, prog):
    n, obs = run_for(chk, prog, "C14", ALL)
    chk.floor("obligations tagged C14", n, 24)
    # every wrapping of the combinator (return value, and choices via ChoiceMap.mask -> Choice.filter) goes through Mask.build: its table (C19), in particular the
    # arm that re-masks an existing Mask (flags AND-ed, per-entry flags of a vectorised inner mask kept), is a necessary condition of "True is transparent"
    from ..report import Check
    from . import C19

    tmp = Check("C19", chk.tier, chk.seed, write_evidence=False)
    tmp.nested = True
    C19.run(tmp, prog)
    viol = {(v["rule"], v["instance"]): v for v in tmp.violations}
    n19 = 0
    for o in tmp.obligations:
        if not o["instance"].startswith("Mask.build"):
            continue
        n19 += 1
        v = viol.get((o["rule"], o["instance"]))
        if v:
            chk.violation(v["rule"], v["instance"], v["construct"], v["derived"], v["expected"], v["where"])
        else:
            chk.ok(o["rule"], o["instance"], o["fact"])
    chk.floor("Mask.build obligations (from C19)", n19, 1)
    chk.explanation = "structural-induction obligations for C14: mask (SCORE-GATE on 5 outputs, 4-row transition table by finite case split); each inner GFI call is an opaque atom (induction hypothesis), the derived provenance terms / linear forms are compared with the oracle table"
    for o in [o for o in obs.items if "C14" in o["props"]][:6]:
        chk.sample({"rule": o["rule"], "instance": o["instance"], "derived": o["derived"][:200], "expected": o["expected"][:160]})
