"""C08 - change tags are sound: NoChange really means unchanged.

Decided: TAG-NOCHANGE-PROV (at every Diff.no_change site feeding a returned retdiff the tagged value is the previous retval / unchanged data);
TAG-SHORTCUT-GUARD (an edit path returning the *input trace itself* is control-dependent on static_check_no_change of the WHOLE argdiffs);
TAG-PROPAGATE (default_propagation_rule: the check ranges over all inputs and is computed before primals are stripped; both arms tag all outputs);
TAG-PAIRING (incremental(f)(h, primals, tangents) / Diff.tree_diff(p, t) pair the primal and tangent projections of the same tree in the same order);
SIBLING-NORMALISE (a partly constant return value keeps the tags of its Diff leaves); TAG-BRANCH-INVENTORY (every place where control flow depends on a tag is
an identity shortcut, an assertion, or the documented Switch index trigger); conservative forcing (unknown_change) is recorded, not judged.
Not decided: value equality of a NoChange-tagged primal that is *recomputed* through incremental(post) (reduced to C09).
"""
import ast

from ..gfi.all import ALL
from ..gfi.common import run_for
from ..program import AnalysisError
from ..rules import Arms, is_call, is_mcall
from ..terms import C, Evaluator, G, P, is_t, mk_proj, show, subterms
from .C38 import request_combinators

INC = "core/compiler/interpreters/incremental.py"
DIFFG = G("genjax._src.core.compiler.interpreters.incremental.Diff")

# functions allowed to branch on a change tag, and why (inventory frozen from today's tree; thorough tier lists new ones as unreviewed)
TAG_BRANCH_SITES = {
    "EmptyRequest.edit": "identity shortcut (guarded by all argdiffs)",
    "Distribution.edit_regenerate": "identity shortcut (guarded by all argdiffs)",
    "Vmap.edit_index": "assertion",
    "Scan.edit_index": "assertions",
    "HMC.edit": "assertion",
    "SafeHMC.retdiff_assertion": "assertion",
    "Switch.edit": "documented resampling trigger (index tag)",
    "default_propagation_rule": "the propagation rule itself",
    "StaticGenerativeFunction.edit_regenerate": "optional normalisation test (static_check_tree_diff)",
}


def _single_pass(ev, leaves, tang) -> bool:
    from ._diff import component
    from ..rules import Undecided, pick
    L = ("elem", leaves)
    kw = dict(leaves[3])
    if "is_leaf" not in kw:
        return False
    X = P("$x")
    try:
        il = ev.apply(kw["is_leaf"], [X])
    except Exception:
        return False
    def stops_at_diff(c):
        if is_call(c, "is_diff") and c[2] == (X,):
            return True
        if is_t(c, "isinst") and c[1] == X and c[2] == "Diff":
            return True
        if is_t(c, "bool") and c[1] == "or":
            return any(stops_at_diff(x) for x in c[2])
        if is_t(c, "phi") and c[2] is True:  # a or b  ==  True if a else b
            return stops_at_diff(c[1]) or stops_at_diff(c[3])
        return False
    if not stops_at_diff(il):
        return False
    got = []
    for kind in ("Diff", "ChangeTangent", None):
        def atom(c, kind=kind):
            if is_t(c, "isinst") and c[1] == L and c[2] in ("Diff", "ChangeTangent"):
                return c[2] == kind
            if is_call(c, "is_diff") and c[2] == (L,):
                return kind == "Diff"
            if is_call(c, "is_change_tangent") and c[2] == (L,):
                return kind == "ChangeTangent"
            raise Undecided(show(c))
        try:
            got.append(pick(tang, atom))
        except Undecided:
            return False
    return component(L, got[0], "tangent") and got[1] == L and is_t(got[2], "global") and got[2][1].endswith(".NoChange")


def propagate(chk, prog):
    m, fn = prog.func("default_propagation_rule", INC)
    ev = Evaluator(prog)
    r = ev.eval_fn(fn, m)
    where = f"{m.rel}:{fn.lineno}"
    A = P("args")
    chkt = ("call", ("attr", DIFFG, "static_check_no_change"), (A,), ())
    prim = ("call", ("attr", DIFFG, "tree_primal"), (A,), ())
    bind = ("call", ("attr", P("prim"), "bind"), (("star", prim),), (("**", P("_params")),))
    want = ("phi", chkt, ("call", ("attr", DIFFG, "no_change"), (bind,), ()), ("call", ("attr", DIFFG, "unknown_change"), (bind,), ()))
    # decided per outcome of the static check, in either spelling of the constant tagging (Diff.no_change(out) / tree_map(v -> Diff(v, NoChange), out))
    from ..terms import renorm, resolve
    okdp = True
    for pol_, tagm, tagc in ((True, "no_change", "NoChange"), (False, "unknown_change", "UnknownChange")):
        leaf_ = renorm(resolve(r.ret, chkt, pol_))
        okdp = okdp and (leaf_ == ("call", ("attr", DIFFG, tagm), (bind,), ())
                         or (is_t(leaf_, "treemap") and leaf_[2] == (bind,) and is_t(leaf_[1], "ctor") and leaf_[1][1] == "Diff" and leaf_[1][2][:1] == (("leaf", bind),) and len(leaf_[1][2]) == 2
                             and is_t(leaf_[1][2][1], "global") and leaf_[1][2][1][1].endswith("." + tagc)))
    okdp = okdp and any(is_t(x, "phi") and x[1] == chkt for x in subterms(r.ret))
    chk.require(okdp, "TAG-PROPAGATE", "default_propagation_rule", "NoChange iff all inputs NoChange",
                derived=show(r.ret)[:400], expected="check = static_check_no_change(ALL args) computed on the Diff-tagged args; bind on the primals; no_change(out) if check else unknown_change(out)", where=where)
    D = prog.cls("Diff", INC)
    r = ev.eval_fn(D.methods["static_check_no_change"], D.module, D)
    t = r.ret
    # all(map(f, leaves)) and all(f(x) for x in leaves) are one term: the family of f over the leaves
    ok = is_call(t, "all") and len(t[2]) == 1 and is_t(t[2][0], "fam")
    if ok:
        leaves, rr = t[2][0][1], t[2][0][2]
        ok = is_t(rr, "isinst") and rr[1] == ("elem", leaves) and rr[2] == "_NoChange" and is_call(leaves, "tree_leaves") and is_call(leaves[2][0], "tree_tangent") and leaves[2][0][2] == (P("v"),)
        if not ok and is_t(rr, "isinst") and rr[2] == "_NoChange" and is_call(leaves, "tree_leaves") and leaves[2][:1] == (P("v"),):
            # one pass over the leaves of v itself (each Diff ONE leaf): the tangent of a leaf by kind -- the Diff's tangent; a bare tangent itself; NoChange for a plain value
            ok = _single_pass(ev, leaves, rr[1])
    chk.require(ok, "TAG-PROPAGATE", "Diff.static_check_no_change", "universal test over every tangent leaf", derived=show(t)[:300], expected="all(isinstance(leaf, _NoChange) for leaf in leaves(tree_tangent(v)))", where=f"{D.module.rel}:{D.methods['static_check_no_change'].lineno}")
    # tree_tangent of a non-Diff leaf is NoChange; tree_primal is the identity on it (used by the normalisation)
    for meth, want_diff, want_plain in (("tree_primal", "get_primal", "v"), ("tree_tangent", "get_tangent", "NoChange")):
        from ._diff import component, leaf_cases, leaf_projection
        from ..rules import Undecided
        oks_, L_, body_, _okleaf, _txt = leaf_projection(prog, meth)
        got = {}
        okd = False
        if oks_:
            try:
                dv, pv = leaf_cases(L_, body_)
                got = {"diff": dv, "plain": pv}
                okd = component(L_, dv, "primal" if meth == "tree_primal" else "tangent") and (pv == L_ if want_plain == "v" else (is_t(pv, "global") and pv[1].endswith("NoChange")))
            except Undecided as e_:
                raise AnalysisError(f"Diff.{meth}: unrecognised leaf test {e_}")
        chk.require(okd, "TAG-PROPAGATE", f"Diff.{meth}", f"leafwise projection", derived={k: show(v) for k, v in got.items()}.__str__(), expected=f"Diff -> {want_diff}(); plain leaf -> {want_plain}", where=f"{D.module.rel}:{D.methods[meth].lineno}")


def inventory(chk, prog):
    """every function whose control flow depends on a change tag"""
    found = {}
    for rel, m in prog.modules.items():
        def visit(node, qual):
            for ch in ast.iter_child_nodes(node):
                q = qual
                if isinstance(ch, (ast.FunctionDef, ast.ClassDef)):
                    q = (qual + "." if qual else "") + ch.name
                if isinstance(ch, (ast.If, ast.Assert, ast.IfExp, ast.While)):
                    src = ast.unparse(ch.test)
                    if "static_check_no_change" in src or "== NoChange" in src or "== UnknownChange" in src:
                        found.setdefault((rel, qual), []).append((type(ch).__name__, ch.lineno, src[:80]))
                visit(ch, q)
        visit(m.tree, "")
    unreviewed = []
    for (rel, qual), hits in sorted(found.items()):
        short = ".".join(qual.split(".")[-2:]) if qual.count(".") else qual
        why = TAG_BRANCH_SITES.get(short) or TAG_BRANCH_SITES.get(qual)
        if why:
            chk.ok("TAG-BRANCH-INVENTORY", short, f"{hits[0][0]} at {rel}:{hits[0][1]} `{hits[0][2]}` - {why}")
        else:
            unreviewed.append(f"{rel}:{qual} `{hits[0][2]}`")
            chk.note("unreviewed tag-dependent branch (not judged, not alarmed): " + unreviewed[-1])
    chk.floor("functions whose control flow depends on a change tag", len(found), 7)
    chk.extra["unreviewed_tag_branches"] = unreviewed
    # Diff.no_change sites outside incremental.py (recorded)
    sites = []
    for rel, m in prog.modules.items():
        if rel.endswith("incremental.py"):
            continue
        for n in ast.walk(m.tree):
            if isinstance(n, ast.Call) and ast.unparse(n.func) == "Diff.no_change":
                sites.append(f"{rel}:{n.lineno} Diff.no_change({ast.unparse(n.args[0])[:50]})")
    # (an inventory, recorded in the evidence; shared helpers legitimately merge sites, so the floor only guards against an empty scan)
    chk.floor("Diff.no_change sites outside incremental.py", len(sites), 4)
    chk.extra["no_change_sites"] = sites


def run(chk, prog):
    n, obs = run_for(chk, prog, "C08", ALL)
    chk.floor("obligations tagged C08", n, 28)
    propagate(chk, prog)
    request_combinators(chk, prog)
    inventory(chk, prog)
    chk.explanation = "provenance of NoChange tags at every tagging site, guards of identity shortcuts, the propagation rule of the incremental interpreter, pairing of primal/tangent trees, inventory of tag-dependent branches"
    for o in [o for o in obs.items if "C08" in o["props"]][:5]:
        chk.sample({"rule": o["rule"], "instance": o["instance"], "derived": o["derived"][:160]})
