"""C32 - generative function closures and keyword handling are transparent.

Decided: DELEG-PREFIX / DELEG-ROLE on every forwarding call of GenerativeFunctionClosure and IgnoreKwargs,
DELEG-TOTAL (every GFI method is forwarded), kwargs path uses handle_kwargs() and the (args, kwargs) pair,
StaticGenerativeFunction.handle_kwargs / partial_apply / Closure.__call__ wiring.
Not decided: behaviour of the wrapped function (induction hypothesis).
"""
from ..program import AnalysisError
from ..rules import is_call, is_mcall, mentions
from ..terms import C, Evaluator, G, P, is_t, mk_proj, scenarios, show, subterms

GF = "core/generative/generative_function.py"
SELF_ARGS = ("attr", P("self"), "args")
SELF_KW = ("attr", P("self"), "kwargs")
SELF_GF = ("attr", P("self"), "gen_fn")

GFI = {
    "simulate": ["key", "args"],
    "generate": ["key", "constraint", "args"],
    "assess": ["sample", "args"],
    "edit": ["key", "trace", "edit_request", "argdiffs"],
    "project": ["key", "trace", "selection"],
}


def leaves(t):
    """the term under every outcome of the joins occurring in it (top level, receiver or argument position alike)"""
    return scenarios(t)


def _tagged(t, base):
    """base, or base conservatively tagged (Diff.unknown_change(base)).  Diff.no_change(base) is NOT accepted: the closure's stored
    arguments need not equal the ones the trace was made with, and a NoChange tag lets callees skip re-scoring (C08)"""
    return t == base or (is_call(t, "unknown_change") and len(t[2]) == 1 and t[2][0] == base)


def _full(t, argname):
    """stored arguments first, then the call's own arguments"""
    return is_t(t, "bin") and t[1] == "+" and _tagged(t[2], SELF_ARGS) and t[3] == P(argname)


def run(chk, prog):
    ev = Evaluator(prog)
    ci = prog.cls("GenerativeFunctionClosure", GF)
    ik = prog.cls("IgnoreKwargs", GF)
    # ---------------------------------------------------------------- DELEG-TOTAL
    for c in (ci, ik):
        missing = [m for m in GFI if m not in c.methods]
        chk.require(not missing, "DELEG-TOTAL", c.name, "GFI methods forwarded", derived=f"missing {missing}", expected="simulate, generate, assess, edit, project all defined", where=f"{c.module.rel}:{c.node.lineno}")
    n_sites = 0
    # ---------------------------------------------------------------- closure
    for m, params in GFI.items():
        if m not in ci.methods:
            continue
        fn = ci.methods[m]
        where = chk.where(ci.module, fn)
        r = ev.eval_fn(fn, ci.module, ci)
        argname = params[-1]
        for conds, leaf in leaves(r.ret):
            inst = f"GenerativeFunctionClosure.{m}/{'kwargs' if any(c[0] == SELF_KW and c[1] for c in conds) else 'plain'}"
            if not is_mcall(leaf, m):
                chk.violation("DELEG-ROLE", inst, "forwarding call", derived=show(leaf)[:300], expected=f"a call of the wrapped function's {m}", where=where)
                continue
            n_sites += 1
            rc, a = leaf[1][1], leaf[2]
            on_kw = any(c[0] == SELF_KW and c[1] for c in conds)
            if m == "project":
                chk.require(rc == SELF_GF and list(a) == [P(p) for p in params], "DELEG-ROLE", inst, "project forwarded", derived=show(leaf)[:300], expected="self.gen_fn.project(key, trace, selection)", where=where)
                continue
            # receiver
            if on_kw:
                okr = is_mcall(rc, "handle_kwargs") and rc[1][1] == SELF_GF
                chk.require(okr, "DELEG-ROLE", inst + "/receiver", "kwargs path goes through handle_kwargs()", derived=show(rc)[:200], expected="self.gen_fn.handle_kwargs()", where=where)
            else:
                chk.require(rc == SELF_GF, "DELEG-ROLE", inst + "/receiver", "receiver", derived=show(rc)[:200], expected="self.gen_fn", where=where)
            # leading roles
            lead_ok = len(a) == len(params) and list(a[:-1]) == [P(p) for p in params[:-1]]
            chk.require(lead_ok, "DELEG-ROLE", inst + "/roles", "key / trace / constraint / request forwarded in place", derived=show(("tuple", tuple(a[:-1])))[:300], expected=str(params[:-1]), where=where)
            if len(a) != len(params):
                continue
            last = a[-1]
            if on_kw:
                ok = is_t(last, "tuple") and len(last[1]) == 2 and _full(last[1][0], argname) and _tagged(last[1][1], SELF_KW)
                exp = f"((self.args + {argname}), self.kwargs)"
            else:
                ok = _full(last, argname)
                exp = f"self.args + {argname}"
            chk.require(ok, "DELEG-PREFIX", inst, "forwarded arguments", derived=show(last)[:300], expected=exp + " (stored arguments prepended)", where=where)
    # __call__ / __abstract_call__ / __matmul__ : same prefix discipline
    for m in ("__call__", "__abstract_call__"):
        if m in ci.methods:
            evc = Evaluator(prog)
            evc.opaque_methods.add("_with_kwargs")
            r = evc.eval_fn(ci.methods[m], ci.module, ci)
            full = ("bin", "+", SELF_ARGS, P("args"))
            kwm = [x for x in subterms(r.ret) if is_t(x, "bin") and x[1] == "|" and {x[2], x[3]} == {SELF_KW, P("kwargs")}]
            okshape = False
            rets = [t for _, t in scenarios(r.ret)]
            if m == "__call__":
                want_plain = ("call", ("attr", ("call", ("attr", SELF_GF, "simulate"), (P("key"), full), ()), "get_retval"), (), ())
                okshape = len(rets) == 2 and want_plain in rets and any(is_mcall(t, "get_retval") and is_mcall(t[1][1], "simulate") and t[1][1][2][0] == P("key") and is_t(t[1][1][2][1], "tuple") and t[1][1][2][1][1][0] == full and t[1][1][2][1][1][1] in kwm for t in rets)
                exp = "gen_fn.simulate(key, self.args + args).get_retval()  /  kwarged.simulate(key, (self.args + args, merged kwargs)).get_retval()"
            else:
                want_plain = ("call", ("attr", SELF_GF, "__abstract_call__"), (("star", full),), ())
                okshape = len(rets) == 2 and want_plain in rets and any(is_mcall(t, "__abstract_call__") and t[2] and t[2][0] == full and len(t[2]) == 2 and t[2][1] in kwm for t in rets)
                exp = "gen_fn.__abstract_call__(*(self.args + args))  /  kwarged.__abstract_call__(self.args + args, merged kwargs)"
            chk.require(okshape, "DELEG-PREFIX", f"GenerativeFunctionClosure.{m}", "forwarded arguments", derived=show(r.ret)[:300], expected=exp, where=chk.where(ci.module, ci.methods[m]))
            n_sites += 1
    # the two call forms merge call-time keywords over the stored ones in the SAME order (`__abstract_call__` gives the shape `__call__` then produces)
    merges = {}
    for m in ("__call__", "__abstract_call__"):
        if m in ci.methods:
            evc = Evaluator(prog)
            evc.opaque_methods.add("_with_kwargs")
            rr_ = evc.eval_fn(ci.methods[m], ci.module, ci)
            mm_ = [x for x in subterms(rr_.ret) if is_t(x, "bin") and x[1] == "|" and {x[2], x[3]} == {SELF_KW, P("kwargs")}]
            merges[m] = mm_[0] if mm_ else None
    chk.require(len(merges) == 2 and merges["__call__"] is not None and merges["__call__"] == merges["__abstract_call__"] and merges["__call__"][2] == SELF_KW, "DELEG-PREFIX", "GenerativeFunctionClosure/kwargs-precedence",
                "keyword merge order", derived=str({k: show(v) for k, v in merges.items()}), expected="self.kwargs | kwargs in both (call-time keywords win)", where=chk.where(ci.module, ci.methods["__call__"]))
    # update on a closure / kwargs wrapper: the derived GenerativeFunction.update must perform the edit through SELF (C38's rule on it, taken below), and the
    # wrappers must not shadow it with something else
    for c_ in (ci, ik):
        if "update" in c_.methods:
            ru = Evaluator(prog)
            ru.opaque_methods.add("edit")
            rr_u = ru.eval_fn(c_.methods["update"], c_.module, c_)
            E_ = ("call", ("attr", P("self"), "edit"), (P("key"), P("trace"), ("ctor", "Update", (P("constraint"),), ()), P("argdiffs")), ())
            want_u = ("tuple", (mk_proj(E_, 0), mk_proj(E_, 1), mk_proj(E_, 2), ("attr", mk_proj(E_, 3), "constraint")))
            chk.require(rr_u.ret == want_u, "DELEG-ROLE", f"{c_.name}.update", "update override of a wrapper", derived=show(rr_u.ret)[:240], expected="self.edit(key, trace, Update(constraint), argdiffs) with the backward constraint unwrapped", where=chk.where(c_.module, c_.methods["update"]))
    from ._share import take
    take(chk, prog, "C38", lambda o: o["instance"] == "GenerativeFunction.update", "derived update performs the edit through self (from C38)", 1)
    # IgnoreKwargs.__abstract_call__ receives the (args, kwargs) pair like its GFI methods and forwards the positional part only
    ra = Evaluator(prog).eval_fn(ik.methods["__abstract_call__"], ik.module, ik)
    A_ = P("args")
    oka = ra.ret in (("call", ("attr", ("attr", P("self"), "wrapped"), "__abstract_call__"), (("star", mk_proj(A_, 0)),), ()),)
    chk.require(oka, "DELEG-ROLE", "IgnoreKwargs.__abstract_call__", "abstract call of a keyword-ignoring wrapper", derived=show(ra.ret)[:200], expected="self.wrapped.__abstract_call__(*args[0]) - the pair (args, kwargs) is split, the keywords dropped", where=chk.where(ik.module, ik.methods["__abstract_call__"]))
    if "__matmul__" in ci.methods:
        fn = ci.methods["__matmul__"]
        r = ev.eval_fn(fn, ci.module, ci)
        for conds, leaf in leaves(r.ret):
            on_kw = any(c[0] == SELF_KW and c[1] for c in conds)
            inst = f"GenerativeFunctionClosure.__matmul__/{'kwargs' if on_kw else 'plain'}"
            ok = is_call(leaf, "trace") and len(leaf[2]) == 3 and leaf[2][0] == P("addr")
            if ok and on_kw:
                ok = is_mcall(leaf[2][1], "handle_kwargs") and leaf[2][2] == ("tuple", (SELF_ARGS, SELF_KW))
            elif ok:
                ok = leaf[2][1] == SELF_GF and leaf[2][2] == SELF_ARGS
            chk.require(ok, "DELEG-ROLE", inst, "trace(addr, gen_fn, args)", derived=show(leaf)[:300], expected="trace(addr, self.gen_fn[.handle_kwargs()], self.args[, self.kwargs])", where=chk.where(ci.module, fn))
            n_sites += 1
    # ---------------------------------------------------------------- IgnoreKwargs
    W = ("attr", P("self"), "wrapped")
    for m, params in GFI.items():
        if m not in ik.methods:
            continue
        fn = ik.methods[m]
        where = chk.where(ik.module, fn)
        r = ev.eval_fn(fn, ik.module, ik)
        inst = f"IgnoreKwargs.{m}"
        leaf = r.ret
        if not is_mcall(leaf, m) or leaf[1][1] != W:
            chk.violation("DELEG-ROLE", inst, "forwarding call", derived=show(leaf)[:300], expected=f"self.wrapped.{m}(...)", where=where)
            continue
        n_sites += 1
        a = leaf[2]
        exp = [P(p) for p in params]
        if m != "project":
            exp[-1] = mk_proj(P(params[-1]), 0)  # positional part of the (args, kwargs) pair
        chk.require(list(a) == exp, "DELEG-ROLE", inst, "arguments forwarded (positional part of the (args, kwargs) pair)", derived=show(("tuple", a))[:300], expected=show(("tuple", tuple(exp))), where=where)
    if "handle_kwargs" in ik.methods:
        r = ev.eval_fn(ik.methods["handle_kwargs"], ik.module, ik)
        chk.require(is_mcall(r.ret, "handle_kwargs") and r.ret[1][1] == W, "DELEG-ROLE", "IgnoreKwargs.handle_kwargs", "delegates", derived=show(r.ret)[:200], expected="self.wrapped.handle_kwargs()", where=chk.where(ik.module, ik.methods["handle_kwargs"]))
    chk.floor("forwarding call sites (closure + IgnoreKwargs)", n_sites, 14)
    # ---------------------------------------------------------------- GenerativeFunction.__call__ / handle_kwargs
    gf = prog.cls("GenerativeFunction", GF)
    r = ev.eval_fn(gf.methods["__call__"], gf.module, gf)
    chk.require(r.ret == ("ctor", "GenerativeFunctionClosure", (P("self"), P("args"), P("kwargs")), ()), "DELEG-ROLE", "GenerativeFunction.__call__", "closure stores (self, args, kwargs)",
                derived=show(r.ret)[:200], expected="GenerativeFunctionClosure(self, args, kwargs)", where=chk.where(gf.module, gf.methods["__call__"]))
    r = ev.eval_fn(gf.methods["handle_kwargs"], gf.module, gf)
    chk.require(r.ret == ("ctor", "IgnoreKwargs", (P("self"),), ()), "DELEG-ROLE", "GenerativeFunction.handle_kwargs", "default wrapper", derived=show(r.ret)[:200], expected="IgnoreKwargs(self)", where=chk.where(gf.module, gf.methods["handle_kwargs"]))
    # ---------------------------------------------------------------- static language
    sg = prog.cls("StaticGenerativeFunction", "generative_functions/static.py")
    fn = sg.methods["handle_kwargs"]
    # the keyword form of a static function: StaticGenerativeFunction(<closure>) with closure(args, kwargs) == self.source(*args, **kwargs).  The closure's
    # function is a STATIC pytree field: it must be one module-level function with the source passed as dynamic data (Pytree.partial(self.source)(f)); a function
    # defined inside handle_kwargs is a new object per call, so two traces of equal keyword closures have different pytree structures (a switch over
    # model(1.0, scale=2.0) and model(2.0, scale=3.0) raises) and values carried by the source (partial_apply) are captured outside the pytree
    # decided on the evaluated method: the result is StaticGenerativeFunction(Closure((self.source,), f)) - however the closure is spelled
    # (Pytree.partial(self.source)(f), Closure[R]((self.source,), f), through a temporary) - with f a MODULE-LEVEL function
    rk_ = Evaluator(prog).eval_fn(fn, sg.module, sg)
    t_ = rk_.ret
    okw_, derw_ = False, show(t_)[:200]
    if is_t(t_, "ctor") and t_[1] == "StaticGenerativeFunction" and len(t_[2]) == 1 and is_t(t_[2][0], "ctor") and t_[2][0][1] == "Closure" and len(t_[2][0][2]) == 2:
        dyn_, f_ = t_[2][0][2]
        fname = f_[1].rsplit(".", 1)[-1] if is_t(f_, "global") else None
        if dyn_ == ("tuple", (("attr", P("self"), "source"),)) and fname in sg.module.funcs and f_[1] == sg.module.dotted + "." + fname:
            tf = sg.module.funcs[fname]
            rt = Evaluator(prog).eval_fn(tf, sg.module)
            pn = [a_.arg for a_ in tf.args.args]
            okw_ = len(pn) == 3 and is_t(rt.ret, "call") and rt.ret[1] == P(pn[0]) and rt.ret[2] == (("star", P(pn[1])),) and dict(rt.ret[3]).get("**") == P(pn[2])
            derw_ = f"Closure((self.source,), {fname}); {fname}({', '.join(pn)}) = {show(rt.ret)[:80]}"
        elif not is_t(f_, "global"):
            derw_ = f"the closure's function is not a module-level function: {show(f_)[:80]}"
    chk.require(okw_, "DELEG-ROLE", "StaticGenerativeFunction.handle_kwargs", "keyword form of a static generative function", derived=derw_,
                expected="StaticGenerativeFunction(Pytree.partial(self.source)(f)) with a module-level f(source, args, kwargs) = source(*args, **kwargs)", where=chk.where(sg.module, fn))
    r = ev.eval_fn(fn, sg.module, sg)
    chk.require(is_t(r.ret, "ctor") and r.ret[1] == "StaticGenerativeFunction" and len(r.ret[2]) == 1,
                "DELEG-ROLE", "StaticGenerativeFunction.handle_kwargs/wrap", "wraps the kwarged source", derived=show(r.ret)[:200], expected="StaticGenerativeFunction(<closure>)", where=chk.where(sg.module, fn))
    src = ("attr", P("self"), "source")
    fn = sg.methods["partial_apply"]
    r = ev.eval_fn(fn, sg.module, sg)
    dyn = ("attr", src, "dyn_args")
    want = ("bin", "+", dyn, P("args"))
    okp = mentions(r.ret, want) and any(is_t(x, "ctor") and x[1] == "Closure" and x[2] and x[2][0] == want and x[2][1] == ("attr", src, "fn") for x in subterms(r.ret))
    chk.require(okp, "DELEG-PREFIX", "StaticGenerativeFunction.partial_apply", "new closure over dyn_args + args", derived=show(r.ret)[:300], expected="gen(Closure(self.source.dyn_args + args, self.source.fn))", where=chk.where(sg.module, fn))
    cl = prog.cls("Closure", "core/pytree.py")
    r = ev.eval_fn(cl.methods["__call__"], cl.module, cl)
    okc = is_t(r.ret, "call") and r.ret[1] == ("attr", P("self"), "fn") and r.ret[2] == (("star", ("attr", P("self"), "dyn_args")), ("star", P("args"))) and dict(r.ret[3]).get("**") == P("kwargs")
    chk.require(okc, "DELEG-PREFIX", "Closure.__call__", "dyn_args prepended", derived=show(r.ret)[:200], expected="self.fn(*self.dyn_args, *args, **kwargs)", where=chk.where(cl.module, cl.methods["__call__"]))
    chk.require("dyn_args" in cl.fields and "dyn_args" not in cl.static_fields and "fn" in cl.static_fields, "PYTREE-FIELDS", "Closure", "dyn_args dynamic, fn static",
                derived=f"fields={cl.fields} static={sorted(cl.static_fields)}", expected="dyn_args dynamic; fn static", where=f"{cl.module.rel}:{cl.node.lineno}")
    # keyword calling convention: argdiffs arrive as the PAIR (positional tuple, keyword dict); a change test applied to the elements of that pair
    # (`all(static_check_no_change(d) for d in argdiffs if isinstance(d, Diff))`) is vacuously true for it - shortcut guards must test the whole argdiffs tree
    from ..gfi import distribution as _dist
    from ..gfi.common import Obs as _Obs

    _o = _Obs()
    _dist.analyse(_o, prog)
    _n = 0
    for it_ in _o.items:
        if "C32" in it_["props"]:
            _n += 1
            chk.require(it_["ok"], it_["rule"], it_["instance"], it_["construct"], derived=it_["derived"], expected=it_["expected"], where=it_["where"])
    chk.floor("distribution obligations tagged C32", _n, 1)
