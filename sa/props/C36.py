"""C36 - the stateful interpreter is transparent for unhandled primitives.

Decided: INTERP-SKELETON for eval_jaxpr_stateful (constvars <- consts, invars <- args; per equation: values read from THAT equation's invars, bind params and
subfuns from THAT equation, `primitive.bind(*args, **params)` unless the handler handles it, single results wrapped, THAT equation's outvars written; outputs read
after the loop); run_interpreter stages the function and evaluates the staged jaxpr with its literals as consts; ISP-CONSTS (initial_style_bind binds
chain(jaxpr.literals, flat_args) with num_consts = len(jaxpr.literals) and _impl splits at params["num_consts"] and evaluates the staged jaxpr - writer/reader
agreement); Environment returns literal values unchanged and never overwrites a DropVar.  Not decided: JAX staging itself.
"""
import ast
from ..interp import check_loop
from ..program import AnalysisError
from ..rules import Arms, is_call, is_mcall, mentions
from ..terms import C, Evaluator, G, P, is_t, mk_proj, renorm, resolve, scenarios, show, subterms

ST = "core/compiler/interpreters/stateful.py"
ENV = "core/compiler/interpreters/environment.py"
ISP = "core/compiler/initial_style_primitive.py"


def environment(chk, prog):
    ev = Evaluator(prog)
    E = prog.cls("Environment", ENV)
    W = lambda m: f"{E.module.rel}:{E.methods[m].lineno}"
    SELF, VAR = P("self"), P("var")
    r = ev.eval_fn(E.methods["get"], E.module, E)
    got = Arms()
    for conds, ret in r.returns:
        got["lit" if any(is_t(t, "isinst") and t[1] == VAR and t[2] == "Literal" and p for t, p in conds) else "var"] = ret
    ok = got.get("lit") == ("attr", VAR, "val") and got.get("var") == ("call", ("attr", ("attr", SELF, "env"), "get"), (("attr", VAR, "count"),), ())
    chk.require(ok, "ENV", "Environment.get", "literals evaluate to their value; variables by count", derived={k: show(v) for k, v in got.items()}.__str__(), expected="var.val / self.env.get(var.count)", where=W("get"))
    r = ev.eval_fn(E.methods["write"], E.module, E)
    got = Arms()
    wrote = None
    for conds, ret in r.returns:
        pos = [t for t, p in conds if p]
        if any(is_t(t, "isinst") and t[1] == VAR and t[2] == "Literal" for t in pos):
            got["lit"] = ret
        elif any(is_t(t, "isinst") and t[1] == VAR and "DropVar" in t[2] for t in pos):
            got["drop"] = ret
        else:
            got["var"] = ret
    envw = r.env.get("self.env")
    okw = is_t(envw, "setitem") and envw[2] == ("attr", VAR, "count") and envw[3] == P("cell")
    ok = got.get("lit") == P("cell") and "drop" in got and okw
    chk.require(ok, "ENV", "Environment.write", "no write for literals and DropVars; otherwise env[var.count] = cell", derived=f"{ {k: show(v)[:60] for k, v in got.items()} } write={show(envw)[:80]}", expected="Literal -> return cell; DropVar -> unchanged; else self.env[var.count] = cell", where=W("write"))
    # read returns exactly what get returns (whether it calls get or spells the lookup out), and raises when that is None
    rg = Evaluator(prog).eval_fn(E.methods["get"], E.module, E)
    r = Evaluator(prog).eval_fn(E.methods["read"], E.module, E)
    is_none_test = lambda t: any(is_t(x, "is") and x[2] == C(None) for x in subterms(t))  # `v is None` (distributed over a join of v, if v is one)
    oks = len(r.raises) >= 1 and all(any(is_none_test(t) and p for t, p in c_) for c_, _x in r.raises)
    for conds, leaf in scenarios(r.ret):
        g_ = rg.ret
        for c_, pol_ in conds:
            g_ = resolve(g_, c_, pol_)
        oks = oks and renorm(g_) == leaf
    chk.require(oks, "ENV", "Environment.read", "get or raise on an unbound variable", derived=show(r.ret)[:120], expected="self.get(var), ValueError when unbound", where=W("read"))
    r = ev.eval_fn(E.methods["copy"], E.module, E)
    # a FRESH dictionary with the same bindings: dict(self.env) (the canonical form of {k: self.env[k] for k in self.env} as well) - not self.env itself
    okc = is_t(r.ret, "ctor") and r.ret[1] == "Environment" and len(r.ret[2]) == 1 and (is_t(r.ret[2][0], "dictfam") or r.ret[2][0] == ("call", G("dict"), (("attr", SELF, "env"),), ()))
    chk.require(okc, "ENV", "Environment.copy", "a fresh dictionary with the same bindings", derived=show(r.ret)[:160], expected="Environment({k: self.env[k] for k in keys})", where=W("copy"))


def isp(chk, prog):
    m, fn = prog.func("initial_style_bind", ISP)
    bind = prog.nested(fn, "bind")
    wrapped = prog.nested(bind, "wrapped")
    ev = Evaluator(prog)
    impl = None  # the function handed to bind as impl=: a local def, or the product of a factory - read off the bind call
    where = f"{m.rel}:{fn.lineno}"
    r = ev.eval_fn(wrapped, m, env0={"prim": P("prim"), "params": P("params"), "f": P("f")})
    binds = [x for x in subterms(r.ret) if is_mcall(x, "bind") and x[1][1] == P("prim")]
    st = ("call", ("call", G("genjax._src.core.compiler.staging.stage"), (P("f"),), ()), (("star", P("args")),), (("**", P("kwargs")),))
    jaxpr = mk_proj(st, 0)
    flat_args = mk_proj(mk_proj(st, 1), 0)
    lit = ("attr", jaxpr, "literals")
    ok = len(binds) == 1
    if ok:
        b = binds[0]
        okc = tuple(b[2]) == (("star", lit), ("star", flat_args))
        kw = dict(b[3])
        okn = kw.get("num_consts") == ("call", G("len"), (lit,), ())
        oki = ev.closure_of(kw.get("impl")) is not None and isinstance(ev.closure_of(kw.get("impl")).node, (ast.FunctionDef, ast.Lambda))
        impl = ev.closure_of(kw["impl"]) if oki else None
        chk.require(okc and okn and oki, "ISP-CONSTS", "initial_style_bind/bind", "literals first, then the flat arguments; num_consts = number of literals", derived=show(b)[:300],
                    expected="prim.bind(*chain(jaxpr.literals, flat_args), impl=_impl, num_consts=len(jaxpr.literals), in_tree=..., out_tree=...)", where=where)
        chk.require(kw.get("in_tree") == mk_proj(mk_proj(st, 1), 1) and kw.get("out_tree") == mk_proj(mk_proj(st, 1), 2), "ISP-CONSTS", "initial_style_bind/trees", "in_tree / out_tree from the same staging", derived=f"in_tree={show(kw.get('in_tree'))[:80]}", expected="the trees returned by stage(f)", where=where)
        okr = is_call(r.ret, "tree_unflatten") and r.ret[2][1] == b and is_t(r.ret[2][0], "call") and r.ret[2][0][1] == mk_proj(mk_proj(st, 1), 2)
        chk.require(okr, "ISP-CONSTS", "initial_style_bind/result", "outputs unflattened with out_tree()", derived=show(r.ret)[:120], expected="tree_unflatten(out_tree(), outs)", where=where)
    else:
        chk.violation("ISP-CONSTS", "initial_style_bind/bind", "prim.bind call", derived=f"{len(binds)} bind calls", expected="one", where=where)
    # _impl is evaluated in the environment it closes over (so the staged jaxpr it evaluates is a term, whatever name carries it)
    clo = impl
    if clo is None:
        raise AnalysisError("initial_style_bind: no function is handed to prim.bind as impl=")
    impl = clo.node
    ri = Evaluator(prog).eval_fn(impl, clo.module, env0=dict(clo.env))
    ops = P(impl.args.vararg.arg) if impl.args.vararg else P("args")
    n_ = ("index", P(impl.args.kwarg.arg) if impl.args.kwarg else P("params"), C("num_consts"))
    want = ("call", G("jax.core.eval_jaxpr"), (("attr", jaxpr, "jaxpr"), ("index", ops, ("sliceobj", C(None), n_, C(None))), ("star", ("index", ops, ("sliceobj", n_, C(None), C(None))))), ())
    chk.require(ri.ret == want, "ISP-CONSTS", "initial_style_bind/_impl", "split at params['num_consts'] (reader agrees with the writer) and evaluate the staged jaxpr", derived=show(ri.ret)[:240], expected=show(want)[:240], where=f"{m.rel}:{impl.lineno}")


ABSTRACTIFY = ("get_aval", "shaped_abstractify", "raise_to_shaped")  # JAX's own abstractification (keeps weak types)


def staging_rules(chk, prog):
    """stage(): the staged jaxpr is traced at JAX's own abstract values of the flat arguments (so dtype promotion matches ordinary evaluation)"""
    SG = "core/compiler/staging.py"
    sm, stf = prog.func("stage", SG)
    wr = prog.nested(stf, "wrapped")
    ev = Evaluator(prog)
    ev.opaque_funcs |= {"cached_stage_dynamic"}
    rs = ev.eval_fn(wr, sm, env0={"f": P("f")})
    oks = is_t(rs.ret, "tuple") and len(rs.ret[1]) == 2 and is_t(rs.ret[1][1], "tuple") and len(rs.ret[1][1][1]) == 3 and is_call(rs.ret[1][0], "cached_stage_dynamic")
    fl = ("call", G("jax.tree_util.tree_flatten"), (P("args"),), ())
    if oks:
        oks = rs.ret[1][1][1][0] == mk_proj(fl, 0) and rs.ret[1][1][1][1] == mk_proj(fl, 1)
    chk.require(oks, "INTERP-SKELETON", "stage.wrapped", "returns the staged jaxpr with (flat_args, in_tree, out_tree) of the same flattening", derived=show(rs.ret)[:240], expected="(typed_jaxpr, (flat_args, in_tree, out_tree))", where=f"{sm.rel}:{stf.lineno}")
    avals = rs.ret[1][0][2][1] if oks and len(rs.ret[1][0][2]) == 2 else None
    # one abstract value per flat argument, obtained by JAX's own abstractification of THAT argument (map / safe_map / comprehension, helper or inline)
    if is_call(avals, "tuple") and len(avals[2]) == 1:
        avals = avals[2][0]
    if (is_call(avals, "safe_map") or is_call(avals, "map")) and len(avals[2]) == 2:  # map(f, xs) read as [f(x) for x in xs]
        avals = ("fam", avals[2][1], ev.apply(avals[2][0], [("elem", avals[2][1])], module=sm))
    oka = is_t(avals, "fam") and avals[1] == mk_proj(fl, 0)
    if oka:
        inner_ = avals[2]
        while is_call(inner_, *ABSTRACTIFY) and inner_[2] and inner_[2][0] != ("elem", mk_proj(fl, 0)):
            inner_ = inner_[2][0]
        oka = is_call(inner_, *ABSTRACTIFY) and inner_[2] == (("elem", mk_proj(fl, 0)),)
    chk.require(oka, "STAGE-AVAL", "stage.wrapped/avals", "one abstract value per flat argument", derived=show(avals)[:160], expected="tuple(safe_map(get_shaped_aval, flat_args))", where=f"{sm.rel}:{stf.lineno}")
    ga = sm.funcs.get("get_shaped_aval")
    okg, t = True, C(None)
    if ga is not None:  # the helper, when there is one (its use at the staging site is decided above, through inlining)
        rg = Evaluator(prog).eval_fn(ga, sm)
        t = rg.ret
        inner = t
        xn = P(ga.args.args[0].arg) if ga.args.args else P("x")
        while is_call(inner, *ABSTRACTIFY) and inner[2] and inner[2][0] != xn:
            inner = inner[2][0]
        okg = is_call(inner, *ABSTRACTIFY) and inner[2] == (xn,)
    ga = ga or stf
    chk.require(okg, "STAGE-AVAL", "get_shaped_aval", "abstract value used for staging", derived=show(t)[:160],
                expected="JAX's own abstractification of the value (jax.core.get_aval / shaped_abstractify), which keeps weak types: a hand-built ShapedArray(shape, dtype) changes dtype promotion of Python scalars in the staged program", where=f"{sm.rel}:{ga.lineno}")
    _, cs = prog.func("cached_stage_dynamic", SG)
    rc = Evaluator(prog).eval_fn(cs, sm)
    tr = ("call", G("jax.interpreters.partial_eval.trace_to_jaxpr_dynamic"), (P("flat_fun"), P("in_avals")), ())
    okc = rc.ret == ("call", G("jax.extend.core.ClosedJaxpr"), (mk_proj(tr, 0), mk_proj(tr, 2)), ())
    chk.require(okc, "STAGE-AVAL", "cached_stage_dynamic", "jaxpr and its constants from the same trace", derived=show(rc.ret)[:200], expected="ClosedJaxpr(jaxpr, consts) of trace_to_jaxpr_dynamic(flat_fun, in_avals)", where=f"{sm.rel}:{cs.lineno}")


def run(chk, prog):
    ev = Evaluator(prog)
    SI = prog.cls("StatefulInterpreter", ST)
    fn = SI.methods["eval_jaxpr_stateful"]
    where = f"{SI.module.rel}:{fn.lineno}"
    r = ev.eval_fn(fn, SI.module, SI)
    H = P("stateful_handler")
    check_loop(chk, "eval_jaxpr_stateful", r, where, const_wrap=lambda t: t == P("consts"), invar_value=lambda t: t == P("args"),
               dispatch_ok=lambda conds, prim: any(t == ("call", ("attr", H, "handles"), (prim,), ()) and p for t, p in conds))
    # run_interpreter
    ev2 = Evaluator(prog)
    ev2.opaque_methods.add("eval_jaxpr_stateful")
    fn2 = SI.methods["run_interpreter"]
    r2 = ev2.eval_fn(fn2, SI.module, SI)
    calls_ = [x for x in subterms(r2.ret) if is_mcall(x, "eval_jaxpr_stateful")]
    ok = len(calls_) == 1
    if ok:
        c = calls_[0]
        st = [x for x in subterms(c) if is_t(x, "call") and is_call(x[1], "stage")]
        ok = len(st) >= 1
        if ok:
            s0 = st[0]
            cj = mk_proj(s0, 0)
            ok = c[2] == (H, ("attr", cj, "jaxpr"), ("attr", cj, "literals"), mk_proj(mk_proj(s0, 1), 0)) and s0[2] == (("star", P("args")),)
    chk.require(ok, "INTERP-SKELETON", "StatefulInterpreter.run_interpreter", "stage, then evaluate the staged jaxpr with its literals and the flat arguments", derived=show(calls_[0])[:260] if calls_ else "no call",
                expected="eval_jaxpr_stateful(handler, closed_jaxpr.jaxpr, closed_jaxpr.literals, flat_args)", where=f"{SI.module.rel}:{fn2.lineno}")
    okr = is_call(r2.ret, "tree_unflatten")
    chk.require(okr, "INTERP-SKELETON", "StatefulInterpreter.run_interpreter/unflatten", "outputs unflattened by out_tree()", derived=show(r2.ret)[:100], expected="tree_unflatten(out_tree(), flat_out)", where=f"{SI.module.rel}:{fn2.lineno}")
    m, sf = prog.func("stateful", ST)
    w = prog.nested(sf, "wrapped")
    rw = Evaluator(prog).eval_fn(w, m, env0={"f": P("f")})
    okw = is_mcall(rw.ret, "run_interpreter") and rw.ret[2] == (P("stateful_handler"), P("f"), ("star", P("args")))
    chk.require(okw, "INTERP-SKELETON", "stateful.wrapped", "handler, function, arguments", derived=show(rw.ret)[:160], expected="interpreter.run_interpreter(stateful_handler, f, *args)", where=f"{m.rel}:{sf.lineno}")
    environment(chk, prog)
    isp(chk, prog)
    staging_rules(chk, prog)
    # every equation is re-bound under the configuration context it was traced in (jax.core.eval_jaxpr does `with eqn.ctx.manager:`): primitives such as
    # random_split / random_bits choose their algorithm from the ambient config at BIND time, so a function traced inside `with jax.threefry_partitionable(..)`
    # and interpreted outside it returns other keys / bits than ordinary evaluation
    import ast as _ast
    _ci = prog.cls("StatefulInterpreter", "interpreters/stateful.py")
    _fn = _ci.methods["eval_jaxpr_stateful"]
    _loops = [n for n in _ast.walk(_fn) if isinstance(n, _ast.For)]
    from ..interp import bind_context_ok
    _okctx, _ctxtxt = bind_context_ok(prog, _ci, _fn)
    # no equation is skipped: an unhandled equation with unused results may still have EFFECTS (io_callback, writes into a mutable array) that later outputs see
    _skips = [f"{type(n).__name__.lower()} at line {n.lineno}" for _lp in _loops for n in _ast.walk(_lp) if isinstance(n, (_ast.Continue, _ast.Break))]
    chk.require(not _skips, "INTERP-SKELETON", _fn.name + "/no-skip", "equations skipped by the interpreter loop", derived=str(_skips) if _skips else "no continue / break in the loop", expected="every equation is dispatched or bound", where=chk.where(_ci.module, _fn))
    chk.require(_okctx, "INTERP-SKELETON", "eval_jaxpr_stateful/bind-context", "configuration context of the re-bound equations", derived=_ctxtxt,
                expected="with eqn.ctx.manager: <dispatch or bind>", where=chk.where(_ci.module, _fn))
    chk.explanation = "loop skeleton of the stateful interpreter by dataflow, writer/reader agreement of initial-style binding, environment read/write rules"
