"""C33 - invalid_subset reports exactly the constraint addresses a model cannot trace.

Decided: POLARITY (the result is self.filter(~shape_sel): the complement of the model's shape selection); the result is None iff the extras are statically empty;
the shape comes from get_zero_trace(*args).get_choices(); CHM-EXHAUSTIVE for _shape_selection over the 5 ChoiceMap classes (unknown classes raise); index levels
map to the `...` wildcard (index nesting ignored); a Choice is a leaf; Static recurses per address and re-extends by that address; Or / Switch take unions.
Not decided: exactness of the returned sub-map (relies on C17 / C18).
"""
from ..program import AnalysisError
from ..rules import Arms, is_call, is_mcall, mentions
from ..terms import C, Evaluator, G, P, is_t, mk_elem, mk_proj, show, subterms

CM = "core/generative/choice_map.py"
SELF = P("self")


def run(chk, prog):
    c = prog.cls("ChoiceMap", CM)
    fn = c.methods["invalid_subset"]
    where = f"{c.module.rel}:{fn.lineno}"
    ev = Evaluator(prog)
    ev.opaque_funcs.add("_shape_selection")
    r = ev.eval_fn(fn, c.module, c)
    shape = ("call", ("attr", ("call", ("attr", P("gen_fn"), "get_zero_trace"), (("star", P("args")),), ()), "get_choices"), (), ())
    sel = ("call", G(c.module.dotted + "._shape_selection"), (shape,), ())
    extras = ("call", ("attr", SELF, "filter"), (("un", "~", sel),), ())
    def alias(t):
        """the selection's own one-line aliases (judged by C18 / taken below): sel.complement() is ~sel, sel.filter(chm) is chm.filter(sel)"""
        if not isinstance(t, tuple):
            return t
        t = tuple(alias(x) for x in t)
        if is_mcall(t, "complement") and not t[2] and not t[3]:
            return ("un", "~", t[1][1])
        if is_mcall(t, "filter") and t[2] == (SELF,) and t[1][1] != SELF:
            return ("call", ("attr", SELF, "filter"), (t[1][1],), ())
        return t
    from ..terms import renorm, resolve
    full = alias(r.ret)
    test_ = ("call", ("attr", extras, "static_is_empty"), (), ())
    got = {"extras": renorm(resolve(full, test_, False)), "none": renorm(resolve(full, test_, True))}
    chk.require(got.get("extras") == extras, "POLARITY", "ChoiceMap.invalid_subset/extras", "the part of the map OUTSIDE the model's shape", derived=show(got.get("extras"))[:200], expected="self.filter(~_shape_selection(gen_fn.get_zero_trace(*args).get_choices()))", where=where)
    okn = got.get("none") == C(None) and any(is_t(x, "phi") and x[1] == test_ for x in [full] + [y for y in __import__("sa.terms", fromlist=["subterms"]).subterms(full)])
    chk.require(okn, "POLARITY", "ChoiceMap.invalid_subset/none", "None iff nothing is left over", derived=show(full)[:200], expected="extras if not extras.static_is_empty() else None", where=where)
    m, ss = prog.func("_shape_selection", CM)
    import ast as _ast
    # the recursive walker is found by its role (the nested function that calls itself); its first parameter is the node, further parameters are passed along
    walkers = [n for n in _ast.walk(ss) if isinstance(n, _ast.FunctionDef) and n is not ss and any(isinstance(x, _ast.Call) and isinstance(x.func, _ast.Name) and x.func.id == n.name for x in _ast.walk(n))]
    if not walkers:
        # the walker may also be a module-level recursive function that _shape_selection hands the map to
        rec_ = lambda n: any(isinstance(x, _ast.Call) and isinstance(x.func, _ast.Name) and x.func.id == n.name for x in _ast.walk(n))
        for nm_ in dict.fromkeys(x.func.id for x in _ast.walk(ss) if isinstance(x, _ast.Call) and isinstance(x.func, _ast.Name)):
            g_ = next((n for n in m.tree.body if isinstance(n, _ast.FunctionDef) and n.name == nm_), None)
            if g_ is not None and g_ is not ss and rec_(g_):
                walkers.append(g_)
    if len(walkers) != 1 or not walkers[0].args.args:
        raise AnalysisError(f"_shape_selection: expected one recursive walker, found {len(walkers)}")
    loop = walkers[0]
    ev2 = Evaluator(prog)
    rl0 = ev2.eval_fn(loop, m, env0={loop.name: G("$loop")})
    INNER, SEL = P(loop.args.args[0].arg), P("selection")

    def canon(t):
        """walker calls without the passed-along arguments; single-component extend / StaticSel.build as one EXT term"""
        if not isinstance(t, tuple):
            return t
        t = tuple(canon(x) for x in t)
        if is_t(t, "call") and t[1] == G("$loop") and t[2]:
            return ("call", G("$loop"), (t[2][0],), ())
        if is_mcall(t, "extend") and len(t[2]) == 1 and not t[3]:
            return ("EXT", t[1][1], t[2][0])
        if is_call(t, "build") and is_t(t[1][1], "global") and t[1][1][1].endswith(".StaticSel") and len(t[2]) == 2:
            return ("EXT", t[2][0], t[2][1])
        return t
    arms = Arms()
    for conds, ret in rl0.returns:
        for t, p in conds:
            if p and is_t(t, "isinst") and t[1] == INNER:
                arms[t[2]] = canon(ret)

    class _R:  # (the raising arms of the walker)
        raises = rl0.raises
    rl = _R
    classes = {ci.name for ci in prog.subclasses("ChoiceMap") if ci.module.rel.endswith("choice_map.py")}
    chk.require(set(arms) == classes, "CHM-EXHAUSTIVE", "_shape_selection/classes", "one arm per ChoiceMap class", derived=f"arms {sorted(arms)} vs classes {sorted(classes)}", expected="Static, Indexed, Choice, Or, Switch", where=f"{m.rel}:{ss.lineno}")
    chk.require(len(rl.raises) >= 1, "CHM-EXHAUSTIVE", "_shape_selection/default", "unknown classes raise", derived=f"{len(rl.raises)} raising arm(s)", expected="default arm raises ValueError", where=f"{m.rel}:{ss.lineno}")
    L = lambda *a: ("call", G("$loop"), tuple(a[:1]), ())
    w = f"{m.rel}:{loop.lineno}"
    # Choice -> leaf
    chk.require(arms.get("Choice") == ("ctor", "LeafSel", (), ()), "SHAPE-SEL", "_shape_selection/Choice", "a value is a leaf", derived=show(arms.get("Choice")), expected="LeafSel()", where=w)
    # Indexed -> wildcard
    ix = arms.get("Indexed")
    okx = ix == ("EXT", L(("attr", INNER, "c")), C(Ellipsis))
    chk.require(okx, "SHAPE-SEL", "_shape_selection/Indexed", "index levels become the ... wildcard; the selection passes through", derived=show(ix)[:200], expected="loop(c, selection).extend(...)", where=w)
    # Or -> union
    o = arms.get("Or")
    oko = is_t(o, "bin") and o[1] == "|" and {o[2], o[3]} == {L(("attr", INNER, "c1"), SEL), L(("attr", INNER, "c2"), SEL)}
    chk.require(oko, "SHAPE-SEL", "_shape_selection/Or", "union of both sides", derived=show(o)[:200], expected="loop(c1, selection) | loop(c2, selection)", where=w)
    # Switch -> union over ALL branches
    s = arms.get("Switch")
    chms = ("attr", INNER, "chms")
    oks = is_t(s, "bin") and s[1] == "|" and s[2] == L(mk_proj(chms, 0), SEL) and is_t(s[3], "sumover") and s[3][2] == L(mk_elem(s[3][1]), SEL) and s[3][1] == ("slice", chms, 1, None)
    chk.require(oks, "SHAPE-SEL", "_shape_selection/Switch", "union over every branch map", derived=show(s)[:240], expected="loop(chms[0]) | ... | loop(chms[n-1])", where=w)
    # Static -> per address, re-extended by that address
    st = arms.get("Static")
    keys = ("attr", INNER, "mapping")
    a = mk_elem(keys)
    want = ("EXT", L(("call", INNER, (a,), ())), a)
    okst = is_t(st, "bin") and st[1] == "|" and is_call(st[2], "none") and st[3] == ("sumover", keys, want)
    chk.require(okst, "SHAPE-SEL", "_shape_selection/Static", "union over ALL addresses of the sub-shape re-extended by the same address", derived=show(st)[:300], expected="acc |= loop(inner.get_submap(addr), selection(addr)).extend(addr) for every addr", where=w)
    rs = Evaluator(prog, max_depth=0).eval_fn(ss, m)
    chk.require(is_t(rs.ret, "call") and rs.ret[2][:1] == (P("chm"),) and (len(rs.ret[2]) == 1 or is_call(rs.ret[2][1], "all")), "SHAPE-SEL", "_shape_selection/start", "walks the whole map (any selection passed along starts as Selection.all())", derived=show(rs.ret)[:120], expected="walker(chm[, Selection.all()])", where=f"{m.rel}:{ss.lineno}")
    # invalid_subset is `filter(~shape_sel)`: it is only as right as the selection algebra it is built from (C18)
    from ..report import Check
    from . import C18

    tmp = Check("C18", chk.tier, chk.seed, write_evidence=False)
    tmp.nested = True
    C18.run(tmp, prog)
    viol = {(v["rule"], v["instance"]): v for v in tmp.violations}
    for o in tmp.obligations:
        v = viol.get((o["rule"], o["instance"]))
        if v:
            chk.violation(v["rule"], v["instance"], v["construct"], v["derived"], v["expected"], v["where"])
        else:
            chk.ok(o["rule"], o["instance"], o["fact"])
    # "returns None when every address is traceable" is decided by extras.static_is_empty(): every container that can be semantically empty must say so (C17)
    from ._share import take
    take(chk, prog, "C17", lambda o: o["instance"] in ("Switch.static_is_empty", "Static.build", "Switch.build", "Switch.filter"), "emptiness / rebuild obligations of choice-map containers (from C17)", 3)
    chk.explanation = "polarity and emptiness test of invalid_subset; exhaustive, address-aligned recursion of _shape_selection"
