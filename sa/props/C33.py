"""C33 - invalid_subset reports exactly the constraint addresses a model cannot trace.

Decided: POLARITY (the result is self.filter(~shape_sel): the complement of the model's shape selection); the result is None iff the extras are statically empty;
the shape comes from get_zero_trace(*args).get_choices(); CHM-EXHAUSTIVE for _shape_selection over the 5 ChoiceMap classes (unknown classes raise); index levels
map to the `...` wildcard (index nesting ignored); a Choice is a leaf; Static recurses per address and re-extends by that address; Or / Switch take unions.
Not decided: exactness of the returned sub-map (relies on C17 / C18).
"""
from ..program import AnalysisError
from ..rules import Arms, is_call, is_mcall, mentions
from ..terms import C, Evaluator, G, P, is_t, mk_elem, mk_proj, show, subterms

CM = "core/generative/choice_map.py"
SELF = P("self")


def run(chk, prog):
    c = prog.cls("ChoiceMap", CM)
    fn = c.methods["invalid_subset"]
    where = f"{c.module.rel}:{fn.lineno}"
    ev = Evaluator(prog)
    ev.opaque_funcs.add("_shape_selection")
    r = ev.eval_fn(fn, c.module, c)
    shape = ("call", ("attr", ("call", ("attr", P("gen_fn"), "get_zero_trace"), (("star", P("args")),), ()), "get_choices"), (), ())
    sel = ("call", G(c.module.dotted + "._shape_selection"), (shape,), ())
    extras = ("call", ("attr", SELF, "filter"), (("un", "~", sel),), ())
    got = Arms()
    for conds, ret in r.returns:
        got["extras" if any(is_mcall(t, "static_is_empty") and not p for t, p in conds) else "none"] = ret
    chk.require(got.get("extras") == extras, "POLARITY", "ChoiceMap.invalid_subset/extras", "the part of the map OUTSIDE the model's shape", derived=show(got.get("extras"))[:200], expected="self.filter(~_shape_selection(gen_fn.get_zero_trace(*args).get_choices()))", where=where)
    okn = is_t(r.ret, "phi") and r.ret[3] == extras and r.ret[2] == C(None) and r.ret[1] == ("call", ("attr", extras, "static_is_empty"), (), ())
    chk.require(okn, "POLARITY", "ChoiceMap.invalid_subset/none", "None iff nothing is left over", derived=show(r.ret)[:200], expected="extras if not extras.static_is_empty() else None", where=where)
    m, ss = prog.func("_shape_selection", CM)
    loop = prog.nested(ss, "loop")
    ev2 = Evaluator(prog)
    rl = ev2.eval_fn(loop, m, env0={"loop": G("$loop")})
    INNER, SEL = P("inner"), P("selection")
    arms = Arms()
    for conds, ret in rl.returns:
        for t, p in conds:
            if p and is_t(t, "isinst") and t[1] == INNER:
                arms[t[2]] = ret
    classes = {ci.name for ci in prog.subclasses("ChoiceMap") if ci.module.rel.endswith("choice_map.py")}
    chk.require(set(arms) == classes, "CHM-EXHAUSTIVE", "_shape_selection/classes", "one arm per ChoiceMap class", derived=f"arms {sorted(arms)} vs classes {sorted(classes)}", expected="Static, Indexed, Choice, Or, Switch", where=f"{m.rel}:{ss.lineno}")
    chk.require(len(rl.raises) >= 1, "CHM-EXHAUSTIVE", "_shape_selection/default", "unknown classes raise", derived=f"{len(rl.raises)} raising arm(s)", expected="default arm raises ValueError", where=f"{m.rel}:{ss.lineno}")
    L = lambda *a: ("call", G("$loop"), tuple(a), ())
    w = f"{m.rel}:{loop.lineno}"
    # Choice -> leaf
    chk.require(arms.get("Choice") == ("ctor", "LeafSel", (), ()), "SHAPE-SEL", "_shape_selection/Choice", "a value is a leaf", derived=show(arms.get("Choice")), expected="LeafSel()", where=w)
    # Indexed -> wildcard
    ix = arms.get("Indexed")
    okx = is_mcall(ix, "extend") and ix[2] == (C(Ellipsis),) and ix[1][1] == L(("attr", INNER, "c"), SEL)
    chk.require(okx, "SHAPE-SEL", "_shape_selection/Indexed", "index levels become the ... wildcard; the selection passes through", derived=show(ix)[:200], expected="loop(c, selection).extend(...)", where=w)
    # Or -> union
    o = arms.get("Or")
    oko = is_t(o, "bin") and o[1] == "|" and {o[2], o[3]} == {L(("attr", INNER, "c1"), SEL), L(("attr", INNER, "c2"), SEL)}
    chk.require(oko, "SHAPE-SEL", "_shape_selection/Or", "union of both sides", derived=show(o)[:200], expected="loop(c1, selection) | loop(c2, selection)", where=w)
    # Switch -> union over ALL branches
    s = arms.get("Switch")
    chms = ("attr", INNER, "chms")
    oks = is_t(s, "bin") and s[1] == "|" and s[2] == L(mk_proj(chms, 0), SEL) and is_t(s[3], "sumover") and s[3][2] == L(mk_elem(s[3][1]), SEL) and s[3][1] == ("slice", chms, 1, None)
    chk.require(oks, "SHAPE-SEL", "_shape_selection/Switch", "union over every branch map", derived=show(s)[:240], expected="loop(chms[0]) | ... | loop(chms[n-1])", where=w)
    # Static -> per address, re-extended by that address
    st = arms.get("Static")
    keys = ("attr", INNER, "mapping")
    a = mk_elem(keys)
    want = ("call", ("attr", L(("call", INNER, (a,), ()), ("call", SEL, (a,), ())), "extend"), (a,), ())
    okst = is_t(st, "bin") and st[1] == "|" and is_call(st[2], "none") and st[3] == ("sumover", keys, want)
    chk.require(okst, "SHAPE-SEL", "_shape_selection/Static", "union over ALL addresses of the sub-shape re-extended by the same address", derived=show(st)[:300], expected="acc |= loop(inner.get_submap(addr), selection(addr)).extend(addr) for every addr", where=w)
    rs = Evaluator(prog, max_depth=0).eval_fn(ss, m)
    chk.require(is_t(rs.ret, "call") and len(rs.ret[2]) == 2 and rs.ret[2][0] == P("chm") and is_call(rs.ret[2][1], "all"), "SHAPE-SEL", "_shape_selection/start", "starts from Selection.all()", derived=show(rs.ret)[:120], expected="loop(chm, Selection.all())", where=f"{m.rel}:{ss.lineno}")
    # invalid_subset is `filter(~shape_sel)`: it is only as right as the selection algebra it is built from (C18)
    from ..report import Check
    from . import C18

    tmp = Check("C18", chk.tier, chk.seed, write_evidence=False)
    tmp.nested = True
    C18.run(tmp, prog)
    viol = {(v["rule"], v["instance"]): v for v in tmp.violations}
    for o in tmp.obligations:
        v = viol.get((o["rule"], o["instance"]))
        if v:
            chk.violation(v["rule"], v["instance"], v["construct"], v["derived"], v["expected"], v["where"])
        else:
            chk.ok(o["rule"], o["instance"], o["fact"])
    # "returns None when every address is traceable" is decided by extras.static_is_empty(): every container that can be semantically empty must say so (C17)
    from ._share import take
    take(chk, prog, "C17", lambda o: o["instance"] in ("Switch.static_is_empty", "Static.build", "Switch.build", "Switch.filter"), "emptiness / rebuild obligations of choice-map containers (from C17)", 3)
    chk.explanation = "polarity and emptiness test of invalid_subset; exhaustive, address-aligned recursion of _shape_selection"
