"""C20 - staging helpers select, branch and combine flags correctly.

Decided: FLAG-TABLE (each FlagOp method's concrete arm and array arm denote the same Boolean function, by truth table); where / cond (True -> tf, False -> ff,
the traced call passes (f, tf, ff) in that order); CHOOSE-WRAP (tree_choose: the int shortcut vs[idx % len(vs)] and jnp.choose(mode="wrap") are the same
normalisation, result cast to the choose dtype); MSWITCH (setter i writes slot i with f_i(*args_i); placeholders from to_shape_fn(f, zeros) of the same pairs;
lax.switch(idx, fns, operand=shapes)).  Not decided: lax.switch clamping / dtype promotion (JAX).
"""
import itertools

from ..finite import Unrecognised, ev_int
from ..program import AnalysisError
from ..rules import Arms, calls, is_call, is_mcall, mentions
from ..terms import C, Evaluator, G, P, is_t, mk_elem, mk_proj, show, subterms

MOD = "core/compiler/staging.py"
F, Gf = P("f"), P("g")


def arm_eval(ret, env, concrete):
    """evaluate a FlagOp body.  `concrete` maps each operand to whether it is a Python bool (True) or an array / tracer (False), or is a single bool for all
    operands: isinstance(x, bool) resolves by that, `x is True/False` and literal patterns only hold for concrete operands"""
    conc = (lambda v: concrete) if isinstance(concrete, bool) else (lambda v: concrete.get(v, False))

    def go(t):
        if is_t(t, "phi"):
            c = t[1]
            return go(t[2]) if test(c) else go(t[3])
        return ev_int(t, env)

    def test(c):
        if is_t(c, "isinst"):
            return conc(c[1])
        if is_t(c, "call") and is_t(c[1], "attr") and c[1][2] == "is_scalar":
            return True  # the table's operands are scalars (Python bools and 0-d arrays); vector flags behave elementwise like these
        if is_t(c, "bool"):
            vs = [test(x) for x in c[2]]
            return all(vs) if c[1] == "and" else any(vs)
        if is_t(c, "is"):
            return conc(c[1]) and ev_int(c[1], env) is c[2][1]
        if is_t(c, "cmp") and c[1] == "==":
            return conc(c[2]) and ev_int(c[2], env) == ev_int(c[3], env)
        if is_t(c, "un") and c[1] == "not":
            return not test(c[2])
        raise Unrecognised(show(c))
    return go(ret)


def flag_tables(chk, prog, props_rule="FLAG-TABLE"):
    ev = Evaluator(prog)
    FO = prog.cls("FlagOp", MOD)
    W = lambda m: f"{FO.module.rel}:{FO.methods[m].lineno}"
    specs = {"and_": (2, lambda a, b: a and b), "or_": (2, lambda a, b: a or b), "xor_": (2, lambda a, b: a != b), "not_": (1, lambda a: not a)}
    n = 0
    for m, (ar, spec) in specs.items():
        r = ev.eval_fn(FO.methods[m], FO.module, FO)
        ok, why = True, ""
        rows = 0
        try:
            for kinds in itertools.product([True, False], repeat=ar):  # each operand independently a Python bool or an array
                for vals in itertools.product([False, True], repeat=ar):
                    env = dict(zip([F, Gf], vals))
                    got = arm_eval(r.ret, env, dict(zip([F, Gf], kinds)))
                    rows += 1
                    if bool(got) != bool(spec(*vals)):
                        ok, why = False, f"operands {['bool' if k else 'array' for k in kinds]} at {vals}: {got}"
        except Unrecognised as e:
            raise AnalysisError(f"FlagOp.{m}: unrecognised form {e}")
        n += 1
        chk.require(ok, props_rule, f"FlagOp.{m}", f"truth table of {m}", derived=f"{show(r.ret)[:160]} :: {rows} rows {why}", expected="concrete (Python bool) arm and array arm both equal the Boolean function", where=W(m))
    r = ev.eval_fn(FO.methods["concrete_true"], FO.module, FO)
    chk.require(r.ret == ("is", F, C(True)), props_rule, "FlagOp.concrete_true", "f is True", derived=show(r.ret), expected="f is True", where=W("concrete_true"))
    r = ev.eval_fn(FO.methods["concrete_false"], FO.module, FO)
    chk.require(r.ret == ("is", F, C(False)), props_rule, "FlagOp.concrete_false", "f is False", derived=show(r.ret), expected="f is False", where=W("concrete_false"))
    # where / cond
    def by_kind(ret):
        """the result for f = True, f = False and a traced / array f: the decision tree is walked deciding `f is True`, `f is False`, isinstance(f, bool),
        `f == True / False` and the truthiness of a CONCRETE f; for a traced f the walk stops at the first test on f's value (that join is the traced arm)"""
        out = {}
        for kind in ("T", "F", "traced"):
            def walk(t, kind=kind):
                """the leaves reachable for this kind of flag; a test the table does not know (e.g. a concreteness test of an array flag) is explored both ways"""
                if not is_t(t, "phi"):
                    return [t]

                def truth(c):
                    if is_t(c, "bool"):
                        vs = [truth(x) for x in c[2]]
                        if "?" in vs:
                            return "?"
                        return None if any(v is None for v in vs) else (all(vs) if c[1] == "and" else any(vs))
                    if is_t(c, "un") and c[1] == "not":
                        v = truth(c[2])
                        return v if v in (None, "?") else not v
                    if is_t(c, "is") and c[1] == F and c[2] in (C(True), C(False)):
                        return kind != "traced" and (kind == "T") == c[2][1]
                    if (is_call(c, "concrete_true") or is_call(c, "concrete_false")) and c[2] == (F,):  # FlagOp's own predicates (`f is True` / `f is False`, judged above)
                        return kind != "traced" and (kind == "T") == is_call(c, "concrete_true")
                    if is_t(c, "cmp") and c[1] == "==" and c[2] == F and c[3] in (C(True), C(False)):
                        return None if kind == "traced" else (kind == "T") == c[3][1]
                    if is_t(c, "isinst") and c[1] == F and c[2] == "bool":
                        return kind != "traced"
                    if c == F:
                        return None if kind == "traced" else kind == "T"
                    return "?"
                v = truth(t[1])
                if v is None:
                    return [t]  # a join on the VALUE of a traced flag: this is the traced arm
                if v == "?":
                    return walk(t[2]) + walk(t[3])
                return walk(t[2] if v else t[3])
            leaves_ = walk(ret)
            out[kind] = leaves_[0] if all(x == leaves_[0] for x in leaves_) else ("conflict", tuple(leaves_))
        return out
    r = ev.eval_fn(FO.methods["where"], FO.module, FO)
    try:
        got = by_kind(r.ret)
    except Unrecognised as e:
        raise AnalysisError(f"FlagOp.where: unrecognised test {e}")
    # every flag that is not literally True / False - concrete ARRAYS included - goes through the elementwise select: an extra shortcut for concrete arrays
    # (e.g. `tf if f.all() else ff`) collapses a mixed vector flag to one side
    ok = got.get("T") == P("tf") and got.get("F") == P("ff") and got.get("traced") == ("where", F, P("tf"), P("ff"))
    # "agree ... for concrete and array flags": the concrete arms accept operands of any shape / dtype (they just return one), so the array arm must be the
    # BROADCASTING, dtype-promoting select (jnp.where); lax.select demands operands of the flag's shape and one dtype: where(array([T, F]), 3.0, 4.0) raises
    import ast as _ast
    sel_calls = [_ast.unparse(n.func) for n in _ast.walk(FO.methods["where"]) if isinstance(n, _ast.Call) and _ast.unparse(n.func).split(".")[-1] in ("select", "where", "select_n")]
    canon = [prog.canon(FO.module, c) for c in sel_calls]
    chk.require(len(canon) == 1 and canon[0] in ("jax.numpy.where",), props_rule, "FlagOp.where/broadcast", "array-flag select", derived=str(canon), expected="jnp.where(f, tf, ff) - broadcasts a vector flag against scalar operands and promotes dtypes, as the concrete arms implicitly do", where=W("where"))
    chk.require(ok, props_rule, "FlagOp.where", "True -> tf, False -> ff, traced select(f, tf, ff)", derived={k: show(v) for k, v in got.items()}.__str__(), expected="tf / ff / lax.select(f, tf, ff)", where=W("where"))
    r = ev.eval_fn(FO.methods["cond"], FO.module, FO)
    A = ("star", P("args"))
    try:
        got = by_kind(r.ret)
    except Unrecognised as e:
        raise AnalysisError(f"FlagOp.cond: unrecognised test {e}")
    ct, cf = ("call", P("tf"), (A,), ()), ("call", P("ff"), (A,), ())
    ok = got.get("T") == ct and got.get("F") == cf and got.get("traced") == ("phi", F, ct, cf)
    chk.require(ok, props_rule, "FlagOp.cond", "True -> tf(*args), False -> ff(*args), traced lax.cond(f, tf, ff, *args)", derived={k: show(v) for k, v in got.items()}.__str__(), expected="tf(*args) / ff(*args) / lax.cond(f, tf, ff, *args)", where=W("cond"))
    return n + 4


def choose_wrap(chk, prog):
    m, fn = prog.func("tree_choose", MOD)
    ev = Evaluator(prog)
    r = ev.eval_fn(fn, m)
    where = f"{m.rel}:{fn.lineno}"
    ok = is_t(r.ret, "treemap") and r.ret[2] == (("star", P("pytrees")),)
    chk.require(ok, "CHOOSE-WRAP", "tree_choose/map", "leafwise over all pytrees", derived=show(r.ret)[:200], expected="jtu.tree_map(inner, *pytrees)", where=where)
    # the leaf function is read off the evaluated map (a local def, a partial of a module-level worker, a lambda: all the same term): its value per kind of
    # index, the leaves of all pytrees being `vs`
    from ..rules import Undecided, pick
    VS = ("tuple", (("leaf", ("star", P("pytrees"))),))
    ch = ("call", G("jax.numpy.choose"), (P("idx"), VS), (("mode", C("wrap")),))
    got = {}
    if ok:
        for kind, is_int in (("int", True), ("array", False)):
            def atom(c, is_int=is_int):
                if is_t(c, "isinst") and c[1] == P("idx") and c[2] == "int":
                    return is_int
                raise Undecided(show(c))
            try:
                got[kind] = pick(r.ret[1], atom)
            except Undecided:
                got[kind] = None
    okm = got.get("array") == ch
    chk.require(okm, "CHOOSE-WRAP", "tree_choose/array", "jnp.choose(idx, vs, mode='wrap')", derived=show(got.get("array")), expected=show(ch), where=where)
    gi = got.get("int")
    # the concrete-int shortcut must give what the traced arm gives: same element (idx % len), same dtype AND same shape - jnp.choose broadcasts the choices
    # against each other, so a Switch whose branches return a scalar and a (3,) array has retval shape () eagerly and (3,) under jit unless the shortcut broadcasts
    cast = gi[2][0] if is_call(gi, "broadcast_to") and len(gi[2]) == 2 and gi[2][1] == ("attr", ch, "shape") else None
    oki = cast is not None and is_call(cast, "asarray") and is_t(cast[2][0], "index") and cast[2][0][1] == VS and cast[2][0][2] == ("bin", "%", P("idx"), ("call", G("len"), (VS,), ())) and dict(cast[3]).get("dtype") == ("attr", ch, "dtype")
    chk.require(oki, "CHOOSE-WRAP", "tree_choose/int", "the int shortcut applies the same normalisation (idx % len), casts to the choose dtype and broadcasts to the choose shape", derived=show(gi), expected="jnp.broadcast_to(jnp.asarray(vs[idx % len(vs)], dtype=result.dtype), result.shape)", where=where)


def mswitch(chk, prog):
    m, fn = prog.func("multi_switch", MOD)
    ev = Evaluator(prog)
    r = ev.eval_fn(fn, m)
    where = f"{m.rel}:{fn.lineno}"
    t = r.ret
    pairs = ("zip", (P("branches"), P("arg_tuples")))
    el = mk_elem(pairs)
    ok = is_call(t, "switch") and t[2][0] == P("idx")
    shapes = (dict(t[3]).get("operand") or (t[2][2] if len(t[2]) > 2 else None)) if ok else None  # lax.switch(index, branches, *operands)
    fns = t[2][1] if ok and len(t[2]) > 1 else None
    oks = is_t(shapes, "fam") and shapes[1] == pairs and is_t(shapes[2], "call") and is_call(shapes[2][1], "to_shape_fn") and shapes[2][1][2][0] == mk_proj(el, 0) and shapes[2][2] == (("star", mk_proj(el, 1)),)
    chk.require(ok and oks, "MSWITCH", "multi_switch/placeholders", "zero placeholders from the same (f, args) pairs", derived=show(shapes)[:200], expected="[to_shape_fn(f, zeros)(*args) for f, args in pairs] as the switch operand", where=where)
    okf = is_t(fns, "fam") and is_t(fns[1], "enumerate") and fns[1][1] == pairs
    setter = None
    if okf:
        body = fns[2]
        clo = ev.closure_of(body) or (is_t(body, "partial") or None)
        if clo is not None:
            setter = ev.apply(body, [P("$shapes")], module=m)
    en = ("elem", ("enumerate", pairs))
    want_i, want_pair = ("enumidx", pairs), mk_elem(pairs)
    oksetter = is_t(setter, "setitem") and setter[1] == P("$shapes") and setter[2] == want_i and setter[3] == ("call", mk_proj(want_pair, 0), (("star", mk_proj(want_pair, 1)),), ())
    chk.require(okf and oksetter, "MSWITCH", "multi_switch/setter", "branch i writes slot i with f_i(*args_i)", derived=show(setter)[:200] if setter else show(fns)[:200], expected="shapes[i] = f_i(*args_i) for i, (f_i, args_i) in enumerate(pairs)", where=where)


def run(chk, prog):
    n = flag_tables(chk, prog)
    choose_wrap(chk, prog)
    mswitch(chk, prog)
    chk.floor("FlagOp table obligations", n, 8)
    chk.explanation = "finite truth tables for FlagOp (concrete vs array arm), argument-order / mode checks for where, cond, tree_choose and multi_switch"
