"""Shared, spelling-independent judgements about the Diff helpers (used by C08, C09, C21): decided on the evaluated methods."""

from __future__ import annotations

import ast

from ..rules import Undecided, is_call, is_mcall, pick
from ..terms import Evaluator, G, P, is_t, mk_proj, show

INC = "interpreters/incremental.py"


def _is_leaf_kw(fn) -> bool:
    """the tree traversal treats each Diff as ONE leaf: is_leaf=Diff.is_diff (or an isinstance(.., Diff) lambda) on tree_map / tree_flatten"""
    kws = [k for n in ast.walk(fn) if isinstance(n, ast.Call) and ast.unparse(n.func).split(".")[-1] in ("tree_map", "tree_flatten", "map", "flatten") for k in n.keywords if k.arg == "is_leaf"]
    if len(kws) != 1:
        return False
    v = ast.unparse(kws[0].value).replace(" ", "")
    return v == "Diff.is_diff" or (v.startswith("lambda") and "isinstance(" in v and ",Diff)" in v)


def leaf_projection(prog, meth: str):
    """Diff.tree_primal / tree_tangent -> (ok_shape, leaf term L, body over L, is_leaf ok, text)"""
    D = prog.cls("Diff", INC)
    fn = D.methods[meth]
    ev = Evaluator(prog)
    r = ev.eval_fn(fn, D.module, D)
    t = r.ret
    v = P(fn.args.args[0].arg)
    L = body = None
    if is_t(t, "treemap") and t[2] == (v,):
        L, body = ("leaf", v), t[1]
    elif is_call(t, "tree_unflatten") and len(t[2]) == 2 and is_t(t[2][1], "fam"):
        fl = t[2][1][1]
        if is_t(fl, "proj") and fl[2] == 0 and is_call(fl[1], "tree_flatten") and fl[1][2][:1] == (v,) and t[2][0] == mk_proj(fl[1], 1):
            L, body = ("elem", fl), t[2][1][2]
    return L is not None, L, body, _is_leaf_kw(fn), show(t)[:200]


def leaf_cases(L, body):
    """(value for a Diff leaf, value for a plain leaf) of a leaf projection body, by deciding its test"""
    DIFFG = None
    out = []
    for is_diff in (True, False):
        def atom(c, is_diff=is_diff):
            if is_t(c, "isinst") and c[1] == L and c[2] == "Diff":
                return is_diff
            if is_call(c, "is_diff") and c[2] == (L,):
                return is_diff
            raise Undecided(show(c))
        out.append(pick(body, atom))
    return tuple(out)


def component(L, t, which: str) -> bool:
    """t reads the `which` component (primal / tangent) of the Diff leaf L: the getter or the field"""
    return t == ("call", ("attr", L, f"get_{which}"), (), ()) or t == ("attr", L, which)


def constant_tagging(prog, meth: str, tang: str):
    """Diff.no_change / unknown_change: the primal is stripped first (idempotent on tagged trees) and every leaf is paired with the constant `tang`"""
    from ..terms import const_tagging
    D = prog.cls("Diff", INC)
    fn = D.methods[meth]
    ev = Evaluator(prog)
    ev.inline_tag_helpers = True  # a parametrised helper (Diff.h(tree, T)) is read through: its body is what is judged
    r = ev.eval_fn(fn, D.module, D)
    t = r.ret
    x = P(fn.args.args[0].arg)
    return const_tagging(t, x, lambda g: is_t(g, "global") and g[1].endswith("." + tang)), show(t)[:200]
