"""C34 - get_subtrace returns the sub-execution at an address.

Decided: exhaustiveness (every Trace subclass with inner structure overrides get_inner_trace; the base raises); wrappers (Vmap, Scan, Mask, Dimap) delegate to
self.inner with the address unchanged; StaticTrace indexes subtraces by the full address; SwitchTrace selects the sub-trace by the trace's own clamped index;
get_subtrace folds left over the addresses; every combinator trace score is aggregated from the STORED sub-traces (SCORE-AGG / SCORE-GATE); StaticTrace score / choices are assembled from the same subtraces (so a subtrace's score is that call's contribution).
Not decided: numeric equality of the contribution.
"""
from ..gfi.all import ALL
from ..gfi.common import run_for
from .C38 import derived_methods


def run(chk, prog):
    n, obs = run_for(chk, prog, "C34", ALL)
    chk.floor("obligations tagged C34", n, 10)
    derived_methods(chk, prog)
    traces = prog.subclasses("Trace")
    k = 0
    for ci in traces:
        k += 1
        has = "get_inner_trace" in ci.methods
        need = ci.name != "DistributionTrace"
        chk.require(has or not need, "SUBTRACE-EXHAUSTIVE", ci.name, f"{ci.name}.get_inner_trace", derived=f"{ci.name} {'overrides' if has else 'does not override'} get_inner_trace", expected="every trace with inner structure overrides get_inner_trace", where=f"{ci.module.rel}:{ci.node.lineno}")
    chk.floor("Trace subclasses", k, 7)
    chk.explanation = "exhaustiveness and delegation of get_inner_trace over all 7 trace classes; left fold in get_subtrace"
