"""Taking obligations of one property's check into another's: `take(chk, prog, "C32", pred, what, floor)` runs C32's check on a scratch Check object and
copies the obligations selected by `pred(obligation)` (discharged or violated) into `chk`.  Used where an obligation is a necessary condition of several
properties (a closure's generate path is part of "any program" for the importance property, ...)."""
import importlib

from ..report import Check


def take(chk, prog, src: str, pred, what: str, floor: int) -> int:
    if getattr(chk, "nested", False):
        return 0  # obligations are taken one level deep only (a source check run for another property does not pull in its own imports: no cycles)
    mod = importlib.import_module(f"sa.props.{src}")
    tmp = Check(src, chk.tier, chk.seed, write_evidence=False)
    tmp.nested = True
    mod.run(tmp, prog)
    viol = {(v["rule"], v["instance"]): v for v in tmp.violations}
    n = 0
    for o in tmp.obligations:
        if not pred(o):
            continue
        n += 1
        v = viol.get((o["rule"], o["instance"]))
        if v:
            chk.violation(v["rule"], v["instance"], v["construct"], v["derived"], v["expected"], v["where"])
        else:
            chk.ok(o["rule"], o["instance"], o["fact"])
    chk.floor(what, n, floor)
    return n
