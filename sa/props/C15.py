"""C15 - dimap (DELEG-ROLE, TAG-PAIRING, argument order of post, decorators).

Induction step of the GFI oracle (DESIGN.md Appendix A): obligations tagged C15 emitted by the constructor analyses in sa/gfi/*.
Decided: the structural clauses named above, for every inner program / input / history at once (inner calls are opaque atoms; IH).
Not decided: numeric agreement up to tolerance; behaviour of JAX primitives.
"""
from ..gfi.all import ALL
from ..gfi.common import run_for


def run(chk, prog):
    n, obs = run_for(chk, prog, "C15", ALL)
    chk.floor("obligations tagged C15", n, 26)
    # "the new return value's change tag matches recomputing pre and post": Dimap.edit computes that tag by running the incremental interpreter over pre / post,
    # so the interpreter's loop skeleton and its propagation rule (C09's obligations) are necessary conditions of this property (incremental.py is an anchor).
    from ..report import Check
    from . import C09

    tmp = Check("C09", chk.tier, chk.seed, write_evidence=False)
    tmp.nested = True
    C09.run(tmp, prog)
    viol = {(v["rule"], v["instance"]): v for v in tmp.violations}
    n9 = 0
    for o in tmp.obligations:
        if o["rule"] not in ("TAG-PROPAGATE", "INTERP-SKELETON"):
            continue
        n9 += 1
        v = viol.get((o["rule"], o["instance"]))
        if v:
            chk.violation(v["rule"], v["instance"], v["construct"], v["derived"], v["expected"], v["where"])
        else:
            chk.ok(o["rule"], o["instance"], o["fact"])
    chk.floor("incremental-interpreter obligations (from C09)", n9, 8)
    chk.explanation = "structural-induction obligations for C15: dimap (DELEG-ROLE, TAG-PAIRING, argument order of post, decorators); each inner GFI call is an opaque atom (induction hypothesis), the derived provenance terms / linear forms are compared with the oracle table"
    for o in [o for o in obs.items if "C15" in o["props"]][:6]:
        chk.sample({"rule": o["rule"], "instance": o["instance"], "derived": o["derived"][:200], "expected": o["expected"][:160]})
