"""C30 - VI objective gradient estimators.

Decided (LOSS-SIGN and composition, structural): ELBO = -estimate_normalizing_constant of Importance(target, guide) (one particle: target weight - guide weight, by C26/C25);
IWELBO = the same with ImportanceK(target, proposal, N); PWake = -score of the target trace at a sample of the posterior approximation; QWake =
-proposal.estimate_logpdf(sample from the posterior approximation, target); keys / arguments threaded (distinct sub-keys for the two random steps); each closure is
wrapped by `expectation` and differentiated at the given arguments; estimate_normalizing_constant is the log mean weight of ChangeTarget(self, target).run_smc;
adev_distribution pairs each ADEV primitive with the log density of the same family.
Not decided: unbiasedness of the gradient estimates (behavioural; depends on C25, C26, C29 - whose open findings are reported there, not here).
"""
import ast

from ..program import AnalysisError
from ..rules import is_call, is_mcall, mcalls, mentions
from ..terms import C, Evaluator, G, P, is_t, mk_proj, show, subterms

VI = "_src/inference/vi.py"
SMC = "_src/inference/smc.py"

FAMILY = {  # exported ADEV distribution -> family of the density it must be paired with
    "flip_enum": "flip", "flip_mvd": "flip", "categorical_enum": "Categorical", "normal_reinforce": "normal", "normal_reparam": "normal",
    "mv_normal_diag_reparam": "MultivariateNormalDiag", "geometric_reinforce": "geometric",
}


def run(chk, prog):
    m = prog.module(VI)
    specs = {
        "ELBO": dict(env=["guide", "make_target"], alg=("Importance", lambda tgt: (tgt, P("guide")))),
        "IWELBO": dict(env=["proposal", "make_target", "N"], alg=("ImportanceK", lambda tgt: (tgt, P("proposal"), P("N")))),
    }
    for name, sp in specs.items():
        _, fn = prog.func(name, VI)
        where = f"{m.rel}:{fn.lineno}"
        # decided on what the objective returns: a function (key, args) -> L.grad_estimate(key, args) with L an @expectation whose body, applied to the
        # target arguments, is the negated evidence estimate - wherever L is defined (inline, or built by a shared helper)
        ev = Evaluator(prog)
        r0 = ev.eval_fn(fn, m)
        if ev.closure_of(r0.ret) is None:
            raise AnalysisError(f"{name} does not return a gradient-estimate function")
        rg_ = ev.apply(r0.ret, [P("key"), P("args")], module=m)
        lossc = rg_[1][1] if is_mcall(rg_, "grad_estimate") else None
        lclo = ev.closure_of(lossc) if lossc is not None else None
        if lclo is None:
            raise AnalysisError(f"{name}: the gradient estimate is not <expectation>.grad_estimate(key, args)")
        where = f"{m.rel}:{lclo.node.lineno}"
        rl = ev.apply(lossc, [("star", P("$targs"))], module=m)
        tgt = ("call", P("make_target"), (("star", P("$targs")),), ())
        alg = ("ctor", sp["alg"][0], sp["alg"][1](tgt), ())
        want = ("un", "-", ("call", ("attr", alg, "estimate_normalizing_constant"), (P("key"), tgt), ()))
        chk.require(rl == want, "LOSS-SIGN", f"{name}._loss", "negative log normalizing-constant estimate of the guide-proposal importance sampler", derived=show(rl)[:260], expected=show(want)[:260], where=where)
        deco = [ast.unparse(d) for d in getattr(lclo.node, "decorator_list", [])]
        okg = rg_[2] == (P("key"), P("args")) and deco == ["expectation"]
        chk.require(okg, "LOSS-SIGN", f"{name}.grad_estimate", "expectation(_loss).grad_estimate(key, args)", derived=f"{show(rg_)[:160]} decorators={deco}", expected="@expectation _loss; _loss.grad_estimate(key, args)", where=where)
    for name, envn in (("PWake", ["posterior_approx", "make_target"]), ("QWake", ["proposal", "posterior_approx", "make_target"])):
        _, fn = prog.func(name, VI)
        ge = prog.nested(fn, "grad_estimate")
        loss = prog.nested(ge, "_loss")
        where = f"{m.rel}:{loss.lineno}"
        ev = Evaluator(prog)
        rg = ev.eval_fn(ge, m, env0={k: P(k) for k in envn})
        # evaluate the loss closure in the environment grad_estimate built (sub keys)
        clo = [x for x in subterms(rg.ret) if ev.closure_of(x) is not None and ev.closure_of(x).node is loss]
        lossc = None
        for k, c in ev.closures.items():
            if c.node is loss:
                lossc = ("closure", k)
        if lossc is None:
            raise AnalysisError(f"{name}: _loss closure not found")
        rl = ev.apply(lossc, [("star", P("target_args"))], module=m)
        sp3 = ("call", G("jax.random.split"), (P("key"), C(3)), ())
        k1, k2 = mk_proj(sp3, 1), mk_proj(sp3, 2)
        tgt = ("call", P("make_target"), (("star", P("target_args")),), ())
        smp = mk_proj(("call", ("attr", P("posterior_approx"), "random_weighted"), (k1, tgt), ()), 1)
        if name == "PWake":
            tr = mk_proj(("call", ("attr", tgt, "importance"), (k2, smp), ()), 0)
            want = ("un", "-", ("call", ("attr", tr, "get_score"), (), ()))
            exp = "-target.importance(k2, sample ~ posterior_approx(k1, target))[0].get_score()"
        else:
            want = ("un", "-", ("call", ("attr", P("proposal"), "estimate_logpdf"), (k2, smp, tgt), ()))
            exp = "-proposal.estimate_logpdf(k2, sample ~ posterior_approx(k1, target), target)"
        chk.require(rl == want, "LOSS-SIGN", f"{name}._loss", exp, derived=show(rl)[:300], expected=show(want)[:300], where=where)
        chk.require(k1 != k2, "KEY-LINEAR", f"{name}/keys", "distinct sub-keys for sampling and scoring", derived=f"{show(k1)} / {show(k2)}", expected="distinct", where=where)
        okg = is_mcall(rg.ret, "grad_estimate") and rg.ret[2][1] == P("args")
        chk.require(okg, "LOSS-SIGN", f"{name}.grad_estimate", "expectation(_loss).grad_estimate(key', args)", derived=show(rg.ret)[:160], expected="_loss.grad_estimate(key, args)", where=where)
    # estimate_normalizing_constant
    SA = prog.cls("SMCAlgorithm", SMC)
    ev = Evaluator(prog)
    ev.ctor_methods.add("log_marginal_likelihood_estimate")  # ChangeTarget(self, target).log_marginal_likelihood_estimate(k): the retargeted algorithm's own estimate, read through
    r = ev.eval_fn(SA.methods["estimate_normalizing_constant"], SA.module, SA)
    t = r.ret
    ok = is_mcall(t, "get_log_marginal_likelihood_estimate") and is_mcall(t[1][1], "run_smc") and t[1][1][1][1] == ("ctor", "ChangeTarget", (P("self"), P("target")), ())
    chk.require(ok, "WEIGHT-INF", "SMCAlgorithm.estimate_normalizing_constant", "log mean weight of the retargeted particles", derived=show(t)[:200], expected="ChangeTarget(self, target).run_smc(k).get_log_marginal_likelihood_estimate()", where=f"{SA.module.rel}:{SA.methods['estimate_normalizing_constant'].lineno}")
    # adev_distribution
    _, ad = prog.func("adev_distribution", VI)
    ev = Evaluator(prog)
    ra = ev.eval_fn(ad, m)
    samp, lp = prog.nested(ad, "sampler"), prog.nested(ad, "logpdf")
    oke = is_call(ra.ret, "exact_density") and ev.closure_of(ra.ret[2][0]).node is samp and ev.closure_of(ra.ret[2][1]).node is lp
    chk.require(oke, "SIBLING-DENSITY", "adev_distribution/pairing", "exact_density(sampler, logpdf, name)", derived=show(ra.ret)[:160], expected="sampler first, logpdf second", where=f"{m.rel}:{ad.lineno}")
    rs = ev.apply(ra.ret[2][0], [P("$key"), ("star", P("$a"))], module=m)
    oks = is_call(rs, "sample_primitive") and rs[2] == (P("adev_primitive"), ("star", P("$a"))) and dict(rs[3]).get("key") == P("$key")
    chk.require(oks, "KEY-LINEAR", "adev_distribution.sampler", "sample_primitive(adev_primitive, *args, key=key)", derived=show(rs)[:160], expected="the given key reaches the primitive", where=f"{m.rel}:{samp.lineno}")
    rl = ev.apply(ra.ret[2][1], [P("$v"), ("star", P("$a"))], module=m)
    base = ("call", P("differentiable_logpdf"), (P("$v"), ("star", P("$a"))), ())
    okl = rl == base or (is_t(rl, "phi") and is_call(rl[2], "sum") and rl[2][2] == (base,) and rl[3] == base)
    chk.require(okl, "SIBLING-DENSITY", "adev_distribution.logpdf", "the differentiable log density of the same value and arguments, summed", derived=show(rl)[:200], expected="sum(differentiable_logpdf(v, *args))", where=f"{m.rel}:{lp.lineno}")
    n = 0
    for name, val in m.assigns.items():
        if isinstance(val, ast.Call) and ast.unparse(val.func) == "adev_distribution" and len(val.args) == 3:
            n += 1
            prim, lpd = ast.unparse(val.args[0]), ast.unparse(val.args[1])
            fam = FAMILY.get(name)
            ok = fam is not None and (f"logpdf({fam})" == lpd or f"tfd.{fam}(" in lpd) and prim.startswith(name.split("_enum")[0].split("_re")[0].split("_mvd")[0]) 
            chk.require(ok, "SIBLING-DENSITY", f"vi.{name}", f"{name}: primitive {prim} paired with {lpd[:50]}", derived=ast.unparse(val)[:160], expected=f"primitive of the {fam} family with that family's log density", where=f"{m.rel}:{val.lineno}")
    chk.floor("adev_distribution bindings", n, 7)
    _, lf = prog.func("logpdf", VI)
    rl = Evaluator(prog).eval_fn(lf, m)
    from ..report import Check
    from . import C26, C29

    for mod_, keep in ((C26, lambda o: o["instance"].startswith(("Importance.run_smc", "ImportanceK.run_smc", "ParticleCollection.get_log", "Target."))),
                       (C29, lambda o: o["rule"] in ("REPARAM-NOISE", "REINFORCE-FORM", "ESTIMATE-DEP") or o["instance"].startswith(("NormalREPARAM", "MvNormalDiagREPARAM", "FlipEnum.", "TailCall", "Expectation")))):
        tmp = Check(mod_.__name__.split(".")[-1], chk.tier, chk.seed, write_evidence=False)
        tmp.nested = True
        mod_.run(tmp, prog)
        viol = {(v["rule"], v["instance"]): v for v in tmp.violations}
        for o in tmp.obligations:
            if keep(o):
                v = viol.get((o["rule"], o["instance"]))
                if v:
                    chk.violation(v["rule"], v["instance"], v["construct"], v["derived"], v["expected"], v["where"])
                else:
                    chk.ok(o["rule"], o["instance"], o["fact"])
    chk.note("inherited open findings (owned elsewhere, one defect one finding): C26 PROPOSAL-PAIRING / RETAINED-SCORE (CSMC side), C29 KONT-ARITY for flip_mvd / categorical_enum guides")
    # a guide declared with @marginal contributes Marginal.random_weighted's weight as its log density (C25's obligations)
    from ._share import take
    take(chk, prog, "C25", lambda o: o["instance"].startswith("Marginal.random_weighted") and "returned-weight" not in o["instance"], "Marginal.random_weighted obligations (from C25)", 4)
    chk.explanation = "sign and composition of the four VI losses, key threading, and family pairing of ADEV primitives with log densities"
