"""C38 - derived GFI methods and request combinators agree with the primitives.

Decided: DELEG-ROLE for update / importance / propose (all three outputs of propose come from the one simulated trace), Trace.edit / update / project,
PrimitiveEditRequest.edit; EmptyRequest (TAG-SHORTCUT-GUARD: identity with weight 0 only when ALL argdiffs are NoChange, else an empty Update);
StaticEditRequestHandler defaults to EmptyRequest() and looks everything up at the same address (ADDR-ALIGN); DiffAnnotate applies argdiff_fn before and retdiff_fn
after and passes everything else through; SIBLING-NORMALISE for the StaticRequest path.  Not decided: behaviour of the primitives themselves (other properties).
"""
from ..gfi import distribution, static_lang
from ..gfi.common import ctor_fields, is_zero, run_for
from ..gfi.distribution import is_empty_chm, is_tag, is_update
from ..rules import Arms, is_call, is_mcall
from ..terms import C, Evaluator, G, P, is_t, mk_proj, show

GF = "core/generative/generative_function.py"
SELF = P("self")


def derived_methods(chk, prog):
    ev = Evaluator(prog)
    g = prog.cls("GenerativeFunction", GF)
    t = prog.cls("Trace", GF)
    W = lambda c, m: f"{c.module.rel}:{c.methods[m].lineno}"
    r = ev.eval_fn(g.methods["importance"], g.module, g)
    chk.require(r.ret == ("call", ("attr", SELF, "generate"), (P("key"), P("constraint"), P("args")), ()), "DELEG-ROLE", "GenerativeFunction.importance", "importance == generate", derived=show(r.ret), expected="self.generate(key, constraint, args)", where=W(g, "importance"))
    # update is the primitive Update edit performed BY SELF: `Update(c).edit(key, trace, argdiffs)` dispatches on trace.get_gen_fn(), which for a closure / kwargs
    # wrapper is the wrapped function - it never sees the stored arguments (g.edit works, g.update raised or silently used default arguments)
    evu = Evaluator(prog)
    evu.opaque_methods.add("edit")
    r = evu.eval_fn(g.methods["update"], g.module, g)
    E = ("call", ("attr", SELF, "edit"), (P("key"), P("trace"), ("ctor", "Update", (P("constraint"),), ()), P("argdiffs")), ())
    want = ("tuple", (mk_proj(E, 0), mk_proj(E, 1), mk_proj(E, 2), ("attr", mk_proj(E, 3), "constraint")))
    chk.require(r.ret == want, "DELEG-ROLE", "GenerativeFunction.update", "self.edit(key, trace, Update(constraint), argdiffs); backward constraint unwrapped", derived=show(r.ret)[:300], expected=show(want)[:300], where=W(g, "update"))
    r = ev.eval_fn(g.methods["propose"], g.module, g)
    tr = ("call", ("attr", SELF, "simulate"), (P("key"), P("args")), ())
    want = ("tuple", tuple(("call", ("attr", tr, a), (), ()) for a in ("get_choices", "get_score", "get_retval")))
    chk.require(r.ret == want, "DELEG-ROLE", "GenerativeFunction.propose", "choices, score, retval of one simulate(key, args)", derived=show(r.ret)[:200], expected=show(want)[:200], where=W(g, "propose"))
    # the derived methods are defined ONCE, in terms of the primitive ones: a subclass that overrides one replaces the checked definition by its own
    # (e.g. an ExactDensity.propose that scores without the event-dimension sum of estimate_logpdf changes every forward proposal score of Rejuvenate)
    derived = ("importance", "update", "propose")
    over = []
    for sub in prog.subclasses("GenerativeFunction"):
        for mname in derived:
            if mname in sub.methods:
                over.append(f"{sub.name}.{mname} ({sub.module.rel}:{sub.methods[mname].lineno})")
    REVIEWED = {"GenerativeFunctionClosure.propose", "GenerativeFunctionClosure.importance", "GenerativeFunctionClosure.update", "IgnoreKwargs.propose", "IgnoreKwargs.importance", "IgnoreKwargs.update"}
    unrev = [o for o in over if o.split(" ")[0] not in REVIEWED]
    chk.require(not unrev, "DERIVED-OVERRIDE", "GenerativeFunction/derived-methods", "subclass overriding a derived GFI method", derived=str(unrev) if unrev else f"{len(over)} reviewed override(s)",
                expected="importance / update / propose are inherited from GenerativeFunction (closures and kwargs wrappers forward them and are judged by C32)", where=W(g, "propose"))
    # Trace.edit / update / project
    ad = ("phi", ("is", P("argdiffs"), C(None)), ("call", ("attr", G("genjax._src.core.compiler.interpreters.incremental.Diff"), "no_change"), (("call", ("attr", SELF, "get_args"), (), ()),), ()), P("argdiffs"))
    r = ev.eval_fn(t.methods["edit"], t.module, t)
    chk.require(r.ret == ("call", ("attr", P("request"), "edit"), (P("key"), SELF, ad), ()), "DELEG-ROLE", "Trace.edit", "request.edit(key, self, argdiffs or no_change(own args))", derived=show(r.ret)[:200], expected="request.edit(key, self, Diff.no_change(self.get_args()) if argdiffs is None else argdiffs)", where=W(t, "edit"))
    r = ev.eval_fn(t.methods["update"], t.module, t)
    gfn = ("call", ("attr", SELF, "get_gen_fn"), (), ())
    chk.require(r.ret == ("call", ("attr", gfn, "update"), (P("key"), SELF, P("constraint"), ad), ()), "DELEG-ROLE", "Trace.update", "gen_fn.update(key, self, constraint, argdiffs)", derived=show(r.ret)[:200], expected="self.get_gen_fn().update(key, self, constraint, ...)", where=W(t, "update"))
    r = ev.eval_fn(t.methods["project"], t.module, t)
    chk.require(r.ret == ("call", ("attr", gfn, "project"), (P("key"), SELF, P("selection")), ()), "DELEG-ROLE", "Trace.project", "gen_fn.project(key, self, selection)", derived=show(r.ret)[:200], expected="self.get_gen_fn().project(key, self, selection)", where=W(t, "project"))
    r = ev.eval_fn(t.methods["get_subtrace"], t.module, t)
    ok = is_t(r.ret, "loop") and r.ret[1] == P("addresses") and r.ret[2] == SELF and r.ret[3] == ("call", ("attr", SELF, "get_inner_trace"), (("elem", P("addresses")),), ())
    chk.require(ok, "SUBTRACE", "Trace.get_subtrace", "left fold of get_inner_trace over the addresses", derived=show(r.ret)[:160], expected="reduce(lambda tr, addr: tr.get_inner_trace(addr), addresses, self)", where=W(t, "get_subtrace"))
    # PrimitiveEditRequest.edit
    pe = prog.cls("PrimitiveEditRequest", "core/generative/concepts.py")
    r = ev.eval_fn(pe.methods["edit"], pe.module, pe)
    want = ("call", ("attr", ("call", ("attr", P("tr"), "get_gen_fn"), (), ()), "edit"), (P("key"), P("tr"), SELF, P("argdiffs")), ())
    chk.require(r.ret == want, "DELEG-ROLE", "PrimitiveEditRequest.edit", "tr.get_gen_fn().edit(key, tr, self, argdiffs)", derived=show(r.ret)[:200], expected=show(want), where=W(pe, "edit"))


def request_combinators(chk, prog):
    ev = Evaluator(prog)
    RQ = "core/generative/requests.py"
    er = prog.cls("EmptyRequest", RQ)
    W = lambda c, m: f"{c.module.rel}:{c.methods[m].lineno}"
    r = ev.eval_fn(er.methods["edit"], er.module, er)
    got = Arms()
    for conds, ret in r.returns:
        guard = [t for t, p in conds if p and is_call(t, "static_check_no_change")]
        got["shortcut" if guard else "else"] = (ret, guard)
    sc = got.get("shortcut")
    oks = sc is not None and is_t(sc[0], "tuple") and len(sc[0][1]) == 4 and sc[0][1][0] == P("tr") and is_zero(sc[0][1][1]) and is_tag(sc[0][1][2], "no_change", ("call", ("attr", P("tr"), "get_retval"), (), ())) \
        and sc[0][1][3] == ("ctor", "EmptyRequest", (), ()) and sc[1][0][2] == (P("argdiffs"),)
    chk.require(oks, "TAG-SHORTCUT-GUARD", "EmptyRequest.edit", "identity shortcut guard", derived=show(sc[0])[:200] + " under " + (show(sc[1][0]) if sc and sc[1] else "?") if sc else "no shortcut arm",
                expected="(tr, 0, no_change(tr.get_retval()), EmptyRequest()) only when static_check_no_change(ALL argdiffs)", where=W(er, "edit"))
    el = got.get("else")
    oke = el is not None and el[0] == ("call", ("attr", ("ctor", "Update", (("call", ("attr", G("genjax._src.core.generative.choice_map.ChoiceMap"), "empty"), (), ()),), ()), "edit"), (P("key"), P("tr"), P("argdiffs")), ())
    chk.require(oke, "DELEG-ROLE", "EmptyRequest.edit/else", "an empty Update when arguments change", derived=show(el[0])[:200] if el else "none", expected="Update(ChoiceMap.empty()).edit(key, tr, argdiffs)", where=W(er, "edit"))
    da = prog.cls("DiffAnnotate", RQ)
    r = ev.eval_fn(da.methods["edit"], da.module, da)
    S = P("self")
    na = ("call", ("attr", S, "argdiff_fn"), (P("argdiffs"),), ())
    E = ("call", ("attr", ("attr", S, "request"), "edit"), (P("key"), P("tr"), na), ())
    want = ("tuple", (mk_proj(E, 0), mk_proj(E, 1), ("call", ("attr", S, "retdiff_fn"), (mk_proj(E, 2),), ()), mk_proj(E, 3)))
    chk.require(r.ret == want, "DELEG-ROLE", "DiffAnnotate.edit", "argdiff_fn before, retdiff_fn after, everything else passed through", derived=show(r.ret)[:300], expected=show(want)[:300], where=W(da, "edit"))
    import ast

    defaults = {s.target.id: ast.unparse(s.value) for s in da.node.body if isinstance(s, ast.AnnAssign) and s.value is not None}
    okd = all("lambda v: v" in defaults.get(k, "") for k in ("argdiff_fn", "retdiff_fn"))
    chk.require(okd, "DELEG-ROLE", "DiffAnnotate/defaults", "identity maps by default", derived=str(defaults)[:200], expected="default=lambda v: v for both", where=f"{da.module.rel}:{da.node.lineno}")
    eq = prog.cls("EditRequest", "core/generative/concepts.py")
    r = ev.eval_fn(eq.methods["dimap"], eq.module, eq)
    fm_ = ctor_fields(prog, r.ret, "DiffAnnotate", "EditRequest.dimap") if is_t(r.ret, "ctor") else {}
    okm = is_t(r.ret, "ctor") and r.ret[2][:1] == (S,) and fm_.get("argdiff_fn") == P("pre") and fm_.get("retdiff_fn") == P("post")
    chk.require(okm, "DELEG-ROLE", "EditRequest.dimap", "pre -> argdiff_fn, post -> retdiff_fn", derived=show(r.ret)[:200], expected="DiffAnnotate(self, argdiff_fn=pre, retdiff_fn=post)", where=W(eq, "dimap"))


def run(chk, prog):
    n, obs = run_for(chk, prog, "C38", [distribution.analyse, static_lang.analyse])
    chk.floor("obligations tagged C38", n, 15)
    derived_methods(chk, prog)
    request_combinators(chk, prog)
    chk.explanation = "delegation wiring of derived GFI methods and request combinators; identity-shortcut guard of EmptyRequest; StaticRequest handler alignment and normalisation"
