"""C37 - DiscreteHMM posterior density and sampler.

Decided: CALLABLE-AS-DATA (the tensor accessors of DiscreteHMMConfiguration appear only in call position); SIBLING-DENSITY (sampler and density
read the same three tensors with the same initial row); the posterior is joint minus marginal (normalised); random_weighted scores the sequence it
sampled, with distinct keys; FFBS-RECURSION (the sampler's two scans have the forward-filter / backward-sample recursion: alpha_t from obs column and
logsumexp over the previous state of alpha_{t-1}(j) + T[j, i], normalised filters, backward scan over the reversed filters with x_T from the last filter and x_{t-1} from
filter + T[:, x_t] normalised, fresh sub key per step, samples flipped back; linear forms; index orientation is part of the rule because
the tensors are asymmetric once the truncation distance reaches N/2).  Not decided: numeric exactness of the posterior / sampler (declined).
"""
import ast

from ..linform import lin, show_lin
from ..program import AnalysisError
from ..rules import calls, is_call, is_mcall, mcalls, mentions, mentions_any
from ..terms import C, Evaluator, P, is_t, mk_proj, show, subterms

MOD = "distributions/custom/discrete_hmm.py"


def run(chk, prog):
    m = prog.module(MOD)
    cfg = prog.cls("DiscreteHMMConfiguration", MOD)
    accessors = {n for n, f in cfg.methods.items() if not any(ast.unparse(d) == "staticmethod" for d in f.decorator_list) and len(f.args.args) == 1}
    chk.floor("tensor accessors of DiscreteHMMConfiguration", len(accessors), 2)
    # ---- CALLABLE-AS-DATA over the whole module
    parents = {}
    for n in ast.walk(m.tree):
        for c in ast.iter_child_nodes(n):
            parents[c] = n
    n_uses = 0
    for n in ast.walk(m.tree):
        if isinstance(n, ast.Attribute) and n.attr in accessors and isinstance(n.ctx, ast.Load):
            n_uses += 1
            p = parents.get(n)
            called = isinstance(p, ast.Call) and p.func is n
            fn = n
            while fn in parents and not isinstance(fn, ast.FunctionDef):
                fn = parents[fn]
            fname = fn.name if isinstance(fn, ast.FunctionDef) else "<module>"
            chk.require(called, "CALLABLE-AS-DATA", f"{fname}/{ast.unparse(n)}", f"{ast.unparse(n)} used as a value",
                        derived=f"`{ast.unparse(p)[:120]}` passes the bound method", expected=f"{ast.unparse(n)}() - the tensor", where=f"{m.rel}:{n.lineno}")
    chk.floor("accessor use sites", n_uses, 4)
    # SIBLING agreement: transition_tensor and observation_tensor are the same construction over their own fields (grid, truncation, sigma): after renaming
    # the fields the two bodies must be the same expression - a sign that differs in one of them (`else -np.inf` vs `else np.inf` for sigma = 0) is a defect
    def _rename_fields(t):
        if isinstance(t, tuple):
            if is_t(t, "attr") and isinstance(t[2], str) and (t[2].endswith("_trans") or t[2].endswith("_obs")):
                return ("attr", _rename_fields(t[1]), t[2].rsplit("_", 1)[0] + "_X")
            return tuple(_rename_fields(x) if isinstance(x, tuple) else x for x in t)
        return t
    if {"transition_tensor", "observation_tensor"} <= set(cfg.methods):
        ta_ = _rename_fields(Evaluator(prog).eval_fn(cfg.methods["transition_tensor"], m, cfg).ret)
        tb_ = _rename_fields(Evaluator(prog).eval_fn(cfg.methods["observation_tensor"], m, cfg).ret)
        chk.require(ta_ == tb_, "SIBLING-DENSITY", "DiscreteHMMConfiguration/tensor-accessors", "transition_tensor vs observation_tensor", derived=f"transition: {show(ta_)[:200]}  |  observation: {show(tb_)[:200]}",
                    expected="the same construction up to the field suffix (_trans / _obs)", where=f"{m.rel}:{cfg.methods['transition_tensor'].lineno}")
    ev = Evaluator(prog)
    CFG, OBS = P("config"), P("observation_sequence")
    TT = ("call", ("attr", CFG, "transition_tensor"), (), ())
    OT = ("call", ("attr", CFG, "observation_tensor"), (), ())
    # ---- density side
    _, lm = prog.func("latent_marginals", MOD)
    r = ev.eval_fn(lm, m)
    hmm = mk_proj(r.ret, 0)
    where = chk.where(m, lm)
    # positional or by TFP's parameter names
    HMM_PARAMS = ("initial_distribution", "transition_distribution", "observation_distribution", "num_steps")
    hargs = None
    if is_call(hmm, "HiddenMarkovModel"):
        kw_ = dict(hmm[3])
        hargs = [hmm[2][i] if i < len(hmm[2]) else kw_.get(n_) for i, n_ in enumerate(HMM_PARAMS)]
    okh = hargs is not None and all(x is not None for x in hargs)
    chk.require(okh, "SIBLING-DENSITY", "latent_marginals/hmm", "tfd.HiddenMarkovModel(initial, transition, observation, num_steps)", derived=show(hmm)[:200], expected="initial, transition, observation distributions and num_steps", where=where)
    if okh:
        init_d, trans_d, obs_d, steps = hargs
        lg = lambda d: dict(d[3]).get("logits") if is_call(d, "Categorical") else None
        chk.require(lg(trans_d) == TT, "SIBLING-DENSITY", "latent_marginals/transition", "transition logits", derived=show(lg(trans_d))[:120], expected="config.transition_tensor()", where=where)
        chk.require(lg(obs_d) == OT, "SIBLING-DENSITY", "latent_marginals/observation", "observation logits", derived=show(lg(obs_d))[:120], expected="config.observation_tensor()", where=where)
        il = lg(init_d)
        chk.require(il is not None and is_t(il, "index") and il[1] == TT and mentions(il[2], ("attr", CFG, "linear_grid_dim")), "SIBLING-DENSITY", "latent_marginals/initial", "initial row",
                    derived=show(il)[:160], expected="config.transition_tensor()[int(linear_grid_dim / 2), :]", where=where)
        chk.require(steps == ("call", ("global", "len"), (OBS,), ()), "SIBLING-DENSITY", "latent_marginals/steps", "num_steps", derived=show(steps), expected="len(observation_sequence)", where=where)
        init_density = il
    # ---- sampler side reads the same tensors / the same initial row
    _, ff = prog.func("forward_filtering_backward_sampling", MOD)
    r2 = ev.eval_fn(ff, m)
    env = r2.env
    where2 = chk.where(m, ff)
    prior, trn, obn = env.get("prior"), env.get("transition_n"), env.get("obs_n")
    if prior is None or trn is None or obn is None:
        raise AnalysisError("forward_filtering_backward_sampling: prior / transition_n / obs_n not found")
    for nm_, t_ in (("prior", prior), ("transition_n", trn), ("obs_n", obn)):
        chk.require(is_call(t_, "log_softmax") and not mentions_any(t_, lambda x: is_call(x, "softmax")), "FFBS-RECURSION", f"ffbs/{nm_}-logspace", "normalised log-probabilities", derived=show(t_)[:120],
                    expected="jax.nn.log_softmax(...) - log(softmax(.)) underflows to -inf for logits far below the maximum", where=where2)
    ix = [x for x in subterms(prior) if is_t(x, "index") and x[1] == TT]
    chk.require(len(ix) == 1 and okh and ix[0] == init_density, "SIBLING-DENSITY", "ffbs/initial", "sampler's initial row equals the density's", derived=show(prior)[:160],
                expected="log softmax of the same row of config.transition_tensor()", where=where2)
    chk.require(mentions(trn, TT) and not mentions(trn, OT), "SIBLING-DENSITY", "ffbs/transition", "transition tensor", derived=show(trn)[:120], expected="from config.transition_tensor()", where=where2)
    chk.require(mentions(obn, OT) and not mentions(obn, TT), "SIBLING-DENSITY", "ffbs/observation", "observation tensor", derived=show(obn)[:120], expected="from config.observation_tensor()", where=where2)
    # ---- posterior = joint - marginal
    _, lp = prog.func("latent_sequence_posterior", MOD)
    ev3 = Evaluator(prog)
    ev3.opaque_funcs.add("latent_marginals")
    r3 = ev3.eval_fn(lp, m)
    prod = mk_proj(r3.ret, 0)
    f = lin(prod)
    lps = [mm for mm in f if len(mm) == 1 and is_mcall(next(iter(mm)), "log_prob")]
    sums = [mm for mm in f if len(mm) == 1 and (is_call(next(iter(mm)), "sum") or is_t(next(iter(mm)), "sumI"))]
    okp = len(lps) == 1 and f[lps[0]] == -1 and len(sums) == len(f) - 1 >= 1 and all(f[s_] == 1 for s_ in sums) and next(iter(lps[0]))[2] == (OBS,)
    chk.require(okp, "WEIGHT-INF", "latent_sequence_posterior/normalise", "log posterior = log joint - log marginal", derived=show_lin(f)[:300], expected="+sum(step log-probs) - hmm.log_prob(observation_sequence)", where=chk.where(m, lp))
    if len(ev3.scans) == 1:
        sid, sc = next(iter(ev3.scans.items()))
        lat, ob = mk_proj(("elem", sc.xs), 0) if not is_t(sc.xs, "tuple") else None, None
        y, co = sc.y, sc.carry_out
        chk.require(mentions_any(y, lambda x: is_t(x, "index") and is_t(x[1], "scanc")) and mentions_any(y, lambda x: is_t(x, "attr") and x[2] == "observation_distribution"), "SIBLING-DENSITY", "latent_sequence_posterior/step",
                    "step log-prob = log carry[latent] + log obs[latent, obs]", derived=show(y)[:300], expected="uses the carried row and the observation logits", where=chk.where(m, lp))
        chk.require(mentions_any(co, lambda x: is_t(x, "attr") and x[2] == "transition_distribution") and not mentions_any(co, lambda x: is_t(x, "attr") and x[2] == "observation_distribution"),
                    "CARRY-THREAD", "latent_sequence_posterior/carry", "next carry = transition row of the current latent", derived=show(co)[:200], expected="softmax(transition logits[latent, :])", where=chk.where(m, lp))
        # exact step form (orientation included): log carry[z_t] + log softmax(obs logits)[z_t, y_t]; carry' = softmax(trans logits[z_t, :]); carry_0 = softmax(initial logits)
        ZL, YL = ("elem", P("latent_point")), ("elem", OBS)
        hm = mk_proj(("call", ("global", m.dotted + ".latent_marginals"), (CFG, OBS), ()), 0)
        lg_ = lambda d: ("attr", ("attr", hm, d), "logits")
        sm_ = lambda x: ("call", ("global", "jax.nn.softmax"), (x,), ())
        log_ = lambda x: ("call", ("global", "jax.numpy.log"), (x,), ())
        ALL_ = ("sliceobj", C(None), C(None), C(None))
        carry_t = sc.carry_in
        # the recursion is carried in LOG space (log_softmax): log(softmax(x)) underflows to -inf once a logit is ~100 below the maximum (sigma = 0.01), where
        # the exact log posterior is finite.  Step: carry[z_t] + log_softmax(obs logits)[z_t, y_t]; carry' = log_softmax(trans logits[z_t, :]); carry_0 = log_softmax(initial logits)
        lsm_ = lambda x: ("call", ("global", "jax.nn.log_softmax"), (x,), ())
        want_y = {frozenset([("index", carry_t, ZL)]): 1, frozenset([("index", lsm_(lg_("observation_distribution")), ("tuple", (ZL, YL)))]): 1}
        uses_log_of_softmax = mentions_any(("tuple", (y, co, sc.init)), lambda x: is_call(x, "log") and x[2] and mentions_any(x[2][0], lambda z: is_call(z, "softmax")))
        chk.require(lin(y) == want_y and not uses_log_of_softmax, "FFBS-RECURSION", "latent_sequence_posterior/step-form", "step log-probability", derived=show_lin(lin(y))[:300],
                    expected="carry[z_t] + log_softmax(observation logits)[z_t, y_t] (rows index the latent state; log space, no log(softmax(.)))", where=chk.where(m, lp))
        chk.require(co in (lsm_(("index", lg_("transition_distribution"), ("tuple", (ZL, ALL_)))), lsm_(("index", lg_("transition_distribution"), ZL))), "FFBS-RECURSION", "latent_sequence_posterior/carry-form", "next carry",
                    derived=show(co)[:200], expected="log_softmax(transition logits[z_t, :]) - the row of the current latent state", where=chk.where(m, lp))
        chk.require(sc.init == lsm_(lg_("initial_distribution")), "FFBS-RECURSION", "latent_sequence_posterior/init", "initial carry", derived=show(sc.init)[:200], expected="log_softmax(initial logits)", where=chk.where(m, lp))
        xs = sc.xs
        chk.require(is_t(xs, "tuple") and xs[1] == (P("latent_point"), OBS), "IDX-ALIGN", "latent_sequence_posterior/xs", "latent and observation sequences scanned together", derived=show(xs), expected="(latent_point, observation_sequence)", where=chk.where(m, lp))
    else:
        raise AnalysisError("latent_sequence_posterior: expected one scan")
    # ---- Distribution methods
    ci = prog.cls("_DiscreteHMMLatentSequencePosterior", MOD)
    ev4 = Evaluator(prog)
    ev4.opaque_funcs |= {"forward_filtering_backward_sampling", "latent_sequence_posterior", "log_data_marginal", "latent_marginals"}
    rw = ev4.eval_fn(ci.methods["random_weighted"], m, ci)
    w, v = (rw.ret[1] + (None, None))[:2] if is_t(rw.ret, "tuple") else (None, None)
    ffc = calls(rw.ret, "forward_filtering_backward_sampling")
    whr = chk.where(m, ci.methods["random_weighted"])
    chk.require(len(ffc) == 1 and v == mk_proj(mk_proj(ffc[0], 1), 0), "WEIGHT-INF", "DiscreteHMM.random_weighted/sample", "returned value is the sampled sequence", derived=show(v)[:160], expected="ffbs(...)[1][0]", where=whr)
    okw = is_mcall(w, "estimate_logpdf") and w[1][1] == P("self") and len(w[2]) >= 4 and w[2][1] == v and w[2][2:4] == (mk_proj(P("args"), 0), mk_proj(P("args"), 1))
    inl = is_t(w, "proj") and w[2] == 0 and is_call(w[1], "latent_sequence_posterior") and w[1][2] == (mk_proj(P("args"), 0), v, mk_proj(P("args"), 1))
    okw = okw or inl
    chk.require(okw, "WEIGHT-INF", "DiscreteHMM.random_weighted/weight", "weight is the density of the sampled sequence", derived=show(w)[:200], expected="self.estimate_logpdf(k2, v, config, observation_sequence)", where=whr)
    if ffc and okw and not inl:
        chk.require(ffc[0][2][0] != w[2][0], "KEY-LINEAR", "DiscreteHMM.random_weighted/keys", "distinct keys", derived=f"{show(ffc[0][2][0])} vs {show(w[2][0])}", expected="distinct", where=whr)
    el = ev4.eval_fn(ci.methods["estimate_logpdf"], m, ci)
    exp = mk_proj(("call", ("global", m.dotted + ".latent_sequence_posterior"), (mk_proj(P("args"), 0), P("v"), mk_proj(P("args"), 1)), ()), 0)
    chk.require(el.ret == exp, "WEIGHT-INF", "DiscreteHMM.estimate_logpdf", "posterior of v", derived=show(el.ret)[:160], expected="latent_sequence_posterior(config, v, observation_sequence)[0]", where=chk.where(m, ci.methods["estimate_logpdf"]))
    _, ld = prog.func("log_data_marginal", MOD)
    ev5 = Evaluator(prog)
    ev5.opaque_funcs.add("latent_marginals")
    rd = ev5.eval_fn(ld, m)
    chk.require(is_mcall(rd.ret, "log_prob") and rd.ret[2] == (OBS,), "WEIGHT-INF", "log_data_marginal", "marginal likelihood from the same hmm", derived=show(rd.ret)[:160], expected="hmm.log_prob(observation_sequence)", where=chk.where(m, ld))
    ffbs_rules(chk, prog, m, ff)


def _colsel(t):
    """array algebra of a column selection: (A + B)[:, o] is A[:, o] + B[:, o]; a column vector x.reshape(-1, 1) broadcast and selected is x.
    Applied bottom-up, so `(obs_n + alpha.reshape(-1, 1))[:, y]` and `obs_n[:, y] + alpha` are one term."""
    if not isinstance(t, tuple):
        return t
    t = tuple(_colsel(x) for x in t)
    ALL = ("sliceobj", C(None), C(None), C(None))
    if is_t(t, "index") and is_t(t[2], "tuple") and len(t[2][1]) == 2 and t[2][1][0] == ALL:
        base = t[1]
        if is_t(base, "bin") and base[1] in ("+", "-"):
            return ("bin", base[1], _colsel(("index", base[2], t[2])), _colsel(("index", base[3], t[2])))
        if is_mcall(base, "reshape") and base[2] == (C(-1), C(1)):
            return base[1][1]
    return t


def _strip_phi(t, idx_term, algebra=False):
    """(first_arm, later_arm): t under `idx_term == 0` true / false - wherever the choice on that test sits in t (the whole value, or one summand) - with the
    column-selection algebra applied; None when t does not depend on that test"""
    from ..terms import mk_cmp, renorm, resolve
    test = mk_cmp("==", idx_term, C(0))
    if not any(is_t(x, "phi") and x[1] == test for x in subterms(t)):
        return None
    a, b = renorm(resolve(t, test, True)), renorm(resolve(t, test, False))
    return (_colsel(a), _colsel(b)) if algebra else (a, b)


def ffbs_rules(chk, prog, m, ff):
    """FFBS-RECURSION: the forward scan carries alpha_t = obs[:, y_t] + (t == 0 ? prior : logsumexp(alpha_{t-1} + T)) and emits the normalised filter;
    the backward scan runs over the REVERSED filters, samples x_T from the last filter and x_{t-1} from filter_{t-1} + T[:, x_t] (normalised), with a fresh
    sub key per step, and the samples are flipped back into forward order."""
    ev = Evaluator(prog)
    r = ev.eval_fn(ff, m)
    where = chk.where(m, ff)
    if len(ev.scans) != 2:
        raise AnalysisError(f"forward_filtering_backward_sampling: expected 2 scans, found {len(ev.scans)}")
    (fid, F), (bid, B) = sorted(ev.scans.items())
    env = r.env
    prior, trn, obn = env.get("prior"), env.get("transition_n"), env.get("obs_n")
    OBS = P("observation_sequence")
    one = lambda t: {frozenset([t]): 1}

    def req(ok, inst, what, derived, expected):
        chk.require(bool(ok), "FFBS-RECURSION", f"ffbs/{inst}", what, derived=show(derived)[:300] if isinstance(derived, tuple) else str(derived)[:300], expected=expected, where=where)

    ALL = ("sliceobj", C(None), C(None), C(None))
    # Orientation matters: scaled_circulant is symmetric only while the truncation distance is below N/2, and the property quantifies over all
    # configurations.  transition_n[i, j] = log p(x_t = j | x_{t-1} = i) (softmax over the last axis), obs_n[i, y] = log p(y | x = i).
    line_of = lambda ix, i: ix == ("tuple", (ALL, i))
    # ---------------- forward pass
    okf = is_t(F.init, "tuple") and len(F.init[1]) == 2
    req(okf and F.init[1][0] == C(0) and F.init[1][1] == prior, "forward/init", "initial carry of the forward scan", F.init, "(0, prior)")
    req(F.xs == OBS, "forward/xs", "forward scan runs over the observations", F.xs, "observation_sequence")
    if not okf:
        return
    idx, prev = ("scanc", fid, 0), ("scanc", fid, 1)
    co, y = F.carry_out, F.y
    oky = is_t(co, "tuple") and len(co[1]) == 2 and is_t(y, "tuple") and len(y[1]) == 2
    req(oky, "forward/shape", "forward step returns ((index', alpha), (alpha, filter))", co, "2-tuples")
    if not oky:
        return
    alpha = y[1][0]
    req(lin(co[1][0]) == {frozenset([idx]): 1, frozenset(): 1}, "forward/index", "step counter", co[1][0], "index + 1")
    req(co[1][1] == alpha, "forward/carry", "the carried alpha is this step's alpha", co[1][1], "alpha (the same term that is emitted)")
    want_f = dict(lin(alpha))
    want_f[frozenset([("call", ("global", "jax.scipy.special.logsumexp"), (alpha,), ())])] = -1
    req(lin(y[1][1]) == want_f, "forward/filter", "the emitted filter is the normalised alpha", show_lin(lin(y[1][1]))[:300], "alpha - logsumexp(alpha)")
    arms = _strip_phi(alpha, idx, algebra=True)
    req(arms is not None, "forward/branch", "alpha chooses the initial branch exactly at index 0", alpha, "cond(index == 0, init_branch, t_branch, prev, obs)")
    if arms is not None:
        sel = ("tuple", (("sliceobj", C(None), C(None), C(None)), ("elem", OBS)))
        col = lambda v: ("call", ("attr", v, "reshape"), (C(-1), C(1)), ())
        a0, a1 = arms
        obcol = ("index", obn, sel)  # log p(y_t | x_t = i) for every i
        req(lin(a0) == {frozenset([obcol]): 1, frozenset([prev]): 1}, "forward/init-branch", "alpha_1", a0, "(obs_n + prior.reshape(-1, 1))[:, y_1]  =  obs_n[:, y_1] + prior")
        ok1 = True
        if ok1:
            f1 = lin(a1)
            rest = [mm for mm in f1 if mm != frozenset([obcol])]
            ok1 = f1.get(frozenset([obcol])) == 1 and len(rest) == 1 and f1[rest[0]] == 1 and len(rest[0]) == 1
            if ok1:
                t_ = ("call", ("attr", next(iter(rest[0])), "reshape"), (C(-1), C(1)), ())  # (the reshape is dropped by the algebra; re-wrapped for the test below)
                tr_T = lambda x: x in (("attr", trn, "T"), ("call", ("attr", trn, "transpose"), (), ()), ("call", ("global", "jax.numpy.transpose"), (trn,), ()))
                ax, inner_ = dict(t_[1][1][3]).get("axis") if is_call(t_[1][1], "logsumexp") else None, lin(t_[1][1][2][0]) if is_call(t_[1][1], "logsumexp") and t_[1][1][2] else {}
                summed_over_prev = (ax == C(0) and inner_ == {frozenset([col(prev)]): 1, frozenset([trn]): 1}) or \
                    (ax in (C(-1), C(1)) and len(inner_) == 2 and inner_.get(frozenset([prev])) == 1 and any(len(mm) == 1 and tr_T(next(iter(mm))) and c == 1 for mm, c in inner_.items()))
                ok1 = is_mcall(t_, "reshape") and t_[2] == (C(-1), C(1)) and summed_over_prev
        req(ok1, "forward/t-branch", "alpha_t", a1, "(obs_n + logsumexp(alpha_{t-1}.reshape(-1, 1) + transition_n, axis=0).reshape(-1, 1))[:, y_t]: the sum runs over the PREVIOUS state j of alpha_{t-1}(j) p(i | j)")
    # ---------------- backward pass
    filters = ("stack", y[1][1])
    flipped = lambda x: is_call(x, "flip") and x[2] and x[2][0] == filters and (dict(x[3]).get("axis") == C(0) or (len(x[2]) > 1 and x[2][1] == C(0)))
    req(flipped(B.xs), "backward/xs", "the backward scan runs over the filters in reverse time order", B.xs, "jnp.flip(forward_filters, axis=0)")
    okb = is_t(B.init, "tuple") and len(B.init[1]) == 3 and is_t(B.carry_out, "tuple") and len(B.carry_out[1]) == 3
    req(okb and B.init[1][0] == P("key") and B.init[1][1] == C(0), "backward/init", "initial carry of the backward scan", B.init, "(key, 0, <unused>)")
    if not okb:
        return
    bk, bi, bs = ("scanc", bid, 0), ("scanc", bid, 1), ("scanc", bid, 2)
    sp = ("call", ("global", "jax.random.split"), (bk,), ())
    co = B.carry_out[1]
    smp = B.y
    req(co[0] == mk_proj(sp, 0), "backward/key", "the carried key is the first child of split(key)", co[0], "split(key)[0]")
    req(lin(co[1]) == {frozenset([bi]): 1, frozenset(): 1}, "backward/index", "step counter", co[1], "index + 1")
    req(co[2] == smp, "backward/carry", "the carried sample is this step's sample", co[2], "the emitted sample")
    arms = _strip_phi(smp, bi)
    req(arms is not None, "backward/branch", "the end branch is taken exactly at index 0 (time T)", smp, "cond(index == 0, end_branch, t_1_branch, ...)")
    if arms is not None:
        ffl = ("elem", B.xs)
        cat = lambda t: is_call(t, "categorical") and len(t[2]) == 2 and t[2][0] == mk_proj(sp, 1)
        e0, e1 = arms
        req(cat(e0) and e0[2][1] == ffl, "backward/end-branch", "x_T ~ last filter", e0, "categorical(sub_key, forward_filter)")
        ok1 = cat(e1)
        if ok1:
            f1 = lin(e1[2][1])
            negs = [mm for mm, c in f1.items() if c == -1]
            pos = {mm: c for mm, c in f1.items() if c == 1}
            def bd_ok(f_):
                others = [mm for mm in f_ if mm != frozenset([ffl])]
                if f_.get(frozenset([ffl])) != 1 or len(others) != 1 or f_[others[0]] != 1 or len(others[0]) != 1:
                    return False
                t_ = next(iter(others[0]))
                return is_t(t_, "index") and t_[1] == trn and line_of(t_[2], bs)
            ok1 = len(negs) == 1 and len(negs[0]) == 1 and len(pos) == len(f1) - 1 and bd_ok(pos)
            if ok1:
                z = next(iter(negs[0]))
                ok1 = is_call(z, "logsumexp") and bd_ok(lin(z[2][0]))
        req(ok1, "backward/t-1-branch", "x_{t-1} ~ filter_{t-1} + T[:, x_t], normalised", e1, "categorical(sub_key, bd - logsumexp(bd)) with bd = forward_filter + transition_n[:, prev_sample]")
    # ---------------- result
    ret = r.ret
    okr = is_t(ret, "tuple") and len(ret[1]) == 2 and is_t(ret[1][1], "tuple") and len(ret[1][1][1]) == 2
    if okr:
        s_, f_ = ret[1][1][1]
        okr = is_call(s_, "flip") and s_[2][0] == ("stack", smp) and f_ == filters
    req(okr, "result", "samples are flipped back into forward time order; filters returned as computed", ret, "(key, (jnp.flip(samples), forward_filters))")
