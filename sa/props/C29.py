"""C29 - ADEV estimators are correct derivative estimators.

Decided: ROLE-TANGENT (in every primitive, values in tangent slots - jax.jvp's third argument, Dual(_, .) - derive from the tangent tree / zeros / tangent outputs,
never only from the primal tree); KONT-ARITY (every call of the dual continuation passes (key, dual_tree), of the pure one (key, *args), including calls under
jax.vmap, matching _sample_dual_kont / _sample_pure_kont; the konts pair is built (pure, dual) and unpacked in that order); ESTIMATE-DEP (Expectation.estimate
evaluates the program at the given arguments); ENUM-WEIGHTS (enumeration weights use the parameter in the role the sampler gives it: probs= means p, 1-p / probs,
not softmax); REINFORCE-FORM (out_tangent + out_primal * lp_tangent); Baseline subtract / add-back symmetry; AddCost; tail-call primitives;
INTERP-SKELETON / CPS-CONT for eval_jaxpr_adev (continuations resume eqns[idx+1:] on a copied environment; every equation kind writes its outvars, in the dual AND
in the pure loop).  Not decided: unbiasedness, exactness of jax.jvp.
"""
import ast

from ..linform import lin, show_lin
from ..program import AnalysisError
from ..rules import calls, is_call, is_mcall, mcalls, mentions, mentions_any
from ..terms import C, Evaluator, G, P, is_t, mk_elem, mk_proj, show, subterms

CORE = "adev/core.py"
PRIM = "adev/primitives.py"
DT = P("dual_tree")


def dual_call(name, x):
    return ("call", ("attr", G("genjax._src.adev.core.Dual"), name), (x,), ())


def role(t):
    """'T' tangent-derived, 'P' primal-only, '?' neither"""
    tang = lambda x: (is_call(x, "tree_tangent") or is_call(x, "zero") or is_call(x, "zeros_like") or (is_t(x, "attr") and x[2] == "tangent")
                      or (is_t(x, "proj") and x[2] == 1 and (is_call(x[1], "jvp") or is_call(x[1], "tree_unzip"))) or (is_t(x, "const") and x[1] in (0, 0.0)))
    prim = lambda x: is_call(x, "tree_primal") or (is_t(x, "attr") and x[2] == "primal") or (is_t(x, "proj") and x[2] == 0 and is_call(x[1], "tree_unzip"))
    if mentions_any(t, tang):
        return "T"
    if mentions_any(t, prim):
        return "P"
    return "?"


ZERO = ("const", "$zero")


def conj(t):
    """the primal counterpart of a tangent-role term: tree_tangent -> tree_primal, .tangent -> .primal, second component of a (primal, tangent) pair
    (jax.jvp, Dual.tree_unzip, a dual continuation) -> first component; zeros -> ZERO.  None when t is not a pure tangent accessor."""
    if is_call(t, "zero") or is_call(t, "zeros_like") or (is_t(t, "const") and t[1] in (0, 0.0)):
        return ZERO
    if is_t(t, "treemap") and t[1] in (C(0.0), C(0)):
        return ZERO
    if is_call(t, "tree_tangent"):
        return ("call", ("attr", t[1][1], "tree_primal") if is_t(t[1], "attr") else t[1], t[2], t[3])
    if is_t(t, "attr") and t[2] == "tangent":
        return ("attr", t[1], "primal")
    if is_t(t, "proj"):
        if t[2] == 1 and (is_call(t[1], "jvp") or is_call(t[1], "tree_unzip") or (is_t(t[1], "call") and t[1][1] == mk_proj(P("konts"), 1))
                          or (is_t(t[1], "stack") and is_t(t[1][1], "call") and t[1][1][1] == mk_proj(P("konts"), 1))):
            return ("proj", t[1], 0)
        if is_t(t[1], "stack") and is_t(t[1][1], "proj") and t[1][1][2] == 1 and is_t(t[1][1][1], "call") and t[1][1][1][1] == mk_proj(P("konts"), 1):
            return None
        inner = conj(t[1])
        if inner is not None and inner is not ZERO:
            return ("proj", inner, t[2])
        return None
    if is_t(t, "stack") and is_t(t[1], "proj") and t[1][2] == 1 and is_t(t[1][1], "call") and t[1][1][1] == mk_proj(P("konts"), 1):
        return ("stack", ("proj", t[1][1], 0))
    return None


def flat_items(t):
    """items of a tuple term, expanding *x of tuple-valued x symbolically"""
    if is_t(t, "tuple"):
        return list(t[1])
    return [t]


def role_tangent(chk, inst, ret, where):
    n = 0
    for j in calls(ret, "jvp"):
        if len(j[2]) != 3:
            continue
        prims, tangs = flat_items(j[2][1]), flat_items(j[2][2])
        for i, tg in enumerate(tangs):
            base = tg[1] if is_t(tg, "star") else tg
            n += 1
            chk.require(role(base) != "P", "ROLE-TANGENT", f"{inst}/jvp-tangent[{i}]", f"tangent operand {i} of jax.jvp", derived=f"{show(base)[:160]} (role {role(base)})", expected="derived from Dual.tree_tangent(dual_tree) / zeros / a tangent output - not from the primal tree", where=where)
            if len(prims) == len(tangs) and not any(is_t(x, "star") for x in prims + tangs):
                cj = conj(base)
                if cj is not None and cj is not ZERO:
                    chk.require(cj == prims[i], "TANGENT-PAIRING", f"{inst}/jvp-pair[{i}]", f"tangent operand {i} of jax.jvp belongs to a different primal",
                                derived=f"primal operand {show(prims[i])[:120]}; tangent operand is the tangent of {show(cj)[:120]}", expected="operand i of the tangents tuple is the tangent (or zero) of operand i of the primals tuple", where=where)
    for d in [x for x in subterms(ret) if is_t(x, "ctor") and x[1] == "Dual" and len(x[2]) == 2]:
        tg = d[2][1]
        if tg in (C(None),):
            continue
        n += 1
        monos = lin(tg)
        bad = [m for m in monos if m and role(("tuple", tuple(m))) == "P"]
        chk.require(role(tg) != "P" and not bad, "ROLE-TANGENT", f"{inst}/Dual-tangent", "tangent field of a returned Dual", derived=f"{show(tg)[:160]} (role {role(tg)}; primal-only addends: {[show_lin({m: 1}) for m in bad][:2]})", expected="every addend tangent-derived", where=where)
        # the bare tangent addends (coefficient 1, single factor) are the tangents of the bare primal addends
        pm_ = lin(d[2][0])
        for m in monos:
            if len(m) == 1 and monos[m] == 1:
                cj = conj(next(iter(m)))
                if cj is not None and cj is not ZERO:
                    chk.require(frozenset([cj]) in pm_, "TANGENT-PAIRING", f"{inst}/Dual-pair", "the primal field of a returned Dual is not the value its tangent belongs to",
                                derived=f"Dual({show(d[2][0])[:120]}, ... + {show(next(iter(m)))[:120]})", expected=f"primal field contains {show(cj)[:120]}", where=where)
    return n


def kont_calls(ev, ret, kdual, kpure):
    """(kind, n_positional) for every call of the continuations, directly or under jax.vmap"""
    out = []
    for x in subterms(ret):
        if is_t(x, "call") and x[1] in (kdual, kpure):
            out.append(("dual" if x[1] == kdual else "pure", len(x[2]), x))
        if is_t(x, "call") and is_t(x[1], "call") and is_call(x[1], "vmap") and x[1][2] and x[1][2][0] in (kdual, kpure):
            out.append(("dual" if x[1][2][0] == kdual else "pure", len(x[2]), x))
        # vmap summary form: ('stack', call(kdual, mapped...))
    return list({(k, n, c): None for k, n, c in out})


def run(chk, prog):
    core = prog.module(CORE)
    AD = prog.cls("ADInterpreter", CORE)
    evj = AD.methods["eval_jaxpr_adev"]
    dual_loop = prog.nested(evj, "eval_jaxpr_iterate_dual")
    pure_loop = prog.nested(evj, "eval_jaxpr_iterate_pure")
    dkont = prog.nested(dual_loop, "_sample_dual_kont")
    pkont = prog.nested(dual_loop, "_sample_pure_kont")
    dual_arity = len(dkont.args.args)
    pure_fixed = len(pkont.args.args)
    pure_var = pkont.args.vararg is not None
    whereI = f"{core.rel}:{evj.lineno}"
    chk.sample({"dual_kont_signature": ast.unparse(dkont.args), "pure_kont_signature": ast.unparse(pkont.args)})
    # ---------------------------------------------------------------- primitives
    pm = prog.module(PRIM)
    prims = [ci for ci in prog.subclasses("ADEVPrimitive") if ci.module.rel.endswith("primitives.py")]
    chk.floor("ADEV primitive classes", len(prims), 12)
    KONTS = P("konts")
    KP, KD = mk_proj(KONTS, 0), mk_proj(KONTS, 1)
    n_role = 0
    for ci in prims:
        for meth in ("jvp_estimate", "before_tail_call"):
            if meth not in ci.methods:
                continue
            ev = Evaluator(prog)
            ev.opaque_methods |= {"sample"}
            ev.opaque_funcs |= {"zero", "zeros_like_jaxval", "instantiate_zeros", "recast_to_float0"}
            fn = ci.methods[meth]
            r = ev.eval_fn(fn, ci.module, ci)
            where = f"{ci.module.rel}:{fn.lineno}"
            inst = f"{ci.name}.{meth}"
            # annotations are enforced at run time (beartype): the interpreter hands every primitive a LIST of duals, so a narrower annotation of dual_tree
            # (tuple[...]) makes the primitive unusable
            for a_ in fn.args.args:
                if a_.arg == "dual_tree" and a_.annotation is not None:
                    an = ast.unparse(a_.annotation)
                    chk.require(an in ("DualTree", "Any"), "ANNOT-ACCEPT", f"{inst}/dual_tree", "annotation of dual_tree", derived=an, expected="DualTree (the interpreter passes a list of Dual leaves)", where=where)
            full = ("tuple", tuple([r.ret] + [e for e in r.env.get("__effects__", [])]))
            n_role += role_tangent(chk, inst, full, where)
            # key discipline inside a primitive: a key it consumes (seed=..., first argument of a sampler / logpdf helper) and a key it hands on (to a continuation,
            # to an inner primitive) must be two DIFFERENT children of one split - never the parent and its child: the next primitive splits the key it is
            # handed in the same way and would consume the very same child (identical noise in consecutive sites)
            KEY = P("key")
            consumed = set()
            for x in subterms(full):
                if is_t(x, "call"):
                    for k_, v_ in x[3]:
                        if k_ == "seed":
                            consumed.add(v_)
                    if (is_mcall(x, "sample") or (is_t(x[1], "attr") and x[1][1] == P("self") and x[1][2] in ("sample_func",))) and x[2]:
                        consumed.add(x[2][0])
            handed = set()
            for x in subterms(full):
                if is_t(x, "call") and x[1] in (KP, KD) and x[2]:
                    handed.add(x[2][0])
                if is_mcall(x, "jvp_estimate") and x[2]:
                    handed.add(x[2][0])
            keyish = lambda t: t == KEY or (is_t(t, "proj") and is_call(t[1], "split")) or is_call(t, "fold_in")
            bad_pairs = [(show(c_)[:40], show(h_)[:40]) for c_ in consumed for h_ in handed if keyish(c_) and keyish(h_) and (c_ == h_ or mentions(c_, h_) or mentions(h_, c_))]
            if consumed and handed:
                chk.require(not bad_pairs, "KEY-LINEAR", f"{inst}/keys", "a consumed key and a key handed on are the same key or parent and child", derived=str(bad_pairs[:2]) if bad_pairs else f"{len(consumed)} consumed, {len(handed)} handed on, pairwise unrelated",
                            expected="key, sub_key = split(key): sub_key consumed, key handed on", where=where)
            if meth == "jvp_estimate":
                # continuation protocol
                seen = []
                for x in subterms(full):
                    if is_t(x, "call") and x[1] in (KD, KP):
                        seen.append(("dual" if x[1] == KD else "pure", len(x[2]), any(is_t(a, "star") for a in x[2]), x, "direct"))
                    if is_t(x, "stack") and is_t(x[1], "call") and x[1][1] in (KD, KP):
                        c = x[1]
                        seen.append(("dual" if c[1] == KD else "pure", len(c[2]), False, c, "vmap"))
                    if is_t(x, "call") and is_t(x[1], "call") and is_call(x[1], "vmap") and x[1][2] and x[1][2][0] in (KD, KP):
                        seen.append(("dual" if x[1][2][0] == KD else "pure", len(x[2]), False, x, "vmap"))
                done = set()
                for kind, npos, star, c, how in seen:
                    key_ = (kind, npos, how)
                    if key_ in done:
                        continue
                    done.add(key_)
                    if kind == "dual":
                        ok = npos == dual_arity
                        chk.require(ok, "KONT-ARITY", f"{inst}/kdual[{how}]", f"dual continuation called with {npos} positional argument(s)",
                                    derived=f"{show(c)[:200]}", expected=f"{dual_arity} arguments {ast.unparse(dkont.args)} - as _sample_dual_kont is defined", where=where)
                    else:
                        ok = npos >= pure_fixed and (pure_var or npos == pure_fixed)
                        chk.require(ok, "KONT-ARITY", f"{inst}/kpure[{how}]", f"pure continuation called with {npos} positional argument(s)", derived=show(c)[:200], expected=f"{ast.unparse(pkont.args)}", where=where)
    chk.floor("tangent slots judged", n_role, 20)
    # ---------------------------------------------------------------- specific estimator forms
    ev = Evaluator(prog)
    ev.opaque_methods |= {"sample"}
    ev.opaque_funcs |= {"zero", "zeros_like_jaxval", "instantiate_zeros", "recast_to_float0"}
    R = prog.cls("REINFORCE", PRIM)
    r = ev.eval_fn(R.methods["jvp_estimate"], R.module, R)
    t = r.ret
    w = f"{R.module.rel}:{R.methods['jvp_estimate'].lineno}"
    okr = is_t(t, "ctor") and t[1] == "Dual" and len(t[2]) == 2
    if okr:
        outp, tang = t[2]
        form = lin(tang)
        jv = [j for j in calls(t, "jvp") if j[2] and j[2][0] == ("attr", P("self"), "differentiable_logpdf")]
        okr = len(jv) == 1
        if okr:
            lp = mk_proj(jv[0], 1)
            kd = [x for x in subterms(outp) if is_t(x, "call") and x[1] == KD]
            v = flat_items(jv[0][2][1])[0]
            z = flat_items(jv[0][2][2])[0]
            out_t = [m for m, c in form.items() if len(m) == 1 and c == 1]
            okr = len(form) == 2 and form.get(frozenset([outp, lp])) == 1 and len(out_t) == 1 and role(next(iter(out_t[0]))) == "T" \
                and is_mcall(v, "sample") and is_call(z, "zero") and z[2] == (v,) and len(kd) >= 1 and kd[0][2][0] != v[2][0] and mentions(kd[0][2][1], v)
    chk.require(bool(okr), "REINFORCE-FORM", "REINFORCE.jvp_estimate", "score-function estimator", derived=show(t)[:300], expected="Dual(out_primal, out_tangent + out_primal * d/dtheta log p(v; theta)) with v the sampled value (zero tangent), continuation run on v with a different key", where=w)
    # FlipEnum: p * true + (1 - p) * false, continuations evaluated at True / False
    FE = prog.cls("FlipEnum", PRIM)
    r = ev.eval_fn(FE.methods["jvp_estimate"], FE.module, FE)
    w = f"{FE.module.rel}:{FE.methods['jvp_estimate'].lineno}"
    jv = calls(r.ret, "jvp")
    oke = len(jv) == 1 and ev.closure_of(jv[0][2][0]) is not None
    if oke:
        body = ev.apply(jv[0][2][0], [P("$p"), P("$t"), P("$f")], module=FE.module, cls=FE)
        form = lin(body)
        oke = form == {frozenset([P("$p"), P("$t")]): 1, frozenset([P("$f")]): 1, frozenset([P("$p"), P("$f")]): -1}
        pr = flat_items(jv[0][2][1])
        kd_true = [x for x in subterms(pr[1]) if is_t(x, "call") and x[1] == KD]
        kd_false = [x for x in subterms(pr[2]) if is_t(x, "call") and x[1] == KD]
        val = lambda c: [y for y in subterms(c[2][1]) if is_t(y, "const") and isinstance(y[1], bool)]
        oke = oke and kd_true and kd_false and val(kd_true[0])[:1] == [C(True)] and val(kd_false[0])[:1] == [C(False)] and role(pr[0]) == "P"
    chk.require(bool(oke), "ENUM-WEIGHTS", "FlipEnum.jvp_estimate", "exact expectation over {True, False}", derived=show(jv[0])[:300] if jv else "no jvp", expected="p * K(True) + (1 - p) * K(False) with p the probs= parameter of the sampler", where=w)
    # FlipMVD: measure-valued derivative  b_tangent + (-1)^v * (K(not b) - K(b)) * p_tangent
    FM = prog.cls("FlipMVD", PRIM)
    evm = Evaluator(prog)
    evm.opaque_methods |= {"sample"}
    rm_ = evm.eval_fn(FM.methods["jvp_estimate"], FM.module, FM)
    w = f"{FM.module.rel}:{FM.methods['jvp_estimate'].lineno}"
    okm = is_t(rm_.ret, "ctor") and rm_.ret[1] == "Dual" and len(rm_.ret[2]) == 2
    derm = show(rm_.ret)[:200]
    if okm:
        bp, tg = rm_.ret[2]
        form = lin(tg)
        derm = show_lin(form)[:400]
        kdc = [x for x in subterms(bp) if is_t(x, "call") and x[1] == KD]
        okm = len(form) == 3 and len(kdc) >= 1
        if okm:
            singles = [m for m, c in form.items() if len(m) == 1 and c == 1]
            triples = [(m, c) for m, c in form.items() if len(m) == 3]
            okm = len(singles) == 1 and role(next(iter(singles[0]))) == "T" and conj(next(iter(singles[0]))) == bp and len(triples) == 2
            if okm:
                (m1, c1), (m2, c2) = triples
                common = m1 & m2
                rest1, rest2 = next(iter(m1 - common), None), next(iter(m2 - common), None)
                if rest1 is not None and rest2 is not None and is_t(rest2, "call") and rest2[1] == KP:
                    (rest1, c1), (rest2, c2) = (rest2, c2), (rest1, c1)
                # rest1: the pure continuation at the OTHER outcome, coefficient +1; rest2: primal of the dual continuation at the sampled outcome, -1
                okm = len(common) == 2 and any(is_t(x, "bin") and x[1] == "**" for x in common) and any(role(x) == "T" and conj(x) is not None for x in common) \
                    and is_t(rest1, "call") and rest1[1] == KP and c1 == 1 and rest2 == bp and c2 == -1 \
                    and any(is_call(a, "logical_not") for a in rest1[2])
    chk.require(bool(okm), "MVD-FORM", "FlipMVD.jvp_estimate", "measure-valued derivative of a Bernoulli", derived=derm, expected="Dual(K(b).primal, K(b).tangent + (-1)^v * (Kpure(not b) - K(b).primal) * p_tangent)", where=w)
    # FlipEnumParallel: weights [p, 1 - p] in the order of the enumerated outcomes [True, False]
    FP = prog.cls("FlipEnumParallel", PRIM)
    evq = Evaluator(prog)
    rq = evq.eval_fn(FP.methods["jvp_estimate"], FP.module, FP)
    w = f"{FP.module.rel}:{FP.methods['jvp_estimate'].lineno}"
    jq = calls(rq.ret, "jvp")
    okq = len(jq) == 1 and evq.closure_of(jq[0][2][0]) is not None
    derq = "no jvp"
    if okq:
        bodyq = evq.apply(jq[0][2][0], [P("$p"), P("$ret")], module=FP.module, cls=FP)
        derq = show(bodyq)[:200]
        arrs = [x for x in subterms(bodyq) if is_call(x, "array") and x[2] and is_t(x[2][0], "list") and len(x[2][0][1]) == 2]
        # the enumerated outcomes are the PRIMAL of the Dual handed to the (vmapped) continuation - not any [True, False] array that occurs (zeros_like(...) of one does)
        duals_ = [x for x in subterms(rq.ret) if is_t(x, "ctor") and x[1] == "Dual" and len(x[2]) == 2]
        prim_arrays = [d_[2][0] for d_ in duals_] + [d_[2][0][1] for d_ in duals_ if is_t(d_[2][0], "elem")]
        outs = [x for x in prim_arrays if is_call(x, "array") and x[2] and is_t(x[2][0], "list") and len(x[2][0][1]) == 2 and all(is_t(y, "const") and isinstance(y[1], bool) for y in x[2][0][1])]
        okq = len(arrs) == 1 and len(outs) >= 1 and all(sorted(y[1] for y in o_[2][0][1]) == [False, True] for o_ in outs)
        if okq:
            w0, w1 = (lin(y) for y in arrs[0][2][0][1])
            P1, Q1 = {frozenset([P("$p")]): 1}, {frozenset(): 1, frozenset([P("$p")]): -1}
            order = [y[1] for y in outs[0][2][0][1]]
            okq = (order == [True, False] and w0 == P1 and w1 == Q1) or (order == [False, True] and w0 == Q1 and w1 == P1)
            # the weights are contracted with the OUTCOME axis (axis 0) of the stacked continuation values only: jnp.sum(w * ret) also sums over the axes of a
            # non-scalar continuation value (and broadcasts w against its last axis)
            okq = okq and is_call(bodyq, "tensordot") and bodyq[2][:2] == (arrs[0], P("$ret")) and (dict(bodyq[3]).get("axes") == C(1) or (len(bodyq[2]) > 2 and bodyq[2][2] == C(1)))
    chk.require(bool(okq), "ENUM-WEIGHTS", "FlipEnumParallel.jvp_estimate/weights", "exact expectation over [True, False]", derived=derq, expected="tensordot([p, 1 - p], K([True, False]), axes=1) - weights contracted with the outcome axis only", where=w)
    # enumeration weights agree with the sampler's parameter role
    for cn in ("FlipEnumParallel", "CategoricalEnumParallel"):
        ci = prog.cls(cn, PRIM)
        evs = Evaluator(prog)
        rs = evs.eval_fn(ci.methods["sample"], ci.module, ci)
        role_kw = None
        for c in [x for x in subterms(rs.ret) if is_t(x, "call") and x[3]]:
            for k, v in c[3]:
                if k in ("probs", "logits"):
                    role_kw = k
        evp = Evaluator(prog)
        rp = evp.eval_fn(ci.methods["jvp_estimate"], ci.module, ci)
        jv = calls(rp.ret, "jvp")
        w = f"{ci.module.rel}:{ci.methods['jvp_estimate'].lineno}"
        ok = len(jv) == 1 and evp.closure_of(jv[0][2][0]) is not None
        der = "no jvp"
        if ok:
            body = evp.apply(jv[0][2][0], [P("$param"), P("$ret")], module=ci.module, cls=ci)
            der = show(body)[:200]
            squash = mentions_any(body, lambda x: is_call(x, "softmax", "sigmoid", "log_softmax", "exp"))
            ok = (role_kw == "probs" and not squash) or (role_kw == "logits" and squash)
        chk.require(bool(ok), "ENUM-WEIGHTS", f"{cn}.jvp_estimate", "softmax(probs)" if cn.startswith("Categorical") else "weights",
                    derived=f"sampler passes the parameter as `{role_kw}=`; weights computed as {der}", expected="weights use the parameter in the same role: probs= -> the probabilities themselves", where=w)
    # reparameterised Gaussians: one independent unit-normal draw per coordinate, from the split-off sub key; result loc + scale * eps
    # tfd.Distribution.sample(sample_shape=(), seed=None): the shape positionally or by keyword
    _shp = lambda s_: s_[2][0] if s_[2] else dict(s_[3]).get("sample_shape")
    _shape_of_params = lambda s_: _shp(s_) is not None and mentions_any(_shp(s_), lambda x: is_call(x, "shape") or (is_t(x, "attr") and x[2] == "shape"))
    for cn, shape_pred, exp in (("NormalREPARAM", _shape_of_params, "eps ~ N(0, 1) with one independent draw per component: sample_shape from the parameters' (broadcast) shape"),
                                ("MvNormalDiagREPARAM", lambda s_: _shp(s_) is not None and mentions_any(_shp(s_), lambda x: is_t(x, "attr") and x[2] == "shape"), "eps ~ N(0, 1) with sample_shape=loc.shape"),
                                ("MvNormalREPARAM", lambda s_: is_call(_shp(s_), "len"), "eps ~ N(0, 1) with len(mu) draws")):
        ci = prog.cls(cn, PRIM)
        evn = Evaluator(prog)
        rn = evn.eval_fn(ci.methods["before_tail_call"], ci.module, ci)
        jv_ = calls(rn.ret, "jvp")
        body_ = None
        if len(jv_) == 1 and evn.closure_of(jv_[0][2][0]) is not None:
            nparams = len(evn.closure_of(jv_[0][2][0]).node.args.args)
            body_ = evn.apply(jv_[0][2][0], [P(f"$p{i}") for i in range(nparams)], module=ci.module, cls=ci)
        scope_ = ("tuple", (rn.ret, body_ if body_ is not None else C(None)))
        smp = [x for x in subterms(scope_) if is_mcall(x, "sample") and is_call(x[1][1], "Normal")]
        smp = list(dict.fromkeys(smp))
        okn = len(jv_) == 1 and len(smp) == 1 and shape_pred(smp[0]) and dict(smp[0][3]).get("seed") is not None and dict(smp[0][3])["seed"] != P("key") and is_call(smp[0][1][1], "Normal") \
            and dict(smp[0][1][1][3]).get("loc") == C(0.0) and dict(smp[0][1][1][3]).get("scale") == C(1.0)
        if cn == "MvNormalREPARAM" and body_ is not None:
            # x = mu + L @ eps with L = cholesky(cov): Cov[x] = L L^T = cov.  (eps @ L has covariance L^T L)
            P0, P1, P2 = (P(f"$p{i}") for i in range(3))
            Lc = ("call", ("global", "jax.numpy.linalg.cholesky"), (P2,), ())
            forms = [("bin", "+", P1, ("bin", "@", Lc, P0)), ("bin", "+", ("bin", "@", Lc, P0), P1),
                     ("bin", "+", P1, ("call", ("global", "jax.numpy.matmul"), (Lc, P0), ())), ("bin", "+", P1, ("call", ("global", "jax.numpy.dot"), (Lc, P0), ()))]
            chk.require(body_ in forms, "REPARAM-FORM", "MvNormalREPARAM.before_tail_call/affine", "affine map of the noise", derived=show(body_)[:160], expected="mu + cholesky(cov) @ eps  (closure parameters eps, mu, cov)", where=f"{ci.module.rel}:{ci.methods['before_tail_call'].lineno}")
        chk.require(bool(okn), "REPARAM-NOISE", f"{cn}.before_tail_call", "independent standard-normal noise per coordinate", derived=show(smp[0])[:200] if smp else "no noise draw", expected=exp + ", drawn with the split-off sub key", where=f"{ci.module.rel}:{ci.methods['before_tail_call'].lineno}")
    # Baseline: subtract b inside the continuation, add it back outside
    B = prog.cls("Baseline", PRIM)
    evb = Evaluator(prog)
    rb = evb.eval_fn(B.methods["jvp_estimate"], B.module, B)
    w = f"{B.module.rel}:{B.methods['jvp_estimate'].lineno}"
    t = rb.ret
    okb = is_t(t, "ctor") and t[1] == "Dual" and is_t(t[2][0], "proj") and is_call(t[2][0][1], "jvp")
    if okb:
        outer = t[2][0][1]
        bodyo = evb.apply(outer[2][0], [P("$l"), P("$r")], module=B.module, cls=B)
        inner_k = [x for x in subterms(rb.ret) if is_mcall(x, "jvp_estimate") and x[1][1] == ("attr", P("self"), "prim")]
        inner_k = list(dict.fromkeys(inner_k))
        okb = lin(bodyo) == {frozenset([P("$l")]): 1, frozenset([P("$r")]): 1} and len(inner_k) == 1
        if okb:
            kk = inner_k[0][2][2]
            okb = is_t(kk, "tuple") and kk[1][0] == KP and evb.closure_of(kk[1][1]) is not None
            if okb:
                nk = evb.apply(kk[1][1], [P("$key"), P("$dual")], module=B.module, cls=B)
                ji = calls(nk, "jvp")
                okb = len(ji) == 1 and lin(evb.apply(ji[0][2][0], [P("$ret"), P("$b")], module=B.module, cls=B)) == {frozenset([P("$ret")]): 1, frozenset([P("$b")]): -1} \
                    and any(is_t(x, "call") and x[1] == KD and len(x[2]) == 2 for x in subterms(nk))
                # the same baseline value is subtracted and added back
                b_in = flat_items(ji[0][2][1])[1] if okb else None
                b_out = flat_items(outer[2][1])[1] if okb else None
                okb = okb and b_in == b_out
    chk.require(bool(okb), "BASELINE-SYMMETRY", "Baseline.jvp_estimate", "subtract the baseline inside the continuation, add it back outside", derived=show(rb.ret)[:300], expected="prim.jvp_estimate(key, duals, (kpure, key,dual -> kdual(key, dual) - b)) + b", where=w)
    ACl = prog.cls("AddCost", PRIM)
    ra = Evaluator(prog).eval_fn(ACl.methods["jvp_estimate"], ACl.module, ACl)
    t = ra.ret
    oka = is_t(t, "ctor") and t[1] == "Dual" and len(lin(t[2][0])) == 2 and len(lin(t[2][1])) == 2 and role(t[2][1]) == "T" and all(c == 1 for c in lin(t[2][0]).values())
    chk.require(oka, "ADD-COST", "AddCost.jvp_estimate", "w + K()", derived=show(t)[:200], expected="Dual(w + l.primal, w_tangent + l.tangent)", where=f"{ACl.module.rel}:{ACl.methods['jvp_estimate'].lineno}")
    TC = prog.cls("TailCallADEVPrimitive", CORE)
    evt = Evaluator(prog)
    evt.opaque_methods.add("before_tail_call")
    rt = evt.eval_fn(TC.methods["jvp_estimate"], TC.module, TC)
    t = rt.ret
    okt = is_t(t, "call") and t[1] == KD and len(t[2]) == 2 and is_mcall(t[2][1], "before_tail_call") and t[2][1][1][1] == P("self") and len(t[2][1][2]) == 2 and t[2][1][2][1] == DT
    chk.require(okt, "KONT-ARITY", "TailCallADEVPrimitive.jvp_estimate", "kdual(key', before_tail_call(key'', dual_tree))", derived=show(t)[:200], expected="kdual(k1, self.before_tail_call(k2, dual_tree))", where=f"{TC.module.rel}:{TC.methods['jvp_estimate'].lineno}")
    if okt:
        kc, kp = t[2][0], t[2][1][2][0]
        chk.require(kc != kp and is_t(kc, "proj") and is_t(kp, "proj") and is_call(kc[1], "split") and kc[1] == kp[1], "KEY-LINEAR", "TailCallADEVPrimitive.jvp_estimate/keys", "shared key",
                    derived=f"continuation key {show(kc)}; primitive key {show(kp)}", expected="two different children of split(key): the key a primitive consumes must not also be handed to the continuation (the next primitive would derive the same sub-key)", where=f"{TC.module.rel}:{TC.methods['jvp_estimate'].lineno}")
    # ---------------------------------------------------------------- Expectation
    EX = prog.cls("Expectation", CORE)
    eve = Evaluator(prog)
    eve.opaque_methods.add("jvp_estimate")
    re_ = eve.eval_fn(EX.methods["estimate"], EX.module, EX)
    t = re_.ret
    w = f"{EX.module.rel}:{EX.methods['estimate'].lineno}"
    oke = is_t(t, "attr") and t[2] == "primal" and is_mcall(t[1], "jvp_estimate") and t[1][2][0] == P("key")
    if oke:
        x = t[1][2][1]
        # zero tangents with the SHAPE of each argument (scalar 0.0 tangents break every primitive that forwards parameter duals of array arguments to jax.jvp)
        oke = is_call(x, "dual_tree") and len(x[2]) == 2 and x[2][0] == P("args") and is_t(x[2][1], "treemap") and x[2][1][2] == (P("args"),) and is_call(x[2][1][1], "zeros_like") and x[2][1][1][2] == (("leaf", P("args")),)
    chk.require(bool(oke), "ESTIMATE-DEP", "Expectation.estimate", "the dual tree handed to jvp_estimate carries the VALUES of args", derived=show(t)[:240], expected="self.jvp_estimate(key, Dual.dual_tree(args, tree_map(zeros_like, args))).primal", where=w)
    m, icj = prog.func("invoke_closed_over_jvp", CORE)
    rj = Evaluator(prog).eval_fn(icj, m)
    t = rj.ret
    PRI, TAN = P("primals"), P("tangents")
    d = ("call", ("attr", G("genjax._src.adev.core.Dual"), "dual_tree"), (mk_proj(PRI, 2), mk_proj(TAN, 2)), ())
    od = ("call", ("attr", mk_proj(PRI, 0), "jvp_estimate"), (mk_proj(PRI, 1), d), ())
    uz = ("call", ("attr", G("genjax._src.adev.core.Dual"), "tree_unzip"), (od,), ())
    okj = t == ("tuple", (mk_proj(mk_proj(uz, 0), 0), mk_proj(mk_proj(uz, 1), 0)))
    chk.require(okj, "ROLE-TANGENT", "invoke_closed_over_jvp", "duals pair the primal arguments with their tangents; returns (primal, tangent)", derived=show(t)[:300], expected="instance.jvp_estimate(key, Dual.dual_tree(primals, tangents)) unzipped as (value, tangent)", where=f"{m.rel}:{icj.lineno}")
    rg = Evaluator(prog).eval_fn(EX.methods["grad_estimate"], EX.module, EX)
    okg = is_t(rg.ret, "gradof") or (is_t(rg.ret, "call") and is_call(rg.ret[1], "grad"))
    chk.require(okg and mentions(rg.ret, P("primals")) and mentions(rg.ret, P("key")), "ESTIMATE-DEP", "Expectation.grad_estimate", "jax.grad of the closed-over estimator at the primals", derived=show(rg.ret)[:200], expected="jax.grad(primals -> invoke_closed_over(self, key, primals))(primals)", where=f"{EX.module.rel}:{EX.methods['grad_estimate'].lineno}")
    # ---------------------------------------------------------------- interpreter loops
    evd = Evaluator(prog)
    rd = evd.eval_fn(dual_loop, AD.module, AD, env0={"jaxpr": P("jaxpr")})
    EQ = P("eqns")
    el = ("elem", EQ)
    jve = [x for x in subterms(rd.ret) if is_mcall(x, "jvp_estimate")]
    okk = len(jve) >= 1
    der = "no jvp_estimate call"
    if okk:
        j = jve[0]
        kk = j[2][2] if len(j[2]) == 3 else None
        der = show(j)[:200]
        okk = is_t(kk, "tuple") and len(kk[1]) == 2 and evd.closure_of(kk[1][0]) is not None and evd.closure_of(kk[1][0]).node is pkont and evd.closure_of(kk[1][1]).node is dkont and j[2][0] == P("key")
    if jve:
        dtree = jve[0][2][1]
        okd_ = is_call(dtree, "dual_tree") and len(dtree[2]) == 2 and mentions_any(dtree[2][0], lambda x: is_t(x, "proj") and x[2] == 0 and is_call(x[1], "flat_unzip")) and not mentions_any(dtree[2][0], lambda x: is_t(x, "proj") and x[2] == 1 and is_call(x[1], "flat_unzip")) \
            and mentions_any(dtree[2][1], lambda x: is_t(x, "proj") and x[2] == 1 and is_call(x[1], "flat_unzip")) and not mentions_any(dtree[2][1], lambda x: is_t(x, "proj") and x[2] == 0 and is_call(x[1], "flat_unzip"))
        chk.require(okd_, "ROLE-TANGENT", "eval_jaxpr_iterate_dual/dual_tree", "the primitive's arguments paired (primals, tangents) in that order", derived=show(dtree)[:240], expected="Dual.dual_tree(<from flat primals>, <from flat tangents>)", where=whereI)
    sl_ = [x for x in subterms(jve[0] if jve else rd.ret) if is_t(x, "index") and is_t(x[2], "sliceobj")]
    okrc = any(is_t(x[2][1], "index") and x[2][1][2] == C("num_consts") and x[2][2] == C(None) and x[2][3] == C(None) for x in sl_) and len({x[2] for x in sl_}) == 1
    chk.require(bool(okrc), "ISP-CONSTS", "eval_jaxpr_iterate_dual/operands", "sample-site operands: drop the PREPENDED constants", derived=str([show(x[2]) for x in sl_][:2]),
                expected="duals[params['num_consts']:] unflattened with in_tree", where=whereI)
    chk.require(bool(okk), "KONT-ARITY", "eval_jaxpr_iterate_dual/konts", "continuations passed as (pure, dual), as the primitives unpack them", derived=der, expected="adev_prim.jvp_estimate(key, dual_tree, (_sample_pure_kont, _sample_dual_kont))", where=whereI)
    for kn, node_ in (("dual", dkont), ("pure", pkont)):
        clo = [x for x in subterms(rd.ret) if evd.closure_of(x) is not None and evd.closure_of(x).node is node_]
        ok = len(clo) >= 1
        der = "closure not found"
        if ok:
            c0 = clo[0]
            loopname = dual_loop.name if kn == "dual" else pure_loop.name  # (found by name or, after a rename, by position)
            evd.closures[c0[1]].env[loopname] = ("global", "$loop")
            res = evd.apply(c0, [P("$key"), P("$x")] if kn == "dual" else [P("$key"), ("star", P("$x"))], module=AD.module, cls=AD)
            der = show(res)[:260]
            ok = is_t(res, "call") and res[1] == ("global", "$loop") and len(res[2]) == 5 and res[2][0] == P("$key") \
                and is_t(res[2][1], "index") and res[2][1][1] == EQ and res[2][1][2] == ("sliceobj", ("bin", "+", ("enumidx", EQ), C(1)), C(None), C(None)) \
                and res[2][3] == ("attr", el, "outvars")
            envarg = res[2][2] if ok else None
            if ok and kn == "dual":
                ok = is_mcall(envarg, "copy")
            if ok and kn == "pure":
                ok = is_call(envarg, "tree_primal") and is_mcall(envarg[2][0], "copy")
        chk.require(bool(ok), "CPS-CONT", f"eval_jaxpr_iterate_dual._sample_{kn}_kont", "resumes after this equation, on a copied environment, binding this equation's outvars", derived=der,
                    expected=f"{'eval_jaxpr_iterate_dual' if kn == 'dual' else 'eval_jaxpr_iterate_pure'}(key, eqns[eqn_idx + 1:], <copied env>, eqn.outvars, values)", where=whereI)
    # the cond continuation resumes in the DUAL environment (tangents of earlier variables must survive the cond)
    # the cond continuation, by role: the nested function of the dual loop that is neither of the two sample continuations and resumes the dual loop
    import ast as _ast2
    cond_nodes = [n_ for n_ in _ast2.walk(dual_loop) if isinstance(n_, _ast2.FunctionDef) and n_ not in (dual_loop, dkont, pkont) and len(n_.args.args) == 1
                  and any(isinstance(x_, _ast2.Call) and isinstance(x_.func, _ast2.Name) and x_.func.id == dual_loop.name for x_ in _ast2.walk(n_))]
    ck = [("closure", k) for k, c in evd.closures.items() if c.node in cond_nodes]
    okc_ = len(ck) >= 1
    derc_ = "closure not found"
    if okc_:
        evd.closures[ck[0][1]].env[dual_loop.name] = ("global", "$loop")
        resc = evd.apply(ck[0], [P("$x")], module=AD.module, cls=AD)
        derc_ = show(resc)[:260]
        okc_ = is_t(resc, "call") and resc[1] == ("global", "$loop") and len(resc[2]) == 5 and resc[2][2] in (P("dual_env"), ("call", ("attr", P("dual_env"), "copy"), (), ())) \
            and is_t(resc[2][1], "index") and resc[2][1][2] == ("sliceobj", ("bin", "+", ("enumidx", EQ), C(1)), C(None), C(None)) and resc[2][3] == ("attr", el, "outvars")
    chk.require(bool(okc_), "CPS-CONT", "eval_jaxpr_iterate_dual._cond_dual_kont", "the cond continuation resumes after this equation in the dual environment", derived=derc_,
                expected="eval_jaxpr_iterate_dual(key, eqns[eqn_idx + 1:], dual_env, eqn.outvars, duals) - not the primal-only environment", where=whereI)
    # the cond arm: what runs INSIDE the branches and what runs AFTER the cond must not share a key (a sample in a branch and the next sample after the cond would
    # draw identical noise: y - theta == x exactly, a biased estimator)
    cond_calls = [n for n in ast.walk(dual_loop) if isinstance(n, ast.Call) and ast.unparse(n.func).endswith("lax.cond")]
    okck, derck = False, "no lax.cond call in the dual loop"
    if len(cond_calls) == 1 and len(cond_calls[0].args) >= 2 and okc_:
        kb = cond_calls[0].args[-2]
        kont_key = resc[2][0]
        splits = [n for n in ast.walk(dual_loop) if isinstance(n, ast.Assign) and isinstance(n.targets[0], ast.Tuple) and isinstance(n.value, ast.Call) and ast.unparse(n.value.func).endswith("random.split")
                  and all(isinstance(e, ast.Name) for e in n.targets[0].elts)]
        names = [[e.id for e in sp.targets[0].elts] for sp in splits]
        derck = f"branches receive `{ast.unparse(kb)}`; the continuation resumes with {show(kont_key)[:60]}"
        okck = isinstance(kb, ast.Name) and is_t(kont_key, "proj") and is_call(kont_key[1], "split") and any(kb.id in nm and nm.index(kb.id) != kont_key[2] for nm in names)
    chk.require(bool(okck), "KEY-LINEAR", "eval_jaxpr_iterate_dual/cond-keys", "key shared by the cond's branches and the computation after it", derived=derck,
                expected="key, branch_key = split(key): branch_key to the branches, key to the continuation", where=whereI)
    # default arm of the dual loop writes Dual(primal_out, tangent_out) to this equation's outvars
    eff = rd.env.get("__effects__", [])
    ow = [e for e in eff if is_call(e, "safe_map") and len(e[2]) == 3 and e[2][1] == ("attr", el, "outvars")]
    okw = len(ow) == 1 and is_call(ow[0][2][2], "dual_tree")
    chk.require(okw, "INTERP-SKELETON", "eval_jaxpr_iterate_dual/outvars", "primal and tangent outputs written as duals to this equation's outvars", derived=show(ow[0])[:200] if ow else "no write", expected="safe_map(dual_env.write, eqn.outvars, Dual.dual_tree(primal_outs, tangent_outs))", where=whereI)
    if okw:
        def phi_leaves(t):
            if is_t(t, "phi"):
                return phi_leaves(t[2]) + phi_leaves(t[3])
            if is_t(t, "list") and len(t[1]) == 1:
                return phi_leaves(t[1][0])
            return [t]
        rule_call = lambda x: is_t(x, "call") and is_t(x[1], "call") and x[1][2] == (("attr", el, "primitive"),)
        a0, a1 = ow[0][2][2][2][:2] if len(ow[0][2][2][2]) >= 2 else (None, None)
        okr_ = a0 is not None
        bad_ = []
        if okr_:
            for side, arg, want in (("primal", a0, 0), ("tangent", a1, 1)):
                for lf in phi_leaves(arg):
                    if is_t(lf, "proj") and rule_call(lf[1]):
                        if lf[2] != want:
                            bad_.append(f"{side} slot takes component {lf[2]} of the JVP rule's result")
                        rc = lf[1]
                        if len(rc[2]) >= 2 and not (is_t(rc[2][0], "proj") and rc[2][0][2] == 0 and is_call(rc[2][0][1], "flat_unzip") and is_t(rc[2][1], "proj") and rc[2][1][2] == 1 and rc[2][1][1] == rc[2][0][1]):
                            bad_.append(f"JVP rule applied to ({show(rc[2][0])[:60]}, {show(rc[2][1])[:60]})")
                    elif side == "primal" and is_mcall(lf, "bind"):
                        pass
                    elif side == "tangent" and is_t(lf, "treemap") and mentions_any(lf, lambda x: is_call(x, "zeros_like")):
                        pass
                    else:
                        bad_.append(f"{side} slot holds {show(lf)[:100]}")
        chk.require(okr_ and not bad_, "ROLE-TANGENT", "eval_jaxpr_iterate_dual/default-arm", "outputs of a deterministic equation", derived="; ".join(dict.fromkeys(bad_))[:300] or "ok",
                    expected="Dual.dual_tree(primal_outs, tangent_outs) with (primal_outs, tangent_outs) = jvp_rule(flat_primals, flat_tangents) (or bind(...) and zeros when there are no inputs)", where=whereI)
    jvr = [x for x in subterms(ow[0]) if is_t(x, "call") and is_t(x[1], "call") and ((is_t(x[1][1], "global") and x[1][1][1].endswith("primitive_jvps.get")) or is_mcall(x[1], "get")) and x[1][2] == (("attr", el, "primitive"),)] if ow else []
    chk.require(len(jvr) >= 1, "INTERP-SKELETON", "eval_jaxpr_iterate_dual/jvp-rule", "the JVP rule of THIS equation's primitive", derived=f"{len(jvr)} rule application(s)", expected="primitive_jvps.get(eqn.primitive)(flat_primals, flat_tangents, **params)", where=whereI)
    # the pure loop: every equation kind must bind its outvars (AST: each arm of the primitive test contains a write of eqn.outvars)
    loops = [n for n in ast.walk(pure_loop) if isinstance(n, ast.For)]
    okp = len(loops) == 1
    missing = []
    if okp:
        for st in loops[0].body:
            if isinstance(st, ast.If):
                arms = [("if " + ast.unparse(st.test), st.body), ("else", st.orelse)]
                for name, body in arms:
                    writes = [n for b in body for n in ast.walk(b) if isinstance(n, ast.Call) and "write" in ast.unparse(n) and "outvars" in ast.unparse(n)]
                    if not writes:
                        missing.append(name)
    chk.require(okp and not missing, "INTERP-SKELETON", "eval_jaxpr_iterate_pure", "sample_p", derived=f"arm(s) {missing} never write eqn.outvars: a later read of those variables fails (unbound variable)",
                expected="every equation kind (including sample_p) binds its outvars in the pure continuation", where=f"{core.rel}:{pure_loop.lineno}")
    chk.explanation = "role taint (primal vs tangent), continuation-protocol arity, estimator linear forms and interpreter-loop skeletons of the ADEV implementation"
