"""C22 - the static language traces exactly the visited addresses, once each.

Decided: typestate on the five trace-producing handlers - every handle_trace path calls record(addr, tr) exactly once with its own addr and the trace returned by
that site's call (RECORD-ONCE, ADDR-ALIGN); record tests membership BEFORE writing and raises AddressReuse (ADDR-UNIQUE); StaticTrace.get_choices maps over ALL
subtraces keyed by the same addresses (TRACE-CHOICES); address reuse judged on hierarchical paths by a prefix test that record calls before writing and that assess
calls too (ADDR-UNIQUE); AssessHandler raises MissingAddress(addr) iff the sub-sample is statically empty, before calling the callee
(MISSING-ADDR); trace() binds (addr, gen_fn, args) and dispatch unflattens them in the same order (TRACE-BIND); tuple addresses nest through ChoiceMap.d / entry / extend.
Not decided: address sets of data-dependent Python control flow (JAX tracing fixes them).
"""
from ..gfi import distribution, static_lang
from ..gfi.common import run_for
from ..rules import is_call, is_mcall
from ..terms import C, Evaluator, G, P, is_t, mk_elem, mk_proj, show

CM = "core/generative/choice_map.py"


def run(chk, prog):
    n, obs = run_for(chk, prog, "C22", [distribution.analyse, static_lang.analyse])
    chk.floor("obligations tagged C22", n, 25)
    # tuple addresses nest hierarchically: d -> from_mapping -> entry(v, *addr) -> extend (first component outermost)
    ev = Evaluator(prog)
    c = prog.cls("ChoiceMap", CM)
    W = lambda m: f"{c.module.rel}:{c.methods[m].lineno}"
    r = ev.eval_fn(c.methods["d"], c.module, c)
    chk.require(is_call(r.ret, "from_mapping") and r.ret[2] == (("call", ("attr", P("d"), "items"), (), ()),), "CHM-NEST", "ChoiceMap.d", "all items", derived=show(r.ret), expected="ChoiceMap.from_mapping(d.items())", where=W("d"))
    r = ev.eval_fn(c.methods["from_mapping"], c.module, c)
    t = r.ret
    ok = is_t(t, "bin") and t[1] == "|" and is_call(t[2], "empty") and is_t(t[3], "sumover") and t[3][1] == P("pairs")
    if ok:
        e = t[3][2]
        el = mk_elem(P("pairs"))
        pair = el
        addr_t = mk_proj(pair, 0)
        norm = ("phi", ("isinst", addr_t, "tuple"), addr_t, ("tuple", (addr_t,)))
        ok = is_call(e, "entry") and len(e[2]) == 2 and e[2][0] == mk_proj(pair, 1) and e[2][1] == ("star", norm)
    chk.require(ok, "CHM-NEST", "ChoiceMap.from_mapping", "every pair contributes an entry at its (tuple) address", derived=show(t)[:200], expected="acc |= ChoiceMap.entry(v, *addr) for every pair", where=W("from_mapping"))
    r = ev.eval_fn(c.methods["extend"], c.module, c)
    t = r.ret
    ok = is_t(t, "loop") and is_t(t[1], "reversed") and t[1][1] == P("addrs") and t[2] == P("self")
    chk.require(ok, "CHM-NEST", "ChoiceMap.extend", "nest in reversed order so the first component is outermost", derived=show(t)[:200], expected="for addr in reversed(addrs): acc = Static.build({addr: acc}) / Indexed.build(acc, addr)", where=W("extend"))
    r = ev.eval_fn(c.methods["entry"], c.module, c)
    def leaves(t):
        return leaves(t[2]) + leaves(t[3]) if is_t(t, "phi") else [t]
    lv = leaves(r.ret)
    oke = len(lv) == 3 and all(is_t(x, "call") and is_t(x[1], "attr") and x[1][2] == "extend" and x[2] == (("star", P("addrs")),) for x in lv)
    chk.require(oke, "CHM-NEST", "ChoiceMap.entry", "value / dict / map extended by the address components in order", derived=show(r.ret)[:200], expected="chm.extend(*addrs)", where=W("entry"))
    # the trace's choice map is assembled by extending each sub-trace's choices with its address and merging them: Static.merge_with / Static.extend decide
    # whether tuple addresses sharing a prefix all survive ("contains exactly the addresses traced") - C17's obligations on them
    from ._share import take
    take(chk, prog, "C17", lambda o: o["instance"].split("/")[0] in ("Static.merge_with", "Static.build", "Static.extend", "ChoiceMap.extend", "Or.build") or o["rule"] == "CHM-LEFTBIAS", "choice-map assembly obligations (from C17)", 1)
    chk.explanation = "typestate of the static handlers (record once, unique addresses, missing-address test), and nesting of tuple addresses in the choice-map builders"
    for o in [o for o in obs.items if "C22" in o["props"]][:5]:
        chk.sample({"rule": o["rule"], "instance": o["instance"], "derived": o["derived"][:160]})
