"""C16 - masked iteration steps with a false mask are inert.

Decided: both combinators are `step.mask()` under dimap(pre=(state, flag) -> (flag, state)) so the flag reaches MaskCombinator's
first argument (C14 then gates the score); for both combinators the carried value returned by `post` is a flag-selection between the
step's value and the *previous* state (must depend on the mask flag AND on the state argument); the scan result is post-processed as
documented (final carry / prepend_initial_acc).  Not decided: the kernels' own behaviour.
"""
from ..program import AnalysisError
from ..rules import is_call, is_mcall, mentions, mentions_any
from ..terms import C, Evaluator, P, is_t, mk_proj, show, subterms

MOD = "combinators/scan.py"


def chain(t):
    """unfold  x.a(..).b(..)  into [(method, call_term), ...] from the innermost receiver outwards"""
    out = []
    while is_t(t, "call") and is_t(t[1], "attr"):
        out.append((t[1][2], t))
        t = t[1][1]
    return t, list(reversed(out))


def kwarg(call, name, pos=None):
    for k, v in call[3]:
        if k == name:
            return v
    if pos is not None and len(call[2]) > pos:
        return call[2][pos]
    return None


def flag_selects(ev, v, mr, state_terms):
    """is v a selection  flag ? value(mr) : previous-state ?"""
    value = ("attr", mr, "value")
    flagish = lambda x: x == ("attr", mr, "flag") or (is_mcall(x, "primal_flag") and x[1][1] == mr)
    # form 1: mr.unmask(default=<state>)
    if is_mcall(v, "unmask") and v[1][1] == mr:
        d = kwarg(v, "default", 0)
        return d is not None and d in state_terms
    # form 2: where(flag, value, state) possibly under tree_map
    for x in subterms(v):
        if is_t(x, "where") and mentions_any(x[1], flagish):
            a, b = x[2], x[3]
            strip = lambda t: t[1] if is_t(t, "leaf") else t
            if strip(a) == value and strip(b) in state_terms:
                return True
    return False


def components(chk, prog):
    """masked_iterate* are compositions  step.mask().dimap(..).scan()...: their inert-step behaviour rests on the Mask, Dimap and Scan obligations"""
    from ..gfi import mask_dimap, scan
    from ..gfi.common import Obs

    obs = Obs()
    mask_dimap.analyse(obs, prog)
    scan.analyse(obs, prog)
    n = 0
    for o in obs.items:
        # not taken: the two Mask obligations about situations masked iteration never creates (an inner step returning a Mask; a CONCRETE False flag -
        # under scan the flags are always traced)
        if o["rule"] in ("BUILD-PRECOND", "BRANCH-EFFECT") and o["instance"].startswith("Mask."):
            continue
        if o["props"] & {"C12", "C14", "C15", "C16"}:
            n += 1
            chk.require(o["ok"], o["rule"], o["instance"], o["construct"], derived=o["derived"], expected=o["expected"], where=o["where"])
    chk.floor("component obligations (Mask, Dimap, Scan)", n, 120)


def run(chk, prog):
    components(chk, prog)
    for name, final in (("masked_iterate_final", True), ("masked_iterate", False)):
        m, fn = prog.func(name, MOD)
        ev = Evaluator(prog)
        r = ev.eval_fn(fn, m)
        dec = ev.closure_of(r.ret)
        if dec is None:
            raise AnalysisError(f"{name} does not return a decorator closure")
        where = chk.where(m, fn)
        res = ev.apply(r.ret, [P("step")], module=m)
        base, ch = chain(res)
        names = [n for n, _ in ch]
        inst = name
        want = ["mask", "dimap", "scan", "map" if final else "dimap"]
        chk.require(base == P("step") and names == want, "COMPOSE", inst + "/chain", "composition chain", derived=f"{show(base)}." + ".".join(names),
                    expected="step." + ".".join(want), where=where)
        if base != P("step") or names != want:
            continue
        dm = ch[1][1]
        pre, post = kwarg(dm, "pre"), kwarg(dm, "post")
        applicable = lambda t_: ev.closure_of(t_) is not None or (is_t(t_, "global") and t_[1].rsplit(".", 1)[-1] in m.funcs)  # local or module-level function
        if not applicable(pre) or not applicable(post):
            raise AnalysisError(f"{name}: pre/post are not local functions")
        rp = ev.apply(pre, [P("state"), P("flag")], module=m)
        chk.require(rp == ("tuple", (P("flag"), P("state"))), "SCORE-GATE", inst + "/pre", "flag becomes MaskCombinator's first argument",
                    derived=show(rp), expected="(flag, state)", where=where)
        A, X, MR = P("$args"), P("$xformed"), P("$masked_retval")
        ro = ev.apply(post, [A, X, MR], module=m)
        if not is_t(ro, "tuple") or len(ro[1]) != 2:
            raise AnalysisError(f"{name}.post does not return a (carry, out) pair")
        carry, out = ro[1]
        state_terms = {mk_proj(A, 0), mk_proj(X, 1)}
        if final:
            ok = flag_selects(ev, carry, MR, state_terms)
            chk.require(ok, "MASK-INERT", inst + "/post", "carried value keeps the previous state when the flag is false",
                        derived=f"carry = {show(carry)[:200]}", expected="masked_retval.unmask(default=<previous state>) / where(flag, value, <previous state>)", where=where)
            chk.require(out == C(None), "COMPOSE", inst + "/post-out", "no stacked output", derived=show(out), expected="None", where=where)
            mp = ch[3][1]
            f = kwarg(mp, "f", 0)
            rr = ev.apply(f, [P("$ret")], module=m) if f is not None else None
            chk.require(rr == mk_proj(P("$ret"), 0), "COMPOSE", inst + "/final", "result is the final carry", derived=show(rr), expected="ret[0]", where=where)
        else:
            # "a step whose mask entry is False contributes nothing to the score": the value chosen at a masked-off step must not become the input of the next
            # (unmasked) step - its density there depends on it.  The carried value is a flag selection between the step's value and the previous state.
            chk.require(flag_selects(ev, carry, MR, state_terms), "MASK-INERT", inst + "/post", "carried value keeps the previous state when the flag is false",
                        derived=f"carry = {show(carry)[:200]}", expected="masked_retval.unmask(default=<previous state>) / where(flag, value, <previous state>)", where=where)
            chk.require(carry == out, "COMPOSE", inst + "/post-out", "carry and stacked output are the same value",
                        derived=f"({show(carry)[:120]}, {show(out)[:120]})", expected="(v, v)", where=where)
            d2 = ch[3][1]
            p2, q2 = kwarg(d2, "pre"), kwarg(d2, "post")
            rp2 = ev.apply(p2, [("star", P("$a"))], module=m) if p2 is not None else None
            from ..gfi.scan import prepend_form
            okq2, tq2 = prepend_form(ev, q2, m) if q2 is not None else (False, None)
            chk.require(okq2, "COMPOSE", inst + "/final", "initial state prepended to the stacked values",
                        derived=show(tq2)[:200] if tq2 is not None else show(q2), expected="post = (args, _, ret) -> tree_map(concatenate([init[newaxis], stacked]), args[0], ret[1])  (prepend_initial_acc)", where=where)
        sc = ch[2][1]
        chk.require(not sc[2] and not sc[3], "COMPOSE", inst + "/scan", "length inferred from the mask array", derived=show(sc)[-60:], expected=".scan()", where=where)
