"""C04 - simulate samples the program's distribution and is a function of the key.

Decided. Determinism clause: DET-NOGLOBAL - no entropy / clock source other than the `key` parameter anywhere in the package (random, numpy.random, time,
secrets, uuid, os.urandom), and no constant PRNG key inside a sampling method.  Independence clause (necessary condition): KEY-LINEAR / KEY-LOOP /
KEY-COUNTER on the sampling paths - the handlers' fold_in counter (incremented after every use, one fresh key per traced site), Vmap (per-element keys from
split(key, n) mapped on axis 0), Scan (fold_in(key, count) per iteration, count + 1 carried), Switch (one key to mutually exclusive branches), Mask / Dimap
pass-through, ExactDensity.random_weighted (sample consumes the key), the TFP sampler (seed=key), propose (all outputs from the one simulated trace).
Two sites or iterations receiving the same key value is sufficient to break "independent randomness".
Not decided: convergence of empirical frequencies; statistical quality of threefry derivations.
"""
import ast

from ..gfi.all import ALL
from ..gfi.common import run_for
from ..rules import is_call, is_mcall
from ..terms import Evaluator, P, is_t, mk_proj, show

FORBIDDEN_MODULES = {"random", "secrets", "uuid", "time", "datetime"}
SAMPLING = {"simulate", "sample", "random_weighted", "propose", "generate", "sampler", "handle_trace"}


CONSUMERS = ("simulate", "generate", "propose", "random_weighted", "sample", "importance")
SIM_METHODS = ("simulate", "generate", "propose", "random_weighted", "importance", "__call__")


def sweep_consumed_and_derived(chk, prog):
    from ..rules import is_call as _ic
    from ..terms import subterms

    n = 0
    for base in ("GenerativeFunction",):
        for ci in prog.subclasses(base) + [prog.cls("GenerativeFunction", "core/generative/generative_function.py")]:
            for meth in SIM_METHODS:
                if meth not in ci.methods:
                    continue
                fn = ci.methods[meth]
                if not any(a.arg == "key" for a in fn.args.args):
                    continue
                ev = Evaluator(prog)
                try:
                    r = ev.eval_fn(fn, ci.module, ci)
                except RecursionError:
                    continue
                terms = [r.ret] + [sc.carry_out for sc in ev.scans.values()] + [sc.init for sc in ev.scans.values()]
                consumed, parents = set(), set()
                for t in terms:
                    for x in subterms(t):
                        if is_t(x, "call") and is_t(x[1], "attr") and x[1][2] in CONSUMERS and x[2]:
                            consumed.add(x[2][0])
                        if _ic(x, "fold_in", "split") and x[2]:
                            parents.add(x[2][0])
                both = [k for k in consumed & parents]
                n += 1
                chk.require(not both, "KEY-LINEAR", f"{ci.name}.{meth}/consumed-and-derived", "a consumed key is also a derivation parent",
                            derived=f"{[show(k)[:100] for k in both]} is passed to a callee AND used as the parent of fold_in/split", expected="keys handed to a callee are leaves of the key tree", where=f"{ci.module.rel}:{fn.lineno}")
    chk.floor("sampling methods swept for key linearity", n, 25)


def run(chk, prog):
    n, obs = run_for(chk, prog, "C04", ALL)
    chk.floor("obligations tagged C04", n, 45)
    # ---------------------------------------------------------------- DET-NOGLOBAL
    scanned = 0
    for rel, m in prog.modules.items():
        scanned += 1
        bad = []
        for node in ast.walk(m.tree):
            if isinstance(node, ast.Import):
                bad += [(a.name, node.lineno) for a in node.names if a.name.split(".")[0] in FORBIDDEN_MODULES]
            elif isinstance(node, ast.ImportFrom) and node.module and node.module.split(".")[0] in FORBIDDEN_MODULES:
                bad.append((node.module, node.lineno))
            elif isinstance(node, ast.Attribute):
                d = ast.unparse(node)
                if d in ("np.random", "numpy.random", "onp.random", "os.urandom"):
                    bad.append((d, node.lineno))
        for what, line in bad:
            chk.violation("DET-NOGLOBAL", f"{rel}", f"{what}", derived=f"{what} used at {rel}:{line}", expected="the only entropy source is the `key` argument", where=f"{rel}:{line}")
    chk.ok("DET-NOGLOBAL", "package-wide import scan", f"{scanned} modules scanned: no random / numpy.random / time / secrets / uuid / os.urandom")
    chk.floor("modules scanned", scanned, 60)
    # constant keys inside sampling methods
    nconst = 0
    for rel, m in prog.modules.items():
        parents = {}
        for node in ast.walk(m.tree):
            for c in ast.iter_child_nodes(node):
                parents[c] = node
        for node in ast.walk(m.tree):
            if isinstance(node, ast.Call) and ast.unparse(node.func).split(".")[-1] in ("key", "PRNGKey") and "random" in ast.unparse(node.func) and node.args and isinstance(node.args[0], ast.Constant):
                fn = node
                in_default = False
                while fn in parents and not isinstance(fn, ast.FunctionDef):
                    if isinstance(parents[fn], ast.arguments):
                        in_default = True
                    fn = parents[fn]
                fname = fn.name if isinstance(fn, ast.FunctionDef) else "<module>"
                nconst += 1
                ok = fname not in SAMPLING or in_default
                chk.require(ok, "DET-NOGLOBAL", f"{rel}:{fname}/constant-key", f"{ast.unparse(node)} in {fname}", derived=f"constant PRNG key {ast.unparse(node)} inside `{fname}`", expected="sampling methods draw randomness only from their `key` argument", where=f"{rel}:{node.lineno}")
    chk.note(f"{nconst} constant-key sites outside sampling methods (assess's unused key, default of sample_primitive, shape placeholders)")
    # ---------------------------------------------------------------- propose: everything from the one simulated trace
    gf = prog.cls("GenerativeFunction", "core/generative/generative_function.py")
    ev = Evaluator(prog)
    r = ev.eval_fn(gf.methods["propose"], gf.module, gf)
    tr = ("call", ("attr", P("self"), "simulate"), (P("key"), P("args")), ())
    want = ("tuple", (("call", ("attr", tr, "get_choices"), (), ()), ("call", ("attr", tr, "get_score"), (), ()), ("call", ("attr", tr, "get_retval"), (), ())))
    chk.require(r.ret == want, "DELEG-ROLE", "GenerativeFunction.propose", "choices, score, retval of one simulate(key, args)", derived=show(r.ret)[:200], expected=show(want), where=f"{gf.module.rel}:{gf.methods['propose'].lineno}")
    # ---------------------------------------------------------------- TFP sampler seeds from its key
    m = prog.module("distributions/tensorflow_probability/__init__.py")
    _, fn = prog.func("tfp_distribution", "distributions/tensorflow_probability/__init__.py")
    rs = Evaluator(prog).eval_fn(prog.nested(fn, "sampler"), m, env0={"dist": P("dist")})
    chk.require(is_mcall(rs.ret, "sample") and dict(rs.ret[3]).get("seed") == P("key"), "KEY-LINEAR", "tfp_distribution.sampler", "seed=key", derived=show(rs.ret)[:160], expected="d.sample(seed=key, ...)", where=f"{m.rel}:{fn.lineno}")
    # ---------------------------------------------------------------- closures on the sampling path (shared with C32)
    from ..report import Check
    from . import C32

    tmp = Check("C32", chk.tier, chk.seed, write_evidence=False)
    tmp.nested = True
    C32.run(tmp, prog)
    viol = {(v["rule"], v["instance"]): v for v in tmp.violations}
    k = 0
    for o in tmp.obligations:
        if ".simulate" in o["instance"] or "__call__" in o["instance"]:
            k += 1
            v = viol.get((o["rule"], o["instance"]))
            if v:
                chk.violation(v["rule"], v["instance"], v["construct"], v["derived"], v["expected"], v["where"])
            else:
                chk.ok(o["rule"], o["instance"], o["fact"])
    chk.floor("closure obligations on the simulate path", k, 8)
    # ---------------------------------------------------------------- KEY-LINEAR sweep: a key handed to a callee is never also a parent of derivations
    sweep_consumed_and_derived(chk, prog)
    chk.explanation = "PRNG-key lineage on all sampling paths (fold_in counters, split per element, fold_in per iteration) and absence of any other entropy source"
    for o in [o for o in obs.items if "C04" in o["props"]][:5]:
        chk.sample({"rule": o["rule"], "instance": o["instance"], "derived": o["derived"][:160]})
