"""C18 - selections form a Boolean algebra over static addresses.

Decided - the complete induction, every obligation by finite evaluation (E4):
  SEL-BASE     All/None/Leaf/Static: check() and get_subselection()
  SEL-HOM      Complement/And/Or: check is not/and/or of ALL operand checks; get_subselection is ~/&/| of ALL operands' sub-selections at the same address
  SEL-REWRITE  every arm of the four smart constructors `build` (and ChmSel.build) is an identity of the two-point Boolean algebra
  SEL-OPS      | & ~ dispatch to the matching build with operands in order; __call__ folds get_subselection left to right; __getitem__ = self(addr).check();
               extend nests in reversed order; the `at[...]` builder
Lemma: membership is a homomorphism into pointwise Booleans and the smart constructors preserve it, so membership of any term equals the Boolean
combination of the operands' memberships for all terms and all addresses.  Not decided: `a == b` on selections containing array-valued ChmSel.
"""
import itertools

from ..program import AnalysisError
from ..rules import Arms, is_call, is_mcall, mentions
from ..terms import C, Evaluator, G, P, is_t, mk_cmp, mk_elem, mk_proj, show, subterms

MOD = "core/generative/choice_map.py"
SELF = P("self")


class Unknown(Exception):
    pass


def sem(t, env):
    """truth value of a selection-valued term under an assignment of its free operands"""
    if t in env:
        return env[t]
    if is_call(t, "none") and not t[2]:
        return False
    if is_call(t, "all") and not t[2]:
        return True
    if is_t(t, "ctor"):
        if t[1] == "NoneSel":
            return False
        if t[1] == "AllSel":
            return True
        if t[1] == "ComplementSel":
            return not sem(t[2][0], env)
        if t[1] == "AndSel":
            return sem(t[2][0], env) and sem(t[2][1], env)
        if t[1] == "OrSel":
            return sem(t[2][0], env) or sem(t[2][1], env)
    if is_t(t, "un") and t[1] == "~":
        return not sem(t[2], env)
    if is_t(t, "un") and t[1] == "not":
        return not sem(t[2], env)
    if is_t(t, "bin") and t[1] == "&":
        return sem(t[2], env) and sem(t[3], env)
    if is_t(t, "bin") and t[1] == "|":
        return sem(t[2], env) or sem(t[3], env)
    if is_t(t, "bool"):
        vs = [sem(x, env) for x in t[2]]
        return all(vs) if t[1] == "and" else any(vs)
    if is_t(t, "const") and isinstance(t[1], bool):
        return t[1]
    raise Unknown(show(t)[:120])


def arms(res):
    return list(res.returns)


def constraints(conds):
    """pattern constraints of one match arm: operand -> class, plus equality guards (positive tests only)"""
    cls, eq = {}, []
    def visit(t):
        if is_t(t, "isinst"):
            cls[t[1]] = t[2]
        elif is_t(t, "bool") and t[1] == "and":
            for x in t[2]:
                visit(x)
        elif is_t(t, "cmp") and t[1] == "==":
            eq.append((t[2], t[3]))
    for t, pol in conds:
        if pol:
            visit(t)
    return cls, eq


def check_rewrite(chk, inst, res, operands, spec, where):
    """E4 over the whole smart constructor: for every abstract input - each operand one of AllSel (true), NoneSel (false), ComplementSel(x) (not x), any other
    selection (either value), and `a == b` true or false where consistent - the decision tree of the builder is walked by deciding its tests, and the selection
    it returns must denote spec(operands).  Independent of how the cases are spelled (match arms, merged `or` arms, guard clauses)."""
    # every class the builder tests an operand against is a kind of its own (its instances may denote either truth value)
    tested = {n_ for x in subterms(res.ret) if is_t(x, "isinst") and x[1] in operands for n_ in x[2].split("|")}
    KINDS = tuple(["AllSel", "NoneSel", "ComplementSel", "Other"] + sorted(tested - {"AllSel", "NoneSel", "ComplementSel"}))
    rows, bad = 0, []

    def truth(c, kinds, env, eqflag):
        if is_t(c, "isinst"):
            k = kinds.get(c[1])
            if k is None:
                raise Unknown(show(c))
            return k in c[2].split("|")
        if is_t(c, "bool"):
            vs = [truth(x, kinds, env, eqflag) for x in c[2]]
            return all(vs) if c[1] == "and" else any(vs)
        if is_t(c, "un") and c[1] == "not":
            return not truth(c[2], kinds, env, eqflag)
        if is_t(c, "cmp") and c[1] == "==" and {c[2], c[3]} == set(operands[:2]) and len(operands) == 2:
            return eqflag
        if c in env.get("$tests", {}):  # any other test (on parts of the operands): both outcomes are explored
            return env["$tests"][c]
        raise Unknown(show(c)[:80])

    def pick(t, kinds, env, eqflag):
        while is_t(t, "phi"):
            t = t[2] if truth(t[1], kinds, env, eqflag) else t[3]
        return t

    try:
        for kinds_ in itertools.product(KINDS, repeat=len(operands)):
            kinds = dict(zip(operands, kinds_))
            free = [o for o in operands if kinds[o] not in ("AllSel", "NoneSel")]
            for vals in itertools.product([False, True], repeat=len(free)):
                env = {}
                for o in operands:
                    if kinds[o] == "AllSel":
                        env[o] = True
                    elif kinds[o] == "NoneSel":
                        env[o] = False
                for o, v in zip(free, vals):
                    if kinds[o] == "ComplementSel":
                        env[("attr", o, "s")] = v
                        env[("matcharg", o, "ComplementSel", 0)] = v
                        env[o] = not v
                    else:
                        env[o] = v
                eq_options = [False]
                if len(operands) == 2 and kinds_[0] == kinds_[1] and env[operands[0]] == env[operands[1]]:
                    eq_options = [False, True]  # structurally equal operands are possible
                def atoms(c):
                    if is_t(c, "bool"):
                        return [y for x in c[2] for y in atoms(x)]
                    if is_t(c, "un") and c[1] == "not":
                        return atoms(c[2])
                    return [c]
                other = [c for c in dict.fromkeys(y for x in subterms(res.ret) if is_t(x, "phi") for y in atoms(x[1]))
                         if not is_t(c, "isinst") and not (is_t(c, "cmp") and c[1] == "==" and {c[2], c[3]} == set(operands[:2]))][:3]
                for eqflag, tvals in itertools.product(eq_options, itertools.product([False, True], repeat=len(other))):
                    env["$tests"] = dict(zip(other, tvals))
                    rows += 1
                    leaf = pick(res.ret, kinds, env, eqflag)
                    try:
                        got = sem(leaf, env)
                    except Unknown as e:
                        bad.append(f"{dict((show(k), v) for k, v in kinds.items())}: result {show(leaf)[:60]} is not a Boolean combination of the operands ({e})")
                        continue
                    if got != spec(*[env[o] for o in operands]):
                        bad.append(f"{dict((show(k), v) for k, v in kinds.items())} values {[env[o] for o in operands]} equal={eqflag}: returns {show(leaf)[:50]} = {got}")
    except Unknown as e:
        raise AnalysisError(f"{inst}: unrecognised test or result form {e}")
    chk.require(not bad and rows > 0, "SEL-REWRITE", f"{inst}/table", "the builder's result denotes the Boolean operation for every kind of operand", derived=f"{rows} abstract inputs; " + "; ".join(bad[:2]),
                expected="equals the Boolean operation on the operands for every consistent assignment", where=where)
    return max(1, len(res.returns))


def run(chk, prog):
    ev = Evaluator(prog)
    W = lambda c, m: f"{c.module.rel}:{c.methods[m].lineno}"
    cl = {n: prog.cls(n, MOD) for n in ("Selection", "AllSel", "NoneSel", "LeafSel", "StaticSel", "AndSel", "OrSel", "ComplementSel", "ChmSel", "_SelectionBuilder")}
    ADDR = P("addr")
    NONE = lambda t: is_call(t, "none") and not t[2] or (is_t(t, "ctor") and t[1] == "NoneSel")
    # ---------------------------------------------------------------- SEL-BASE
    base = {"AllSel": (True, "self"), "NoneSel": (False, "self"), "LeafSel": (True, "none")}
    for n, (cv, sub) in base.items():
        c = cl[n]
        r = ev.eval_fn(c.methods["check"], c.module, c)
        chk.require(r.ret == C(cv), "SEL-BASE", f"{n}.check", f"check() of {n}", derived=show(r.ret), expected=str(cv), where=W(c, "check"))
        r = ev.eval_fn(c.methods["get_subselection"], c.module, c)
        ok = (r.ret == SELF) if sub == "self" else NONE(r.ret)
        chk.require(ok, "SEL-BASE", f"{n}.get_subselection", f"sub-selection of {n}", derived=show(r.ret), expected="self" if sub == "self" else "Selection.none()", where=W(c, "get_subselection"))
    c = cl["StaticSel"]
    r = ev.eval_fn(c.methods["check"], c.module, c)
    chk.require(r.ret == C(False), "SEL-BASE", "StaticSel.check", "an address prefix is not itself selected", derived=show(r.ret), expected="False", where=W(c, "check"))
    r = ev.eval_fn(c.methods["get_subselection"], c.module, c)
    S_, A_ = ("attr", SELF, "s"), ("attr", SELF, "addr")
    # finite evaluation over the two tests (the stored component is the wildcard `...`; the asked component equals the stored one)
    from ..rules import Undecided, pick
    got, ok = {}, True
    for e_, m_ in itertools.product((True, False), repeat=2):
        def atom(c, e_=e_, m_=m_):
            if is_t(c, "isinst") and c[1] == A_ and "Ellipsis" in c[2]:
                return e_
            if c in (mk_cmp("==", ADDR, A_),):
                return m_
            raise Undecided(show(c))
        try:
            leaf = pick(r.ret, atom)
        except Undecided as ex:
            raise AnalysisError(f"StaticSel.get_subselection: unrecognised test {ex}")
        got[f"wildcard={e_}, equal={m_}"] = leaf
        ok = ok and ((leaf == S_) if (e_ or m_) else NONE(leaf))
    chk.require(ok, "SEL-BASE", "StaticSel.get_subselection", "wildcard / matching component -> inner selection, otherwise none", derived={k: show(v) for k, v in got.items()}.__str__(), expected="... -> self.s; addr == self.addr -> self.s; else Selection.none()", where=W(c, "get_subselection"))
    # ---------------------------------------------------------------- SEL-HOM
    def ops(t):
        """X.build(..) of the three combinators written as the operator it implements (Selection.__or__ / __and__ / __invert__ dispatch to exactly these,
        SEL-OPS below): `a | b` and `OrSel.build(a, b)` are one term"""
        if not isinstance(t, tuple):
            return t
        t = tuple(ops(x) for x in t)
        if is_call(t, "build") and is_t(t[1][1], "global") and not t[3]:
            cn = t[1][1][1].rsplit(".", 1)[-1]
            if cn == "OrSel" and len(t[2]) == 2:
                return ("bin", "|", t[2][0], t[2][1])
            if cn == "AndSel" and len(t[2]) == 2:
                return ("bin", "&", t[2][0], t[2][1])
            if cn == "ComplementSel" and len(t[2]) == 1:
                return ("un", "~", t[2][0])
        return t
    sub = lambda x: ("call", x, (ADDR,), ())
    chkc = lambda x: ("call", ("attr", x, "check"), (), ())
    c = cl["ComplementSel"]
    r = ev.eval_fn(c.methods["check"], c.module, c)
    chk.require(r.ret == ("un", "not", chkc(S_)), "SEL-HOM", "ComplementSel.check", "not", derived=show(r.ret), expected="not self.s.check()", where=W(c, "check"))
    r = ev.eval_fn(c.methods["get_subselection"], c.module, c)
    chk.require(ops(r.ret) == ("un", "~", sub(S_)), "SEL-HOM", "ComplementSel.get_subselection", "~ commutes with sub-selection", derived=show(r.ret), expected="~self.s(addr)", where=W(c, "get_subselection"))
    for n, op, bop in (("AndSel", "and", "&"), ("OrSel", "or", "|")):
        c = cl[n]
        s1, s2 = ("attr", SELF, "s1"), ("attr", SELF, "s2")
        r = ev.eval_fn(c.methods["check"], c.module, c)
        ok = is_t(r.ret, "bool") and r.ret[1] == op and set(r.ret[2]) == {chkc(s1), chkc(s2)}
        chk.require(ok, "SEL-HOM", f"{n}.check", f"{op} of all operand checks", derived=show(r.ret), expected=f"self.s1.check() {op} self.s2.check()", where=W(c, "check"))
        r = ev.eval_fn(c.methods["get_subselection"], c.module, c)
        rr_ = ops(r.ret)
        ok = is_t(rr_, "bin") and rr_[1] == bop and {rr_[2], rr_[3]} == {sub(s1), sub(s2)}
        chk.require(ok, "SEL-HOM", f"{n}.get_subselection", f"{bop} of all operands' sub-selections at the same address", derived=show(r.ret), expected=f"self.s1(addr) {bop} self.s2(addr)", where=W(c, "get_subselection"))
        chk.require(c.fields == ["s1", "s2"], "SEL-HOM", f"{n}.fields", "two operands", derived=str(c.fields), expected="s1, s2", where=f"{c.module.rel}:{c.node.lineno}")
    # ---------------------------------------------------------------- SEL-REWRITE
    n_arms = 0
    a, b, s = P("a"), P("b"), P("s")
    r = ev.eval_fn(cl["AndSel"].methods["build"], cl["AndSel"].module, cl["AndSel"])
    n_arms += check_rewrite(chk, "AndSel.build", r, [a, b], lambda x, y: x and y, W(cl["AndSel"], "build"))
    r = ev.eval_fn(cl["OrSel"].methods["build"], cl["OrSel"].module, cl["OrSel"])
    n_arms += check_rewrite(chk, "OrSel.build", r, [a, b], lambda x, y: x or y, W(cl["OrSel"], "build"))
    r = ev.eval_fn(cl["ComplementSel"].methods["build"], cl["ComplementSel"].module, cl["ComplementSel"])
    n_arms += check_rewrite(chk, "ComplementSel.build", r, [s], lambda x: not x, W(cl["ComplementSel"], "build"))
    # StaticSel.build: extend(none) = none; otherwise the constructor
    c = cl["StaticSel"]
    r = ev.eval_fn(c.methods["build"], c.module, c)
    for conds, ret in arms(r):
        cls_, _ = constraints(conds)
        n_arms += 1
        if cls_.get(s) == "NoneSel":
            chk.require(ret == s or NONE(ret), "SEL-REWRITE", "StaticSel.build/arm[s:NoneSel]", "extend(none) = none", derived=show(ret), expected="the empty selection", where=W(c, "build"))
        else:
            chk.require(ret == ("ctor", "StaticSel", (s, P("addr")), ()), "SEL-REWRITE", "StaticSel.build/arm[_]", "constructor", derived=show(ret), expected="StaticSel(s, addr)", where=W(c, "build"))
    c = cl["ChmSel"]
    r = ev.eval_fn(c.methods["build"], c.module, c)
    for conds, ret in arms(r):
        n_arms += 1
        emp = any(is_mcall(t, "static_is_empty") and p for t, p in conds)
        if emp:
            chk.require(NONE(ret), "SEL-REWRITE", "ChmSel.build/arm[empty]", "selection of an empty map is none", derived=show(ret), expected="Selection.none()", where=W(c, "build"))
        else:
            chk.require(ret == ("ctor", "ChmSel", (P("chm"),), ()), "SEL-REWRITE", "ChmSel.build/arm[_]", "constructor", derived=show(ret), expected="ChmSel(chm)", where=W(c, "build"))
    # (the number of ARMS depends on how the cases are spelled - two arms returning the same operand may be one `or` - so the floor is on the builders
    # judged, each of which must have a default arm and at least one rewriting arm)
    chk.floor("smart constructors judged arm by arm", 5 if n_arms >= 10 else 0, 5)
    # ChmSel semantics
    r = ev.eval_fn(c.methods["check"], c.module, c)
    chk.require(r.ret == ("call", ("attr", ("attr", SELF, "c"), "has_value"), (), ()), "SEL-BASE", "ChmSel.check", "selected iff the map has a value here", derived=show(r.ret), expected="self.c.has_value()", where=W(c, "check"))
    r = ev.eval_fn(c.methods["get_subselection"], c.module, c)
    chk.require(r.ret == ("call", ("attr", ("call", ("attr", ("attr", SELF, "c"), "get_inner_map"), (ADDR,), ()), "get_selection"), (), ()), "SEL-BASE", "ChmSel.get_subselection", "selection of the sub-map", derived=show(r.ret), expected="self.c.get_inner_map(addr).get_selection()", where=W(c, "get_subselection"))
    # ---------------------------------------------------------------- SEL-OPS
    c = cl["Selection"]
    for meth, cls_, argsx in (("__or__", "OrSel", (SELF, P("other"))), ("__and__", "AndSel", (SELF, P("other"))), ("__invert__", "ComplementSel", (SELF,))):
        r = ev.eval_fn(c.methods[meth], c.module, c)
        ok = is_call(r.ret, "build") and is_t(r.ret[1][1], "global") and r.ret[1][1][1].endswith("." + cls_) and r.ret[2] == argsx
        chk.require(ok, "SEL-OPS", f"Selection.{meth}", f"dispatch to {cls_}.build with operands in order", derived=show(r.ret), expected=f"{cls_}.build({', '.join(show(x) for x in argsx)})", where=W(c, meth))
    r = ev.eval_fn(c.methods["complement"], c.module, c)
    chk.require(ops(r.ret) == ("un", "~", SELF), "SEL-OPS", "Selection.complement", "~self", derived=show(r.ret), expected="~self", where=W(c, "complement"))
    r = ev.eval_fn(c.methods["__call__"], c.module, c)
    ok = is_t(r.ret, "loop") and is_t(r.ret[3], "call") and is_t(r.ret[3][1], "attr") and r.ret[3][1][2] == "get_subselection" and r.ret[2] == SELF and r.ret[3][1][1] == SELF and r.ret[3][2] == (mk_elem(r.ret[1]),)
    ok = ok and is_t(r.ret[1], "phi") and r.ret[1][2] == ADDR and r.ret[1][3] == ("tuple", (ADDR,))
    if not ok:
        # the same left fold written by structural recursion on the address: S(a) = S.sub(a) for one component, S(()) = S, S((h, *t)) = S.sub(h)(t)
        gs_ = lambda x_: ("call", ("attr", SELF, "get_subselection"), (x_,), ())
        rec_ = ("call", gs_(mk_proj(ADDR, 0)), (("slice", ADDR, 1, None),), ())
        ok = r.ret == ("phi", ("isinst", ADDR, "tuple"), ("phi", ADDR, rec_, SELF), gs_(ADDR))
    chk.require(ok, "SEL-OPS", "Selection.__call__", "left fold of get_subselection over the address components (hence S(a)[b] == S[a, b])", derived=show(r.ret)[:200], expected="for comp in addr: sub = sub.get_subselection(comp), starting from self", where=W(c, "__call__"))
    r = ev.eval_fn(c.methods["__getitem__"], c.module, c)
    chk.require(r.ret == chkc(("call", SELF, (ADDR,), ())), "SEL-OPS", "Selection.__getitem__", "membership", derived=show(r.ret), expected="self(addr).check()", where=W(c, "__getitem__"))
    r = ev.eval_fn(c.methods["__contains__"], c.module, c)
    chk.require(r.ret == ("index", SELF, ADDR), "SEL-OPS", "Selection.__contains__", "in", derived=show(r.ret), expected="self[addr]", where=W(c, "__contains__"))
    r = ev.eval_fn(c.methods["extend"], c.module, c)
    ok = is_t(r.ret, "loop") and is_t(r.ret[1], "reversed") and r.ret[1][1] == P("addrs") and r.ret[2] == SELF and is_call(r.ret[3], "build") and r.ret[3][2] == (SELF, mk_elem(r.ret[1]))
    chk.require(ok, "SEL-OPS", "Selection.extend", "nest in reversed order so the first component is outermost", derived=show(r.ret)[:200], expected="for addr in reversed(addrs): acc = StaticSel.build(acc, addr)", where=W(c, "extend"))
    for meth, cn in (("all", "AllSel"), ("none", "NoneSel"), ("leaf", "LeafSel")):
        r = ev.eval_fn(c.methods[meth], c.module, c)
        chk.require(r.ret == ("ctor", cn, (), ()), "SEL-OPS", f"Selection.{meth}", "constructor", derived=show(r.ret), expected=f"{cn}()", where=W(c, meth))
    r = ev.eval_fn(c.methods["filter"], c.module, c)
    chk.require(r.ret == ("call", ("attr", P("sample"), "filter"), (SELF,), ()), "SEL-OPS", "Selection.filter", "delegates", derived=show(r.ret), expected="sample.filter(self)", where=W(c, "filter"))
    b_ = cl["_SelectionBuilder"]
    r = ev.eval_fn(b_.methods["__getitem__"], b_.module, b_)
    got = Arms()
    for conds, ret in arms(r):
        empty = any(is_t(t, "cmp") and t[1] == "==" and t[3] == ("tuple", ()) and p for t, p in conds)
        got["empty" if empty else "path"] = ret
    okb = is_call(got.get("empty"), "leaf") and is_mcall(got.get("path"), "extend") and is_call(got["path"][1][1], "all") and len(got["path"][2]) == 1 and is_t(got["path"][2][0], "star")
    if not okb and r.ret is not None:
        # decided per kind of address: the empty tuple / a non-empty path; the test may be `addr == ()` or the truth value of the (tuple) address.
        # X.extend(*()) is X: extend is the fold checked above, over no components
        from ..rules import Undecided, pick
        A_ = ("phi", ("isinst", ADDR, "tuple"), ADDR, ("tuple", (ADDR,)))
        def by(empty):
            def atom(c):
                if c == A_:
                    return not empty
                if is_t(c, "cmp") and c[1] in ("==", "!=") and {c[2], c[3]} == {A_, ("tuple", ())}:
                    return empty == (c[1] == "==")
                if is_t(c, "cmp") and c[1] in ("==", "!=", ">") and c[2] == ("call", G("len"), (A_,), ()) and c[3] == C(0):
                    return empty == (c[1] == "==")
                raise Undecided(show(c))
            return pick(r.ret, atom)
        try:
            e_, p_ = by(True), by(False)
            is_ext = lambda t_, base: is_mcall(t_, "extend") and is_call(t_[1][1], base) and t_[2] == (("star", A_),) and not t_[3]
            okb = (is_call(e_, "leaf") and not e_[2] or is_ext(e_, "leaf")) and is_ext(p_, "all")
            got = {"empty": e_, "path": p_}
        except Undecided:
            pass
    chk.require(okb, "SEL-OPS", "_SelectionBuilder.__getitem__", "at[()] is the leaf; at[a, b] = all().extend(a, b)", derived={k: show(v)[:80] for k, v in got.items()}.__str__(), expected="() -> Selection.leaf(); else Selection.all().extend(*addr)", where=W(b_, "__getitem__"))
    chk.explanation = "finite (two-point Boolean algebra) evaluation of every base case, homomorphism clause and rewrite arm of the selection algebra; covers all terms and addresses by structural induction"
