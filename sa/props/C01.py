"""C01 - every trace agrees with assess (TRACE-ARGS/SCORE/RETVAL/CHOICES, ASSESS-AGREE, CARRY-THREAD, IDX-ALIGN per constructor).

Induction step of the GFI oracle (DESIGN.md Appendix A): obligations tagged C01 emitted by the constructor analyses in sa/gfi/*.
Decided: the structural clauses named above, for every inner program / input / history at once (inner calls are opaque atoms; IH).
Not decided: numeric agreement up to tolerance; behaviour of JAX primitives.
"""
from ..gfi.all import ALL
from ..gfi.common import run_for


def run(chk, prog):
    n, obs = run_for(chk, prog, "C01", ALL)
    chk.floor("obligations tagged C01", n, 170)
    # "any program" includes partially applied closures (shared with C32)
    from ._share import take
    take(chk, prog, "C32", lambda o: ".assess" in o["instance"] or ".simulate" in o["instance"], "closure obligations on the simulate / assess paths (from C32)", 2)
    chk.explanation = "structural-induction obligations for C01: every trace agrees with assess (TRACE-ARGS/SCORE/RETVAL/CHOICES, ASSESS-AGREE, CARRY-THREAD, IDX-ALIGN per constructor); each inner GFI call is an opaque atom (induction hypothesis), the derived provenance terms / linear forms are compared with the oracle table"
    for o in [o for o in obs.items if "C01" in o["props"]][:6]:
        chk.sample({"rule": o["rule"], "instance": o["instance"], "derived": o["derived"][:200], "expected": o["expected"][:160]})
