"""C26 - Importance and SMC return properly weighted particles and unbiased evidence.

Decided (WEIGHT-INF frozen forms and wiring): Importance / ImportanceK.run_smc  `target importance weight - proposal weight` (0 without proposal) with the
constraint handed to target.importance being exactly the proposed choices (PROPOSAL-PAIRING); run_csmc `target importance weight - q.estimate_logpdf(retained)`;
ChangeTarget._reweight (x3) `new target weight - particle score + old weight`; random_weighted / estimate_logpdf `particle score - log marginal likelihood
estimate`; get_log_marginal_likelihood_estimate `logsumexp(w) - log N`; POLARITY (filter_to_unconstrained uses ~constraint.get_selection());
CHM-LEFTBIAS (Target.importance merges with the target's constraint on the dominant side); RETAINED-SCORE (estimate_logpdf scores the retained particle, the
convention run_csmc / run_csmc_for_normalizing_constant fix by stacking the retained particle last); SIG-VARIADIC.
Not decided: unbiasedness / consistency (the standard importance-sampling argument from these forms is trusted mathematics).
"""
from ..linform import lin, show_lin
from ..program import AnalysisError
from ..rules import calls, is_call, is_mcall, mcalls, mentions, mentions_any
from ..terms import C, Evaluator, G, P, is_t, mk_proj, show, subst, subterms
from .C25 import sig_variadic

SMC = "_src/inference/smc.py"
SP = "_src/inference/sp.py"
SELF = P("self")
Q, TGT = ("attr", SELF, "q"), ("attr", SELF, "target")


def pc_fields(t):
    if is_t(t, "ctor") and t[1] == "ParticleCollection" and len(t[2]) == 3:
        return t[2]
    return None


def unstack(t):
    return t[1] if is_t(t, "stack") else t


def weight_form(w):
    """linear form of a log-weight vector term: jnp.array([x]) or a difference of stacks / scalars"""
    if is_call(w, "array") and is_t(w[2][0], "list") and len(w[2][0][1]) == 1:
        return lin(w[2][0][1][0])
    return lin(w)


def run(chk, prog):
    # ---------------------------------------------------------------- Importance / ImportanceK
    for cn in ("Importance", "ImportanceK"):
        ci = prog.cls(cn, SMC)
        for meth in ("run_smc", "run_csmc"):
            ev = Evaluator(prog)
            ev.opaque_methods.add("get_num_particles")
            fn = ci.methods[meth]
            where = f"{ci.module.rel}:{fn.lineno}"
            r = ev.eval_fn(fn, ci.module, ci)
            arms = {}
            # the two arms are joined by phi on the test of self.q; split the returned constructor by that test
            t = r.ret
            f = pc_fields(t)
            if f is None:
                raise AnalysisError(f"{cn}.{meth} does not return a ParticleCollection")
            parts, lw, valid = f
            def pick(term, qarm):
                """resolve phi nodes whose test mentions self.q"""
                def go(x):
                    if is_t(x, "phi") and mentions(x[1], Q):
                        neg = is_t(x[1], "is") and x[1][2] == C(None)  # `self.q is None`
                        truth = (not qarm) if neg else qarm
                        if is_t(x[1], "un") and x[1][1] == "not":
                            inner = x[1][2]
                            negi = is_t(inner, "is") and inner[2] == C(None)
                            truth = not ((not qarm) if negi else qarm)
                        return go(x[2] if truth else x[3])
                    if isinstance(x, tuple):
                        return tuple(go(y) if isinstance(y, tuple) else y for y in x)
                    return x
                return go(term)
            for qarm in (True, False):
                arm = "proposal" if qarm else "no-proposal"
                inst = f"{cn}.{meth}/{arm}"
                lwq = pick(lw, qarm)
                pq = pick(parts, qarm)
                form = weight_form(lwq)
                imps = [c for c in mcalls(lwq, "importance") if c[1][1] == TGT] or [c for c in subterms(lwq) if is_t(c, "call") and is_call(c[1], "vmap") and c[1][2] and c[1][2][0] == ("attr", TGT, "importance")]
                imps = list(dict.fromkeys(imps))
                pos = [(m, c) for m, c in form.items() if c == 1]
                neg = [(m, c) for m, c in form.items() if c == -1]
                retained = P("retained")

                def is_imp_weight(atom):
                    a = unstack(atom)
                    return is_t(a, "proj") and a[2] == 1 and is_mcall(a[1], "importance") and a[1][1][1] == TGT

                posw = [next(iter(m)) for m, c in pos if len(m) == 1]
                chk.require(len(posw) == 1 and is_imp_weight(posw[0]) if (meth == "run_smc" or qarm) else True, "WEIGHT-INF", inst + "/target-term", "the target term is the IMPORTANCE WEIGHT returned by target.importance (not the trace score)",
                            derived=show(posw[0])[:200] if posw else show_lin(form)[:200], expected="target.importance(key, choices)[1]", where=where)
                # which importance calls carry the constraint?
                def constraint_of(c):
                    return c[2][1] if len(c[2]) >= 2 else None
                for c_ in imps:
                    k_ = c_[2][0] if c_[2] else None
                    def keyish(t):
                        while is_t(t, "proj") or is_t(t, "elem"):
                            t = t[1]
                        return t == P("key") or is_call(t, "split", "fold_in")
                    chk.require(k_ is not None and keyish(k_) and (len(c_[2]) < 2 or not keyish(c_[2][1])), "DELEG-ROLE", inst + "/importance-args", "target.importance(key, constraint) argument roles",
                                derived=show(c_)[:200], expected="a key derived from `key` first, the constraint second", where=where)
                cons = [constraint_of(c) for c in imps]
                dep_choices = [c for c in cons if c is not None and not (is_call(c, "empty") or c == ("elem", ("call", ("attr", G("genjax._src.core.generative.choice_map.ChoiceMap"), "empty"), (), ())))]
                if meth == "run_smc":
                    if qarm:
                        rw = [c for c in subterms(lwq) if (is_mcall(c, "random_weighted") and c[1][1] == Q) or (is_t(c, "call") and is_call(c[1], "vmap") and c[1][2] and c[1][2][0] == ("attr", Q, "random_weighted"))]
                        rw = list(dict.fromkeys(rw))
                        ok = len(rw) == 1 and len(pos) == 1 and len(neg) == 1 and len(form) == 2
                        if ok:
                            rwc = rw[0]
                            ok = all(mentions(c, mk_proj(rwc, 1)) or mentions(c, unstack(mk_proj(rwc, 1))) for c in dep_choices) and len(dep_choices) >= 1 and mentions(next(iter(neg[0][0])), rwc) and not mentions(next(iter(pos[0][0])), mk_proj(rwc, 0))
                        chk.require(ok, "WEIGHT-INF", inst, "log weight = target importance weight - proposal weight; the constraint is the proposed choices", derived=show_lin(form)[:300],
                                    expected="+target.importance(key, proposed choices)[1] - q.random_weighted(...)[0]", where=where)
                    else:
                        ok = len(form) == 1 and len(pos) == 1 and not dep_choices and len(imps) >= 1
                        chk.require(ok, "WEIGHT-INF", inst, "without a proposal the internal proposal is already divided out", derived=show_lin(form)[:300], expected="+target.importance(key, empty)[1]", where=where)
                else:
                    has_ret = any(mentions(c, retained) for c in dep_choices)
                    qterm = [m for m, c in neg if mentions(next(iter(m)), retained) and mentions(next(iter(m)), Q)]
                    ok_pair = (not has_ret) or len(qterm) >= 1
                    chk.require(ok_pair, "PROPOSAL-PAIRING", inst, "retained particle's proposal density",
                                derived=f"log weight {show_lin(form)[:260]}: the constraint handed to target.importance depends on `retained` but no subtracted term does",
                                expected="if the importance constraint depends on retained / proposed choices, the log weight subtracts their proposal density", where=where)
                    if qarm:
                        el = [c for c in mcalls(lwq, "estimate_logpdf") if c[1][1] == Q]
                        ok = len(el) >= 1 and el[0][2][1] == retained and el[0][2][2] == TGT
                        chk.require(ok, "WEIGHT-INF", inst + "/q-score", "q.estimate_logpdf(key, retained, target)", derived=show(el[0])[:200] if el else "none", expected="self.q.estimate_logpdf(k, retained, self.target)", where=where)
                chk.require(pq is not None and (mentions_any(pq, lambda x: is_mcall(x, "importance") or (is_t(x, "call") and is_call(x[1], "vmap")))), "WEIGHT-INF", inst + "/particles", "particles are the target's traces", derived=show(pq)[:160], expected="traces returned by target.importance", where=where)
    # ---------------------------------------------------------------- ChangeTarget
    CT = prog.cls("ChangeTarget", SMC)
    for meth in ("run_smc", "run_csmc", "run_csmc_for_normalizing_constant"):
        fn = CT.methods[meth]
        # the per-particle reweighting function is whatever is vmapped over (keys, particles, weights): a local function or a method, found by that role
        import ast as _ast
        vm_ = [n for n in _ast.walk(fn) if isinstance(n, _ast.Call) and isinstance(n.func, _ast.Call) and _ast.unparse(n.func.func).split(".")[-1] == "vmap" and n.func.args and len(n.args) == 3]
        rw_fn = None
        if len(vm_) == 1:
            x_ = vm_[0].func.args[0]
            if isinstance(x_, _ast.Name):
                rw_fn = next((n for n in _ast.walk(fn) if isinstance(n, _ast.FunctionDef) and n.name == x_.id and n is not fn), None)
            elif isinstance(x_, _ast.Attribute) and isinstance(x_.value, _ast.Name) and x_.value.id == "self":
                rw_fn = CT.methods.get(x_.attr)
        if rw_fn is None:
            # no single per-particle function: the reweighting may be done on the whole batch (vmapped stages, then array arithmetic).  Decided on the evaluated
            # method instead: the weights handed to the resulting ParticleCollection, read per particle (Stack[b] -> b, a batched array X -> its element)
            rr_ = Evaluator(prog).eval_fn(fn, CT.module, CT)
            W_ = rr_.ret[2][1] if is_t(rr_.ret, "ctor") and rr_.ret[1] == "ParticleCollection" and len(rr_.ret[2]) >= 2 else None

            def unbatch(t_):
                if is_t(t_, "stack"):
                    return t_[1]
                if is_t(t_, "bin") and t_[1] in ("+", "-"):
                    return ("bin", t_[1], unbatch(t_[2]), unbatch(t_[3]))
                if is_t(t_, "un") and t_[1] == "-":
                    return ("un", "-", unbatch(t_[2]))
                return ("elem", t_)
            if W_ is None:
                raise AnalysisError(f"ChangeTarget.{meth}: no vmap(<reweighting function>)(keys, particles, weights) found and the method does not end in ParticleCollection(particles, weights, ..)")
            form = lin(unbatch(W_))
            colls = [x for x in mcalls(rr_.ret, "run_smc" if meth == "run_smc" else "run_csmc") if x[1][1] == ("attr", SELF, "prev")]
            imps = [x for x in mcalls(W_, "importance") if x[1][1] == ("attr", SELF, "target")]
            okf = len(colls) >= 1 and len(imps) == 1 and len(imps[0][2]) == 2 and is_t(imps[0][2][0], "elem")
            if okf:
                coll0 = colls[0]
                part = ("elem", ("call", ("attr", coll0, "get_particles"), (), ()))
                wt = ("elem", ("call", ("attr", coll0, "get_log_weights"), (), ()))
                lat = ("call", ("attr", ("call", ("attr", ("attr", SELF, "prev"), "get_final_target"), (), ()), "filter_to_unconstrained"), (("call", ("attr", part, "get_choices"), (), ()),), ())
                imp = ("call", ("attr", ("attr", SELF, "target"), "importance"), (imps[0][2][0], lat), ())
                want = {frozenset([mk_proj(imp, 1)]): 1, frozenset([("call", ("attr", part, "get_score"), (), ())]): -1, frozenset([wt]): 1}
                okf = form == want
            chk.require(okf, "WEIGHT-INF", f"ChangeTarget.{meth}._reweight", "reweight by the ratio of new to old target densities", derived=show_lin(form)[:300],
                        expected="per particle: +new_target.importance(key_i, unconstrained latents of the old target)[1] - particle_i.get_score() + old weight_i", where=f"{CT.module.rel}:{fn.lineno}")
            continue
        ev = Evaluator(prog)
        rr = ev.eval_fn(rw_fn, CT.module, CT, env0={"self": SELF})
        where = f"{CT.module.rel}:{rw_fn.lineno}"
        w = rr.ret if not is_t(rr.ret, "tuple") else rr.ret[1][1]
        form = lin(w)
        pn_ = [a_.arg for a_ in rw_fn.args.args if a_.arg != "self"]
        if len(pn_) != 3:
            raise AnalysisError(f"ChangeTarget.{meth}: the reweighting function does not take (key, particle, weight)")
        key, part, wt = (P(x) for x in pn_)
        lat = ("call", ("attr", ("call", ("attr", ("attr", SELF, "prev"), "get_final_target"), (), ()), "filter_to_unconstrained"), (("call", ("attr", part, "get_choices"), (), ()),), ())
        imp = ("call", ("attr", ("attr", SELF, "target"), "importance"), (key, lat), ())
        want = {frozenset([mk_proj(imp, 1)]): 1, frozenset([("call", ("attr", part, "get_score"), (), ())]): -1, frozenset([wt]): 1}
        chk.require(form == want, "WEIGHT-INF", f"ChangeTarget.{meth}._reweight", "reweight by the ratio of new to old target densities", derived=show_lin(form)[:300],
                    expected="+new_target.importance(key, unconstrained latents of the old target)[1] - particle.get_score() + old weight", where=where)
    # keys: the previous algorithm's run and the reweighting step must not share a key.  split(key, n)[i] == fold_in(key, i) (partitionable threefry) and trace
    # sites use fold_in(key, i): handing `key` to prev.run_* and then splitting the same `key` gives the new target's site i the key the old target's site i used
    # (a latent the new target adds is drawn EQUAL to an old one; the evidence estimate is biased)
    for meth, runner in (("run_smc", "run_smc"), ("run_csmc", "run_csmc"), ("run_csmc_for_normalizing_constant", "run_csmc")):
        evk = Evaluator(prog)
        rk = evk.eval_fn(CT.methods[meth], CT.module, CT)
        full = ("tuple", tuple([rk.ret] + list(rk.env.get("__effects__", []))))
        prev_runs = [x for x in mcalls(full, runner) if x[1][1] == ("attr", SELF, "prev")]
        splits_n = [x for x in subterms(full) if is_call(x, "split") and len(x[2]) == 2]
        okk = len(prev_runs) >= 1 and len(splits_n) >= 1
        derk = "prev run / split not found"
        if okk:
            k_prev = prev_runs[0][2][0]
            k_par = splits_n[0][2][0]
            derk = f"prev.{runner} receives {show(k_prev)[:60]}; the reweighting keys are split from {show(k_par)[:60]}"
            okk = k_prev != k_par and not mentions(k_par, k_prev) and not mentions(k_prev, k_par)
        chk.require(bool(okk), "KEY-LINEAR", f"ChangeTarget.{meth}/keys", "key shared by the previous algorithm's run and the reweighting step", derived=derk,
                    expected="key, sub_key = split(key): sub_key to self.prev.run_*, the reweighting keys split from key", where=f"{CT.module.rel}:{CT.methods[meth].lineno}")
    ev = Evaluator(prog)
    r = ev.eval_fn(CT.methods["run_csmc_for_normalizing_constant"], CT.module, CT)
    t = r.ret
    coll_ = ("call", ("attr", ("attr", SELF, "prev"), "run_csmc"), (mk_proj(("call", G("jax.random.split"), (P("key"),), ()), 1), P("latent_choices")), ())
    # collection.get_particle(-1), or the collection's own indexing collection[-1][0] (ParticleCollection.__getitem__ maps v -> v[idx] over (particles, weights):
    # judged for estimate_logpdf above)
    okr = mentions(t, ("call", ("attr", coll_, "get_particle"), (C(-1),), ())) or mentions(t, mk_proj(mk_proj(coll_, -1), 0))
    if not okr:
        # the last slot named from the front: index K - 1 with K the particle count of the algorithm whose run_csmc made the collection (SMCAlgorithm's contract:
        # A.run_csmc returns A.get_num_particles() particles; ChangeTarget.get_num_particles forwards to prev - judged by inlining)
        K_ = ("call", ("attr", ("attr", SELF, "prev"), "get_num_particles"), (), ())
        last_ = ("bin", "-", K_, C(1))
        okr = mentions(t, ("call", ("attr", coll_, "get_particle"), (last_,), ())) or mentions(t, mk_proj(("index", coll_, last_), 0))
    chk.require(okr, "RETAINED-SCORE", "ChangeTarget.run_csmc_for_normalizing_constant", "the retained particle is the LAST one", derived=show(t)[:200], expected="particle_collection.get_particle(-1) / log_weights[-1] (run_csmc stacks the retained particle last)", where=f"{CT.module.rel}:{CT.methods['run_csmc_for_normalizing_constant'].lineno}")
    # ---------------------------------------------------------------- SMCAlgorithm
    SA = prog.cls("SMCAlgorithm", SMC)
    for meth, runner in (("random_weighted", "run_smc"), ("estimate_logpdf", "run_csmc")):
        ev = Evaluator(prog)
        fn = SA.methods[meth]
        where = f"{SA.module.rel}:{fn.lineno}"
        r = ev.eval_fn(fn, SA.module, SA)
        dens = mk_proj(r.ret, 0) if meth == "random_weighted" else r.ret
        form = lin(dens)
        runs = [c for c in mcalls(dens, runner)]
        ok = len(runs) == 1 and is_t(runs[0][1][1], "ctor") and runs[0][1][1][1] == "ChangeTarget" and runs[0][1][1][2] == (SELF, mk_proj(P("args"), 0))
        coll = runs[0] if runs else None
        lml = ("call", ("attr", coll, "get_log_marginal_likelihood_estimate"), (), ()) if coll else None
        sc = [m for m, c in form.items() if c == 1]
        ok = ok and len(form) == 2 and form.get(frozenset([lml])) == -1 and len(sc) == 1 and is_mcall(next(iter(sc[0])), "get_score")
        chk.require(ok, "WEIGHT-INF", f"SMCAlgorithm.{meth}", "density estimate = particle score - log marginal likelihood estimate", derived=show_lin(form)[:300], expected="+particle.get_score() - collection.get_log_marginal_likelihood_estimate() with collection from ChangeTarget(self, target)." + runner, where=where)
        if ok:
            particle = next(iter(sc[0]))[1][1]
            if meth == "random_weighted":
                okp = is_mcall(particle, "sample_particle") and particle[1][1] == coll and particle[2][0] != coll[2][0]
                chk.require(okp, "WEIGHT-INF", "SMCAlgorithm.random_weighted/particle", "a particle resampled in proportion to its weight (with a key different from run_smc's)", derived=show(particle)[:200], expected="collection.sample_particle(sub_key)", where=where)
                chm = mk_proj(r.ret, 1)
                okc = chm == ("call", ("attr", mk_proj(P("args"), 0), "filter_to_unconstrained"), (("call", ("attr", particle, "get_choices"), (), ()),), ())
                chk.require(okc, "POLARITY", "SMCAlgorithm.random_weighted/choices", "returns only the unconstrained choices of that particle", derived=show(chm)[:200], expected="target.filter_to_unconstrained(particle.get_choices())", where=where)
            else:
                okp = is_mcall(particle, "get_particle") and particle[1][1] == coll and particle[2] == (C(-1),)
                PC = prog.cls("ParticleCollection", SMC)
                if not okp and particle == mk_proj(mk_proj(coll, -1), 0) and "__getitem__" in PC.methods:
                    # collection[-1][0]: the collection's own indexing, when it is (get_particle(idx), weight)
                    gi_, gp_ = PC.methods["__getitem__"], PC.methods.get("get_particle")
                    rgi = Evaluator(prog).eval_fn(gi_, PC.module, PC)
                    rgp = Evaluator(prog).eval_fn(gp_, PC.module, PC) if gp_ is not None else None
                    t1, t2 = rgi.ret, (rgp.ret if rgp is not None else None)
                    # __getitem__ maps `v -> v[idx]` over (particles, log_weights); component 0 is that map over the particles = get_particle(idx)
                    if is_t(t1, "treemap") and len(t1[2]) == 1 and is_t(t1[2][0], "tuple") and len(t1[2][0][1]) == 2 and is_t(t2, "treemap") and len(t2[2]) == 1 and t1[2][0][1][0] == t2[2][0] \
                            and len(gi_.args.args) == 2 and len(gp_.args.args) == 2:
                        okp = subst(subst(t1[1], ("leaf", t1[2][0]), ("leaf", t2[2][0])), P(gi_.args.args[1].arg), P(gp_.args.args[1].arg)) == t2[1]
                chk.require(okp, "RETAINED-SCORE", "SMCAlgorithm.estimate_logpdf", "sample_particle", derived=f"scores {show(particle)[:160]} - a freshly resampled particle, not the one constrained to v",
                            expected="the retained particle collection.get_particle(-1) (the slot run_csmc constrains to v)", where=where)
                chk.require(coll[2][1] == P("v"), "WEIGHT-INF", "SMCAlgorithm.estimate_logpdf/retained", "v is the retained particle", derived=show(coll)[:160], expected="run_csmc(key, v)", where=where)
    ev = Evaluator(prog)
    PC = prog.cls("ParticleCollection", SMC)
    r = ev.eval_fn(PC.methods["get_log_marginal_likelihood_estimate"], PC.module, PC)
    LW = ("attr", SELF, "log_weights")
    form = lin(r.ret)
    okl = len(form) == 2 and form.get(frozenset([("call", G("jax.scipy.special.logsumexp"), (LW,), ())])) == 1 and form.get(frozenset([("call", G("jax.numpy.log"), (("call", G("len"), (LW,), ()),), ())])) == -1
    chk.require(okl, "WEIGHT-INF", "ParticleCollection.get_log_marginal_likelihood_estimate", "log mean weight", derived=show_lin(form)[:200], expected="logsumexp(log_weights) - log(N)", where=f"{PC.module.rel}:{PC.methods['get_log_marginal_likelihood_estimate'].lineno}")
    r = ev.eval_fn(PC.methods["sample_particle"], PC.module, PC)
    t = r.ret
    oks = is_t(t, "treemap") or is_mcall(t, "get_particle")
    logits = [x for x in subterms(t) if is_t(x, "bin") and x[1] == "-" and is_call(x[3], "logsumexp")]
    chk.require(oks and len(logits) >= 1 and any(is_mcall(x, "random_weighted") or is_call(x, "random_weighted") for x in subterms(t)), "WEIGHT-INF", "ParticleCollection.sample_particle", "index drawn from the normalised weights", derived=show(t)[:200], expected="categorical(logits = w - logsumexp(w))", where=f"{PC.module.rel}:{PC.methods['sample_particle'].lineno}")
    m, sf = prog.func("stack_to_first_dim", SMC)
    rs = Evaluator(prog).eval_fn(sf, m)
    cat = [x for x in subterms(rs.ret) if is_call(x, "concatenate")]
    okc = len(cat) == 1 and is_t(cat[0][2][0], "list") and len(cat[0][2][0][1]) == 2 and mentions(cat[0][2][0][1][0], P("arr1")) and mentions(cat[0][2][0][1][1], P("arr2")) and not mentions(cat[0][2][0][1][0], P("arr2"))
    # shape discipline: the batch keeps its leaf shape and the retained leaf gains exactly ONE leading axis - nothing is flattened (reshape(-1, 1)) or squeezed:
    # with a vector-valued leaf (the logits argument of a categorical) the old reshape / squeeze hack raised in concatenate, and with K = 1 the squeeze
    # turned the (1,) batch into a scalar (vmap over it raised): estimate_logpdf failed for ImportanceK(k = 1) and for every target with a vector leaf
    shape_ops = [x for x in subterms(rs.ret) if is_call(x, "squeeze", "reshape", "ravel", "flatten", "atleast_1d", "atleast_2d") or (is_mcall(x, "reshape") or is_mcall(x, "squeeze") or is_mcall(x, "ravel"))]
    second = cat[0][2][0][1][1] if okc else None
    one_axis = second is not None and ((is_t(second, "index") and second[2] in (C(None), ("global", "jax.numpy.newaxis"))) or (is_call(second, "expand_dims") and (second[2][1:] == (C(0),) or dict(second[3]).get("axis") == C(0))))
    first_raw = okc and not any(is_call(x, "reshape", "squeeze") or is_mcall(x, "reshape") for x in subterms(cat[0][2][0][1][0]))
    chk.require(bool(okc and one_axis and first_raw and not shape_ops and dict(cat[0][3]).get("axis", C(0)) == C(0)), "RETAINED-SCORE", "stack_to_first_dim/shape", "the retained leaf is appended as one more row of the batch",
                derived=show(rs.ret)[:220], expected="concatenate([batch, leaf[None]], axis=0): leaf shapes untouched (no reshape(-1, 1) / squeeze)", where=f"{m.rel}:{sf.lineno}")
    chk.require(okc, "RETAINED-SCORE", "stack_to_first_dim", "second argument (the retained particle) goes last", derived=show(cat[0])[:200] if cat else "none", expected="concatenate([arr1, arr2], axis=0)", where=f"{m.rel}:{sf.lineno}")
    # ---------------------------------------------------------------- Target
    T = prog.cls("Target", SP)
    ev = Evaluator(prog)
    r = ev.eval_fn(T.methods["filter_to_unconstrained"], T.module, T)
    want = ("call", ("attr", P("choice_map"), "filter"), (("un", "~", ("call", ("attr", ("attr", SELF, "constraint"), "get_selection"), (), ())),), ())
    chk.require(r.ret == want, "POLARITY", "Target.filter_to_unconstrained", "complement of the constraint's selection", derived=show(r.ret), expected=show(want), where=f"{T.module.rel}:{T.methods['filter_to_unconstrained'].lineno}")
    r = ev.eval_fn(T.methods["importance"], T.module, T)
    merged = ("call", ("attr", ("attr", SELF, "constraint"), "merge"), (P("constraint"),), ())
    exp = ("call", ("attr", ("attr", SELF, "p"), "importance"), (P("key"), merged, ("attr", SELF, "args")), ())
    chk.require(r.ret == exp, "CHM-LEFTBIAS", "Target.importance", "observations dominate the merge: particles satisfy the target's constraints", derived=show(r.ret)[:200], expected=show(exp), where=f"{T.module.rel}:{T.methods['importance'].lineno}")
    sig_variadic(chk, prog, [("Distribution", "distributions/distribution.py"), ("Algorithm", SP), ("SMCAlgorithm", SMC)])
    # a Marginal used as a proposal contributes its random_weighted weight to every particle weight (C25's obligations on Marginal.random_weighted)
    from ._share import take
    take(chk, prog, "C25", lambda o: o["instance"].startswith("Marginal.random_weighted") and "returned-weight" not in o["instance"], "Marginal.random_weighted obligations (from C25)", 4)
    chk.explanation = "linear forms of all particle log-weights, pairing of constraints with proposal densities, retained-particle convention, selection polarity"
