"""C09 - the incremental interpreter computes the same values with sound change tags.

Decided: INTERP-SKELETON for eval_jaxpr_incremental against the canonical loop (every equation's outvars are written with the result of binding THAT equation's
primitive to the primals of values read from THAT equation's invars with ITS params; single results wrapped; outputs read after the loop);
INTERP-CONSTS (constvars written Diff.no_change(consts); un-tagged values - literals - wrapped NoChange; invars written Diff.tree_diff(primals, tangents): TAG-PAIRING);
TAG-PROPAGATE (default rule: NoChange iff ALL inputs NoChange, test computed before the primals are stripped, both arms tag all outputs);
run_interpreter flattens primals and tangents of the same call in the same order; Environment read / write rules.
Lemma: each jaxpr equation's outputs are functions of its inputs only, so "NoChange iff all inputs NoChange" per equation gives, by induction over the equation
list, that a NoChange output depends only on NoChange inputs - for every jaxpr, including control-flow primitives, which the default rule binds whole.
Not decided: JAX's own bind / staging.
"""
from ..interp import check_loop
from ..rules import is_call, is_mcall, mentions
from ..terms import C, Evaluator, G, P, is_t, mk_elem, mk_proj, show, subterms
from .C08 import propagate
from .C36 import environment, staging_rules

INC = "core/compiler/interpreters/incremental.py"
DIFFG = G("genjax._src.core.compiler.interpreters.incremental.Diff")


def run(chk, prog):
    ev = Evaluator(prog)
    ev.opaque_funcs.add("default_propagation_rule")
    II = prog.cls("IncrementalInterpreter", INC)
    fn = II.methods["eval_jaxpr_incremental"]
    where = f"{II.module.rel}:{fn.lineno}"
    r = ev.eval_fn(fn, II.module, II)
    H = P("stateful_handler")
    dc = lambda n, *a: ("call", ("attr", DIFFG, n), tuple(a), ())
    def guard(conds, prim):
        for t, p in conds:
            if p and (t == ("call", ("attr", H, "handles"), (prim,), ()) or (is_t(t, "bool") and t[1] == "and" and ("call", ("attr", H, "handles"), (prim,), ()) in t[2])):
                return True
        return False
    def out_wrap(el, body):
        """a function returning a Python / 0-d constant has Literal outvars, which Environment.read returns raw: every output must leave as a Diff"""
        exp = "[v if isinstance(v, Diff) else Diff(v, NoChange) for v in safe_map(env.read, jaxpr.outvars)] - Literal outputs tagged NoChange, tagged outputs untouched"
        if body is None:
            return False, exp
        noc = [x for x in subterms(body) if is_t(x, "global") and x[1].endswith("NoChange")]
        if not noc:
            return False, exp
        wrapped = ("ctor", "Diff", (el, noc[0]), ())
        test = ("isinst", el, "Diff")
        return body == ("phi", test, el, wrapped), exp
    sk = check_loop(chk, "eval_jaxpr_incremental", r, where, const_wrap=lambda t: t == dc("no_change", P("consts")), invar_value=lambda t: t == dc("tree_diff", P("primals"), P("tangents")), dispatch_ok=guard, out_wrap=out_wrap)
    # literals / un-tagged values wrapped NoChange before use
    if sk:
        # (one comprehension over eqn.invars whose element is the value READ from the environment - fused or over the mapped read, the same term)
        fams = [x for x in subterms(sk["outvals"]) if is_t(x, "fam") and x[1] == ("attr", ("elem", ("attr", P("jaxpr"), "eqns")), "invars")]
        okl = False
        der = "no wrapping comprehension found"
        for f in fams:
            reads_ = [y for y in subterms(f[2]) if is_mcall(y, "read") and y[2] == (("elem", f[1]),)]
            if not reads_:
                continue
            el = reads_[0]
            NOC = [x for x in subterms(f[2]) if is_t(x, "global") and x[1].endswith("NoChange")]
            want = ("phi", ("isinst", el, "Diff"), el, ("ctor", "Diff", (el, NOC[0] if NOC else None), ()))
            der = show(f[2])[:200]
            if f[2] == want:
                okl = True
        chk.require(okl, "INTERP-CONSTS", "eval_jaxpr_incremental/literals", "values without a tag (literals) are wrapped NoChange, tagged values pass through", derived=der, expected="Diff(v, NoChange) if not isinstance(v, Diff) else v", where=where)
        rules = [leaf for conds, leaf in sk["leaves"] if is_call(leaf, "default_propagation_rule")]
        chk.require(len(rules) == 1, "TAG-PROPAGATE", "eval_jaxpr_incremental/default-rule", "unhandled primitives go through default_propagation_rule", derived=f"{len(rules)} default-rule call(s)", expected="one", where=where)
    # run_interpreter
    ev2 = Evaluator(prog)
    ev2.opaque_methods.add("eval_jaxpr_incremental")
    fn2 = II.methods["run_interpreter"]
    r2 = ev2.eval_fn(fn2, II.module, II)
    cs = [x for x in subterms(r2.ret) if is_mcall(x, "eval_jaxpr_incremental")]
    ok = len(cs) == 1
    if ok:
        c = cs[0]
        st = [x for x in subterms(c) if is_t(x, "call") and is_call(x[1], "stage")]
        ok = len(st) >= 1
        if ok:
            s0 = st[0]
            cj = mk_proj(s0, 0)
            ft = c[2][4] if len(c[2]) == 5 else None
            ok = c[2][:4] == (P("_stateful_handler"), ("attr", cj, "jaxpr"), ("attr", cj, "literals"), mk_proj(mk_proj(s0, 1), 0)) and s0[2] == (("star", P("primals")),) \
                and is_call(ft, "tree_leaves") and ft[2][0] == P("tangents")
    chk.require(ok, "TAG-PAIRING", "IncrementalInterpreter.run_interpreter", "flat primals of the staged call paired with the flat tangents of the same argument tuple", derived=show(cs[0])[:300] if cs else "none",
                expected="eval_jaxpr_incremental(handler, jaxpr, literals, flat_primals (from stage(*primals)), tree_leaves(tangents))", where=f"{II.module.rel}:{fn2.lineno}")
    m, inc = prog.func("incremental", INC)
    w = prog.nested(inc, "wrapped")
    rw = Evaluator(prog).eval_fn(w, m, env0={"f": P("f")})
    okw = is_mcall(rw.ret, "run_interpreter") and rw.ret[2] == (P("_stateful_handler"), P("f"), P("primals"), P("tangents"))
    chk.require(okw, "TAG-PAIRING", "incremental.wrapped", "(handler, f, primals, tangents) in order", derived=show(rw.ret)[:160], expected="interpreter.run_interpreter(handler, f, primals, tangents)", where=f"{m.rel}:{inc.lineno}")
    propagate(chk, prog)
    environment(chk, prog)
    staging_rules(chk, prog)
    # Diff constructors used above
    D = prog.cls("Diff", INC)
    evd = Evaluator(prog)
    for meth, tang in (("no_change", "NoChange"), ("unknown_change", "UnknownChange")):
        from ._diff import constant_tagging
        okd, txt_ = constant_tagging(prog, meth, tang)
        chk.require(okd, "TAG-PROPAGATE", f"Diff.{meth}", f"every leaf tagged {tang}; primal preserved", derived=txt_, expected=f"tree_diff(tree_primal(tree), tree_map(lambda _: {tang}, primal))", where=f"{D.module.rel}:{D.methods[meth].lineno}")
    rr = evd.eval_fn(D.methods["tree_diff"], D.module, D)
    t = rr.ret
    okt = is_t(t, "treemap") and t[2] == (P("tree"), P("tangent_tree")) and t[1] == ("ctor", "Diff", (("leaf", P("tree")), ("leaf", P("tangent_tree"))), ())
    chk.require(okt, "TAG-PAIRING", "Diff.tree_diff", "leafwise Diff(primal, tangent)", derived=show(t)[:200], expected="tree_map(Diff, tree, tangent_tree)", where=f"{D.module.rel}:{D.methods['tree_diff'].lineno}")
    # every equation is re-bound under the configuration context it was traced in (jax.core.eval_jaxpr does `with eqn.ctx.manager:`): primitives such as
    # random_split / random_bits choose their algorithm from the ambient config at BIND time, so a function traced inside `with jax.threefry_partitionable(..)`
    # and interpreted outside it returns other keys / bits than ordinary evaluation
    import ast as _ast
    _ci = prog.cls("IncrementalInterpreter", "interpreters/incremental.py")
    _fn = _ci.methods["eval_jaxpr_incremental"]
    _loops = [n for n in _ast.walk(_fn) if isinstance(n, _ast.For)]
    from ..interp import bind_context_ok
    _okctx, _ctxtxt = bind_context_ok(prog, _ci, _fn)
    # no equation is skipped: an unhandled equation with unused results may still have EFFECTS (io_callback, writes into a mutable array) that later outputs see
    _skips = [f"{type(n).__name__.lower()} at line {n.lineno}" for _lp in _loops for n in _ast.walk(_lp) if isinstance(n, (_ast.Continue, _ast.Break))]
    chk.require(not _skips, "INTERP-SKELETON", _fn.name + "/no-skip", "equations skipped by the interpreter loop", derived=str(_skips) if _skips else "no continue / break in the loop", expected="every equation is dispatched or bound", where=chk.where(_ci.module, _fn))
    chk.require(_okctx, "INTERP-SKELETON", "eval_jaxpr_incremental/bind-context", "configuration context of the re-bound equations", derived=_ctxtxt,
                expected="with eqn.ctx.manager: <dispatch or bind>", where=chk.where(_ci.module, _fn))
    chk.explanation = "loop skeleton of the incremental interpreter by dataflow, NoChange wrapping of constants/literals, the propagation rule, pairing of primal and tangent trees"
