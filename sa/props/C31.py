"""C31 - the time-travel debugger records and replays executions faithfully.

Decided: BOUNDS at the five TimeTravelingDebugger constructor sites (fwd's new pointer is dominated by ptr+1 < len, bwd's by 0 <= ptr-1 < len - by finite
evaluation; jump reads an index written as len(sequence)-1 right after the append; _record starts at 0 with the `_enter` frame always present; remix keeps ptr with
a frame inserted at ptr); frames are appended in the order continuations are resumed and final_retval is the last resumed value; RecordPoint.handle records
(callable, args, local return value, continuation) in FrameRecording's field order; INTERP-SKELETON / CPS-CONT for the CPS loop (the continuation resumes with
eqns[idx+1:], on a COPIED environment, binding this equation's outvars, with rebind=True).  Not decided: "remix equals re-running" (behavioural).
"""
import ast

from ..finite import Unrecognised, ev_int
from ..interp import check_loop, env_read_over, safe_maps
from ..linform import lin
from ..program import AnalysisError
from ..rules import is_call, is_mcall, mentions
from ..terms import C, Evaluator, G, P, is_t, mk_elem, mk_proj, mk_slice, show, subterms

MOD = "core/compiler/interpreters/time_travel.py"
SELF = P("self")
SEQ, PTR, JP, FR = ("attr", SELF, "sequence"), ("attr", SELF, "ptr"), ("attr", SELF, "jump_points"), ("attr", SELF, "final_retval")
LEN = ("call", G("len"), (SEQ,), ())


def run(chk, prog):
    D = prog.cls("TimeTravelingDebugger", MOD)
    W = lambda m: f"{D.module.rel}:{D.methods[m].lineno}"
    ev = Evaluator(prog)
    chk.require(D.fields == ["final_retval", "sequence", "jump_points", "ptr"], "BOUNDS", "TimeTravelingDebugger/fields", "field order", derived=str(D.fields), expected="final_retval, sequence, jump_points, ptr", where=f"{D.module.rel}:{D.node.lineno}")
    n_sites = 0
    for meth, delta in (("fwd", 1), ("bwd", -1)):
        r = ev.eval_fn(D.methods[meth], D.module, D)
        ok, why, rows = True, "", 0
        try:
            for n in range(1, 5):
                for p in range(0, n):
                    env = {LEN: n, PTR: p}
                    fired = None
                    for conds, ret in r.returns:
                        if all(bool(ev_int(t, env)) == pol for t, pol in conds):
                            fired = ret
                            break
                    rows += 1
                    if fired is None:
                        ok, why = False, f"no arm for len={n} ptr={p}"
                    elif fired == SELF:
                        if 0 <= p + delta < n:
                            ok, why = False, f"len={n} ptr={p}: stays although {p + delta} is a valid frame"
                    elif is_t(fired, "ctor") and fired[1] == "TimeTravelingDebugger":
                        newp = ev_int(fired[2][3], env)
                        if not (0 <= newp < n) or newp != p + delta or fired[2][:3] != (FR, SEQ, JP):
                            ok, why = False, f"len={n} ptr={p}: new ptr {newp}"
                    else:
                        ok, why = False, f"unexpected result {show(fired)[:60]}"
        except Unrecognised as e:
            raise AnalysisError(f"TimeTravelingDebugger.{meth}: {e}")
        n_sites += 1
        chk.require(ok, "BOUNDS", f"TimeTravelingDebugger.{meth}", f"{meth} stays within the recorded frames", derived=f"{rows} (len, ptr) rows {why}", expected=f"ptr{delta:+d} when 0 <= ptr{delta:+d} < len(sequence), otherwise unchanged", where=W(meth))
    r = ev.eval_fn(D.methods["jump"], D.module, D)
    okj = r.ret == ("ctor", "TimeTravelingDebugger", (FR, SEQ, JP, ("index", JP, P("debug_tag"))), ())
    n_sites += 1
    chk.require(okj, "BOUNDS", "TimeTravelingDebugger.jump", "pointer read from the jump table", derived=show(r.ret)[:200], expected="ptr = self.jump_points[debug_tag]", where=W("jump"))
    r = ev.eval_fn(D.methods["frame"], D.module, D)
    chk.require(mk_proj(r.ret, 1) == ("index", SEQ, PTR), "BOUNDS", "TimeTravelingDebugger.frame", "current frame", derived=show(mk_proj(r.ret, 1)), expected="self.sequence[self.ptr]", where=W("frame"))
    # remix
    evr = Evaluator(prog)
    evr.opaque_funcs.add("_record")
    r = evr.eval_fn(D.methods["remix"], D.module, D)
    t = r.ret
    n_sites += 1
    frame = ("index", SEQ, PTR)
    f_, cont = ("attr", frame, "f"), ("attr", frame, "cont")
    rec = [x for x in subterms(t) if is_t(x, "call") and is_call(x[1], "_record")]
    okr = is_t(t, "ctor") and t[1] == "TimeTravelingDebugger" and len(rec) >= 1
    if okr:
        rc = rec[0]
        dbg = mk_proj(rc, 1)
        newf = ("ctor", "FrameRecording", (f_, P("args"), ("call", f_, (("star", P("args")),), ()), cont), ())
        okr = rc[1][2] == (cont,) and rc[2] == (("star", P("args")),) and t[2][0] == ("attr", dbg, "final_retval") and t[2][3] == PTR and t[2][2] == JP \
            and t[2][1] == ("list", (("star", ("index", SEQ, ("sliceobj", C(None), PTR, C(None)))), newf, ("star", ("attr", dbg, "sequence"))))
    chk.require(okr, "BOUNDS", "TimeTravelingDebugger.remix", "frames before ptr kept, the recomputed frame at ptr, then the re-recorded continuation", derived=show(t)[:300],
                expected="[*sequence[:ptr], FrameRecording(f, args, f(*args), cont), *_record(cont)(*args).sequence], ptr unchanged, final_retval of the re-run", where=W("remix"))
    # _record: frames appended in resume order; jump index written right after the append; starts at 0
    m, rf = prog.func("_record", MOD)
    inner = prog.nested(rf, "inner")
    wh = [n for n in ast.walk(inner) if isinstance(n, ast.While)]
    if len(wh) != 1:
        raise AnalysisError(f"_record.inner: expected one driver loop, found {len(wh)}")
    # two spellings of the driver loop are recognised (anything else is an unrecognised form, exit 2 - not a verdict):
    #   A  r, nxt = resume(source, args); while nxt: <unpack, append, tag> ; r, nxt = resume(frame.cont, frame.args)
    #   B  fn, a = source, args; while True: r, nxt = resume(fn, a); if not nxt: break; <unpack, tag, append>; fn, a = frame.cont, frame.args
    body = list(wh[0].body)
    loopvar = wh[0].test.id if isinstance(wh[0].test, ast.Name) else None
    if loopvar is None and isinstance(wh[0].test, ast.Constant) and wh[0].test.value is True:
        for st in body:
            if isinstance(st, ast.If) and isinstance(st.test, ast.UnaryOp) and isinstance(st.test.op, ast.Not) and isinstance(st.test.operand, ast.Name) and len(st.body) == 1 and isinstance(st.body[0], ast.Break) and not st.orelse:
                loopvar = st.test.operand.id
                body = [x for x in body if x is not st]
    if loopvar is None:
        raise AnalysisError("_record.inner: unrecognised driver loop form (neither `while <next>:` nor `while True: ... if not <next>: break`)")
    # the recorded pair read by field name: `rec = <next>` (a two-field NamedTuple of this module), then rec.<field0> / rec.<field1>  ==  (tag, frame) = <next>
    nts = [c for c in ast.walk(m.tree) if isinstance(c, ast.ClassDef) and any(ast.unparse(b).split(".")[-1] == "NamedTuple" for b in c.bases)]
    pairs = [[x.target.id for x in c.body if isinstance(x, ast.AnnAssign) and isinstance(x.target, ast.Name)] for c in nts]
    for i, st in enumerate(body):
        tgt = st.target if isinstance(st, ast.AnnAssign) else (st.targets[0] if isinstance(st, ast.Assign) and len(st.targets) == 1 else None)
        if isinstance(tgt, ast.Name) and isinstance(getattr(st, "value", None), ast.Name) and st.value.id == loopvar:
            rec_ = tgt.id
            used = {n.attr for x in body for n in ast.walk(x) if isinstance(n, ast.Attribute) and isinstance(n.value, ast.Name) and n.value.id == rec_}
            bare = [n for x in body if x is not st for n in ast.walk(x) if isinstance(n, ast.Name) and n.id == rec_]
            attr_bases = [n.value for x in body for n in ast.walk(x) if isinstance(n, ast.Attribute) and isinstance(n.value, ast.Name) and n.value.id == rec_]
            flds = next((f for f in pairs if len(f) == 2 and used <= set(f)), None)
            if flds is not None and len(bare) == len(attr_bases):
                import copy

                class _R(ast.NodeTransformer):
                    def visit_Attribute(self, n):
                        if isinstance(n.value, ast.Name) and n.value.id == rec_ and n.attr in flds:
                            return ast.copy_location(ast.Name(id=f"{rec_}__{n.attr}", ctx=n.ctx), n)
                        return self.generic_visit(n)
                unpack = ast.parse(f"({rec_}__{flds[0]}, {rec_}__{flds[1]}) = {loopvar}").body[0]
                body = [ast.fix_missing_locations(_R().visit(copy.deepcopy(x))) if x is not st else ast.copy_location(unpack, st) for x in body]
                for x in body:
                    ast.fix_missing_locations(x)
            break
    der = " ; ".join(ast.unparse(s) for s in body)[:300]
    roles, pos = {}, {}
    is_resume = lambda v: isinstance(v, ast.Call) and isinstance(v.func, ast.Call) and ast.unparse(v.func.func) == "time_travel" and len(v.func.args) == 1 and len(v.args) == 1 and isinstance(v.args[0], ast.Starred)
    for i, st in enumerate(body):
        if isinstance(st, ast.Assign) and isinstance(st.value, ast.Name) and st.value.id == loopvar and isinstance(st.targets[0], ast.Tuple) and len(st.targets[0].elts) == 2:
            roles["tag"], roles["frame"] = (e.id for e in st.targets[0].elts)
            pos["unpack"] = i
    for i, st in enumerate(body):
        for n in ast.walk(st):
            if isinstance(n, ast.Call) and isinstance(n.func, ast.Attribute) and n.func.attr == "append" and len(n.args) == 1 and isinstance(n.args[0], ast.Name) and n.args[0].id == roles.get("frame"):
                roles["seq"] = ast.unparse(n.func.value)
                pos["append"] = i
            if isinstance(n, ast.Assign) and isinstance(n.targets[0], ast.Subscript) and isinstance(n.targets[0].slice, ast.Name) and n.targets[0].slice.id == roles.get("tag"):
                roles["table"] = ast.unparse(n.targets[0].value)
                roles["index"] = ast.unparse(n.value).replace(" ", "")
                pos["jump"] = i
        if isinstance(st, ast.Assign) and isinstance(st.targets[0], ast.Tuple) and len(st.targets[0].elts) == 2 and isinstance(st.targets[0].elts[1], ast.Name) and st.targets[0].elts[1].id == loopvar and is_resume(st.value):
            roles["resume"] = st.value
            roles["retval"] = ast.unparse(st.targets[0].elts[0])
            pos["resume"] = i
    if "unpack" not in pos or "resume" not in pos:
        # the recorded (tag, frame) pair is not taken apart by tuple unpacking / the resume call is not a direct time_travel(..)(..) call: a spelling of the
        # driver loop this rule cannot read (e.g. a NamedTuple read by attribute) - no verdict
        raise AnalysisError("_record.inner: unrecognised driver loop form (no `(tag, frame) = <next>` unpacking or no direct resume call)")
    okw = all(k in pos for k in ("unpack", "append", "jump", "resume")) and pos["unpack"] < pos["append"] and pos["unpack"] < pos["jump"]
    if okw:
        # the tag maps to the index of the frame recorded in this iteration: len(seq) - 1 once it is appended, len(seq) just before
        okw = roles.get("index") == (f"len({roles['seq']})-1" if pos["jump"] > pos["append"] else f"len({roles['seq']})")
    if okw:
        rs = roles["resume"]
        c, a_ = ast.unparse(rs.func.args[0]), ast.unparse(rs.args[0].value)
        fr = roles["frame"]

        def pairs(stmts):
            env_ = {}
            for st in stmts:
                if isinstance(st, ast.Assign) and isinstance(st.targets[0], ast.Tuple) and isinstance(st.value, ast.Tuple):
                    for tgt, v in zip(st.targets[0].elts, st.value.elts):
                        env_[ast.unparse(tgt)] = ast.unparse(v)
                elif isinstance(st, ast.Assign) and isinstance(st.targets[0], ast.Name):
                    env_[st.targets[0].id] = ast.unparse(st.value)
            return env_
        if pos["resume"] > pos["unpack"]:
            # form A: resumed at the end of the iteration from the frame just recorded; the first resume precedes the loop
            env_ = pairs(body[: pos["resume"]])
            okw = env_.get(c, c) == f"{fr}.cont" and env_.get(a_, a_) == f"{fr}.args"
            first = [n.value for n in inner.body if isinstance(n, ast.Assign) and is_resume(n.value)]
            okw = okw and len(first) == 1 and ast.unparse(first[0].func.args[0]) == "source" and ast.unparse(first[0].args[0].value) == "args"
        else:
            # form B: resumed at the top from loop-carried (continuation, arguments), initialised with (source, args) and re-bound from this frame after recording
            env_loop = pairs(body[pos["unpack"]:])
            pre = inner.body[: inner.body.index(wh[0])] if wh[0] in inner.body else []
            env_pre = pairs(pre)
            okw = env_loop.get(c) == f"{fr}.cont" and env_loop.get(a_) == f"{fr}.args" and env_pre.get(c) == "source" and env_pre.get(a_) == "args"
    chk.require(okw, "FRAME-ORDER", "_record.inner/loop", "one frame per resumed continuation, in resume order; the tag index is the frame just appended", derived=der,
                expected="while next: (tag, frame) = next; sequence.append(frame); if tag: jump_points[tag] = len(sequence) - 1; retval, next = time_travel(frame.cont)(*frame.args)", where=f"{m.rel}:{inner.lineno}")
    rets = [n for n in ast.walk(inner) if isinstance(n, ast.Return)]
    if len(rets) == 1 and isinstance(rets[0].value, ast.Name):
        # `result = (...); return result`: look through a temporary assigned exactly once
        asg = [n for n in ast.walk(inner) if isinstance(n, ast.Assign) and len(n.targets) == 1 and isinstance(n.targets[0], ast.Name) and n.targets[0].id == rets[0].value.id]
        if len(asg) == 1:
            rets = [ast.Return(value=asg[0].value)]
    okz = False
    if len(rets) == 1 and isinstance(rets[0].value, ast.Tuple) and len(rets[0].value.elts) == 2 and isinstance(rets[0].value.elts[1], ast.Call) and roles:
        c = rets[0].value.elts[1]
        # positional and keyword arguments alike, in the class's field order
        flds_ = prog.cls("TimeTravelingDebugger", MOD).fields
        byname = {flds_[i]: ast.unparse(x) for i, x in enumerate(c.args) if i < len(flds_)}
        byname.update({k.arg: ast.unparse(k.value) for k in c.keywords if k.arg})
        a_ = [byname.get(f_) for f_ in flds_[:4]]
        okz = ast.unparse(c.func) == "TimeTravelingDebugger" and a_ == [roles.get("retval"), roles.get("seq"), roles.get("table"), "0"] and ast.unparse(rets[0].value.elts[0]) == roles.get("retval")
    n_sites += 1
    chk.require(okz, "BOUNDS", "_record.inner/result", "final_retval is the last resumed value; pointer starts at frame 0", derived=ast.unparse(rets[0].value)[:120] if rets else "none", expected="retval, TimeTravelingDebugger(retval, sequence, jump_points, 0)", where=f"{m.rel}:{inner.lineno}")
    chk.floor("TimeTravelingDebugger constructor sites judged", n_sites, 5)
    # time_machine: an `_enter` frame always exists (so ptr 0 is valid) and the result is tagged
    m, tm = prog.func("time_machine", MOD)
    ins = prog.nested(tm, "instrumented")
    evt = Evaluator(prog)
    evt.opaque_funcs |= {"tag", "rec", "_record"}
    ri = evt.eval_fn(ins, m, env0={"source": P("source")})
    t = ri.ret
    oki = is_call(t, "tag") and t[2][1] == C("exit") and is_t(t[2][0], "call") and is_call(t[2][0][1], "rec") and t[2][0][1][2] == (P("source"), C("_enter")) and t[2][0][2] == (("star", P("args")),)
    chk.require(oki, "BOUNDS", "time_machine.instrumented", "the whole call is recorded as the first frame", derived=show(t)[:160], expected='tag(rec(source, "_enter")(*args), "exit")', where=f"{m.rel}:{tm.lineno}")
    # RecordPoint.handle
    RP = prog.cls("RecordPoint", MOD)
    evh = Evaluator(prog)
    rh = evh.eval_fn(RP.methods["handle"], RP.module, RP)
    t = rh.ret
    CALL = ("attr", SELF, "callable")
    okh = is_t(t, "tuple") and len(t[1]) == 2 and is_t(t[1][1], "tuple") and t[1][1][1][0] == ("attr", SELF, "debug_tag")
    if okh:
        fr = t[1][1][1][1]
        okh = is_t(fr, "ctor") and fr[1] == "FrameRecording" and fr[2][0] == CALL and fr[2][1] == P("args") and fr[2][2] == ("call", CALL, (("star", P("args")),), ())
        if okh:
            k = fr[2][3]
            kr = evh.apply(k, [("star", P("$a"))], module=RP.module, cls=RP) if evh.closure_of(k) else None
            okh = kr == mk_proj(("call", P("cont"), (("call", CALL, (("star", P("$a")),), ()),), ()), 0) and t[1][0] == mk_proj(("call", P("cont"), (("call", CALL, (("star", P("args")),), ()),), ()), 0)
    FRc = prog.cls("FrameRecording", MOD)
    chk.require(okh and FRc.fields == ["f", "args", "local_retval", "cont"], "FRAME-ORDER", "RecordPoint.handle", "frame = (callable, args, local return value, continuation)", derived=show(t)[:300],
                expected="(cont(callable(*args))[0], (debug_tag, FrameRecording(callable, args, callable(*args), _cont)))", where=f"{RP.module.rel}:{RP.methods['handle'].lineno}")
    # CPS loop
    CI = prog.cls("TimeTravelCPSInterpreter", MOD)
    outer = CI.methods["eval_jaxpr_time_travel"]
    evc = Evaluator(prog)
    rc_ = evc.eval_fn(outer, CI.module, CI)
    where = f"{CI.module.rel}:{outer.lineno}"
    sk = check_loop(chk, "eval_jaxpr_iterate_cps", rc_, where, const_wrap=lambda t: t == P("consts"), invar_value=lambda t: t == P("flat_args"), final_read=False)
    # continuation structure
    loop = prog.nested(outer, "eval_jaxpr_iterate_cps")
    evk = Evaluator(prog)
    # parameters of the loop whose default is a sibling local function (a strategy passed along instead of a flag) are evaluated at that default: the first visit
    env0_ = {"jaxpr": P("jaxpr"), "out_tree": P("out_tree")}
    sib = {n.name: n for n in ast.walk(outer) if isinstance(n, ast.FunctionDef) and n not in (outer, loop)}
    pos_ = loop.args.args
    strategy = {}
    for a_, d_ in list(zip(pos_[len(pos_) - len(loop.args.defaults):], loop.args.defaults)) + [(a_, d_) for a_, d_ in zip(loop.args.kwonlyargs, loop.args.kw_defaults) if d_ is not None]:
        if isinstance(d_, ast.Name) and d_.id in sib:
            strategy[a_.arg] = sib[d_.id]
    bind_ = {}
    if strategy:
        evk.eval_fn(outer, CI.module, CI)  # builds the closures of the sibling functions in the outer environment
        for nm_, node_ in sib.items():
            cl_ = [("closure", k) for k, c in evk.closures.items() if c.node is node_]
            if cl_:
                env0_[nm_] = cl_[0]
        for pn_, node_ in strategy.items():
            if node_.name in env0_:
                bind_[pn_] = env0_[node_.name]
    rk = evk.eval_fn(loop, CI.module, CI, env0=env0_, bind=bind_)
    LN = loop.name
    # the continuation is found by its role: the closure handed to cps_prim.handle(<kont>, ...)
    konts = [x[2][0] for x in subterms(rk.ret) if is_mcall(x, "handle") and x[2] and evk.closure_of(x[2][0]) is not None]
    konts = list(dict.fromkeys(konts))
    okk = len(konts) >= 1
    der = "no continuation closure"
    if okk:
        evk.closures[konts[0][1]].env[LN] = ("global", "$loop")
        kr = evk.apply(konts[0], [("star", P("$a"))], module=CI.module, cls=CI)
        der = show(kr)[:300]
        EQ = P("eqns")
        el = mk_elem(("enumerate", EQ))
        rebinds_ = dict(kr[3]).get("rebind") == C(True) if is_t(kr, "call") else False
        if strategy and is_t(kr, "call"):
            # (strategy protocol: the recursion hands over a function other than the first-visit default; what it does is judged under /record below)
            rebinds_ = any(k_ in strategy and evk.closure_of(v_) is not None and evk.closure_of(v_).node is not strategy[k_] for k_, v_ in kr[3])
        okk = is_t(kr, "call") and kr[1] == ("global", "$loop") and len(kr[2]) == 4 and rebinds_
        if okk:
            a0, a1, a2, a3 = kr[2]
            # "resume at the equation after this one", in either protocol of the recursive loop: it receives the remaining equations (eqns[idx + 1:]) or an
            # absolute start position into the jaxpr's equations (start + position + 1)
            first = P(loop.args.args[0].arg)
            suffix_ = lambda: is_t(a0, "index") and a0[1] == EQ and a0[2] == ("sliceobj", ("bin", "+", ("enumidx", EQ), C(1)), C(None), C(None)) and a2 == ("attr", ("elem", EQ), "outvars")
            def absolute_():
                rest = [x for x in subterms(a2) if is_t(x, "elem") and is_t(x[1], "index") and x[1][2] == ("sliceobj", first, C(None), C(None))]
                if not rest or a2 != ("attr", rest[0], "outvars"):
                    return False
                return lin(a0) == {frozenset([first]): 1, frozenset([("enumidx", rest[0][1])]): 1, frozenset(): 1}
            okk = (suffix_() or absolute_()) and is_mcall(a1, "copy") and a1[1][1] == P("env") and is_call(a3, "tree_leaves")
    chk.require(okk, "CPS-CONT", "eval_jaxpr_iterate_cps._kont", "the continuation resumes after this equation on a copied environment", derived=der,
                expected="eval_jaxpr_iterate_cps(eqns[eqn_idx + 1:], env.copy(), eqn.outvars, tree_leaves(args), rebind=True)", where=where)
    arms = [(c, t) for c, t in rk.returns]
    handle = [t for c, t in arms if is_mcall(t, "handle")]
    reb = [t for c, t in arms if is_t(t, "call") and (evk.closure_of(t[1]) is not None or is_call(t, LN)) and dict(t[3]).get("rebind", C(True)) == C(True)]
    if strategy and okk:
        # strategy protocol: the continuation recurses with a function that re-binds the record point and runs on: s(cps, kont, args) = kont(cps(*args))
        passed = [v for k_, v in kr[3] if k_ in strategy and evk.closure_of(v) is not None] if is_t(kr, "call") else []
        reb = []
        for v in passed:
            t_ = evk.apply(v, [P("$cps"), P("$k"), P("$args")], module=CI.module, cls=CI)
            if t_ == ("call", P("$k"), (("call", P("$cps"), (("star", P("$args")),), ()),), ()):
                reb.append(t_)
    okh2 = len(handle) == 1 and handle[0][2][0] in konts and len(reb) >= 1
    chk.require(okh2, "CPS-CONT", "eval_jaxpr_iterate_cps/record", "first visit records through handle(kont, *args); re-bound visits just continue", derived=f"{len(handle)} handle arm(s), {len(reb)} rebind arm(s)", expected="cps_prim.handle(_kont, *args) / _kont(cps_prim(*args))", where=where)
    from ..interp import reader_consts_ok
    okrc, where_t = reader_consts_ok(("tuple", tuple(t for c, t in arms)))
    chk.require(bool(okrc), "ISP-CONSTS", "eval_jaxpr_iterate_cps/operands", "record-point operands: drop the PREPENDED constants", derived=show(where_t)[:240] if where_t else "no tree_unflatten(in_tree, ...) found",
                expected="tree_unflatten(params['in_tree'], args[params['num_consts']:])", where=where)
    final = [t for c, t in arms if is_t(t, "tuple") and len(t[1]) == 2 and t[1][1] == C(None)]
    okf = len(final) == 1 and is_call(final[0][1][0], "tree_unflatten") and env_read_over(final[0][1][0][2][1]) == ("attr", P("jaxpr"), "outvars")
    chk.require(okf, "INTERP-SKELETON", "eval_jaxpr_iterate_cps/outputs", "final value read from jaxpr.outvars; no further frame", derived=show(final[0])[:200] if final else "none", expected="(tree_unflatten(out_tree(), safe_map(env.read, jaxpr.outvars)), None)", where=where)
    ttf = CI.methods["time_travel"]
    inn = prog.nested(ttf, "_inner")
    evi = Evaluator(prog)
    evi.opaque_methods.add("eval_jaxpr_time_travel")
    ri_ = evi.eval_fn(inn, CI.module, CI, env0={"f": P("f")})
    t_ = ri_.ret
    st_ = ("call", ("call", G("genjax._src.core.compiler.staging.stage"), (P("f"),), ()), (("star", P("args")),), ())
    cj_ = mk_proj(st_, 0)
    oki_ = is_call(t_, "eval_jaxpr_time_travel") and t_[2] == (("attr", cj_, "jaxpr"), ("attr", cj_, "literals"), mk_proj(mk_proj(st_, 1), 0), mk_proj(mk_proj(st_, 1), 2))
    chk.require(oki_, "INTERP-SKELETON", "time_travel._inner", "stage, then interpret the staged jaxpr with its literals, the flat arguments and out_tree", derived=show(t_)[:240], expected="eval_jaxpr_time_travel(jaxpr, literals, flat_args, out_tree)", where=f"{CI.module.rel}:{inn.lineno}")
    chk.explanation = "pointer bounds of the debugger by finite evaluation, frame recording order, continuation structure of the CPS interpreter"
