"""C23 - GFI results are invariant under jax.jit and consistent under jax.vmap.

Decided: the *concreteness-branch inventory* - every function that branches on whether a flag / index is a concrete Python value or a traced array
(`is True/False`, isinstance(_, bool), isinstance(idx, int), literal match arms, FlagOp.concrete_*, static_check_is_concrete) - and for each site that its
concrete arm and its traced arm denote the same function (FLAG-TABLE / MASK-TABLE / CHOOSE-WRAP / IDX-NORMALISE), or that the traced arm raises.  This is
precisely the eager-vs-jit divergence mechanism the property names.  PYTREE-DICT-KEYS: every dict-typed *dynamic* field of a Pytree dataclass (it is flattened,
hence key-sorted, by every jit / vmap / scan) has a totally ordered key type.
Not decided: agreement of JAX eager vs jit numerics; batching rules of primitives.
"""
import ast

from ..finite import Unrecognised, ev_int
from ..gfi import distribution, switch
from ..gfi.common import Obs
from ..program import AnalysisError
from ..rules import Arms, is_call, is_mcall
from ..terms import C, Evaluator, G, P, is_t, show, mk_cmp, mk_phi
from . import C19, C20

# site -> which rule family judges that its concrete and traced arms agree
JUDGED = {
    "FlagOp.and_": "FLAG-TABLE", "FlagOp.or_": "FLAG-TABLE", "FlagOp.xor_": "FLAG-TABLE", "FlagOp.not_": "FLAG-TABLE", "FlagOp.where": "FLAG-TABLE", "FlagOp.cond": "FLAG-TABLE",
    "FlagOp.concrete_true": "FLAG-TABLE", "FlagOp.concrete_false": "FLAG-TABLE", "FlagOp.is_scalar": "shape-query (no value divergence)",
    "Mask.flatten": "MASK-TABLE", "Mask.__or__": "MASK-TABLE", "Mask.__xor__": "MASK-TABLE",
    "tree_choose.inner": "CHOOSE-WRAP", "tree_choose": "CHOOSE-WRAP",
    "Choice.build": "CHM-CONCRETE", "Switch.build": "CHM-CONCRETE", "Switch.clamp_idx": "IDX-NORMALISE",
    "Distribution.edit_regenerate": "CONCRETE-ELSE-RAISES",
    "staged_check": "helper (returns the concrete value or False)", "Pytree.const": "static metadata only", "Pytree.tree_const": "static metadata only", "Pytree.tree_const._inner": "static metadata only",
}


def concreteness_sites(prog):
    out = {}
    for rel, m in prog.modules.items():
        stack = []

        def visit(node, qual):
            for ch in ast.iter_child_nodes(node):
                q = qual
                if isinstance(ch, (ast.FunctionDef, ast.ClassDef)):
                    q = (qual + "." if qual else "") + ch.name
                hit = None
                if isinstance(ch, ast.Compare) and any(isinstance(o, (ast.Is, ast.IsNot)) for o in ch.ops) and any(isinstance(c, ast.Constant) and isinstance(c.value, bool) for c in ch.comparators):
                    hit = "is True/False"
                elif isinstance(ch, ast.Call) and isinstance(ch.func, ast.Name) and ch.func.id == "isinstance" and len(ch.args) == 2:
                    t = ast.unparse(ch.args[1])
                    a0 = ast.unparse(ch.args[0])
                    if t == "bool" or (t == "int" and "idx" in a0):
                        hit = f"isinstance({a0}, {t})"
                elif isinstance(ch, ast.Call) and ast.unparse(ch.func).split(".")[-1] in ("concrete_true", "concrete_false", "static_check_is_concrete"):
                    hit = ast.unparse(ch.func).split(".")[-1]
                elif isinstance(ch, ast.match_case):
                    for p in ast.walk(ch.pattern):
                        if isinstance(p, ast.MatchSingleton) and isinstance(p.value, bool):
                            hit = "case True/False"
                if hit and qual:
                    out.setdefault((rel, qual), []).append((hit, getattr(ch, "lineno", 0)))
                visit(ch, q)
        visit(m.tree, "")
    return out


def key_kinds(prog, m, node, depth=0):
    """set of primitive key kinds of a dict key annotation (through module-level aliases)"""
    if depth > 6:
        return {"?"}
    if isinstance(node, ast.Name):
        if node.id in ("str", "int", "float", "bool"):
            return {node.id}
        for mod in [m] + list(prog.modules.values()):
            if node.id in mod.assigns:
                return key_kinds(prog, mod, mod.assigns[node.id], depth + 1)
        return {"?"}
    if isinstance(node, ast.Subscript):
        b = ast.unparse(node.value)
        if b in ("tuple", "Tuple"):
            return {"tuple"}
        return {"?"}
    if isinstance(node, ast.BinOp) and isinstance(node.op, ast.BitOr):
        return key_kinds(prog, m, node.left, depth + 1) | key_kinds(prog, m, node.right, depth + 1)
    if isinstance(node, ast.Constant) and isinstance(node.value, str):
        try:
            return key_kinds(prog, m, ast.parse(node.value, mode="eval").body, depth + 1)
        except SyntaxError:
            return {"?"}
    return {"?"}


def dict_annotation(prog, m, ann, depth=0):
    """the key annotation node if ann denotes dict[K, V] (possibly through an alias)"""
    if depth > 4:
        return None
    if isinstance(ann, ast.Subscript) and ast.unparse(ann.value) in ("dict", "Dict") and isinstance(ann.slice, ast.Tuple):
        return ann.slice.elts[0]
    if isinstance(ann, ast.Name):
        for mod in [m] + list(prog.modules.values()):
            if ann.id in mod.assigns:
                return dict_annotation(prog, mod, mod.assigns[ann.id], depth + 1)
    return None


def run(chk, prog):
    # ---------------------------------------------------------------- inventory
    sites = concreteness_sites(prog)
    names = {}
    for (rel, qual), hits in sites.items():
        short = ".".join(qual.split(".")[-2:]) if qual.count(".") else qual
        names[(rel, qual)] = short
    unreviewed = []
    for (rel, qual), hits in sorted(sites.items()):
        short = names[(rel, qual)]
        rule = JUDGED.get(short) or JUDGED.get(qual)
        if rule is None:
            unreviewed.append(f"{rel}:{qual} ({hits[0][0]})")
        else:
            chk.ok("CONCRETE-INVENTORY", f"{short}", f"{hits[0][0]} at {rel}:{hits[0][1]} judged by {rule}")
    chk.floor("functions with concreteness branches", len(sites), 13)
    chk.extra["unreviewed_concreteness_sites"] = unreviewed
    for u in unreviewed:
        chk.note("unreviewed concreteness branch (not judged, not alarmed): " + u)
    chk.sample({"concreteness_sites": sorted(f"{r}:{q}" for r, q in sites)[:30]})
    # ---------------------------------------------------------------- the tables
    C19.run(chk, prog)          # Mask.flatten / __or__ / __xor__ + FlagOp tables
    C20.choose_wrap(chk, prog)  # tree_choose int shortcut vs mode="wrap"
    # multi_switch: the placeholder structure of every branch comes from ABSTRACT evaluation (to_shape_fn / eval_shape), while the branch functions handed to
    # lax.switch run on whatever they captured.  If they capture the caller's arguments from the enclosing scope, a concrete Python bool / int among those
    # arguments takes the callee's concreteness shortcuts (Mask.flatten, FlagOp) inside the branch but not in the placeholder: eagerly the pytrees differ
    # (TypeError from lax.switch), under jit they agree.  The arguments must reach the branches as operands (abstract on both sides).
    import ast as _ast
    ms_mod, ms_fn = prog.func("multi_switch", "core/compiler/staging.py")
    captured = []
    for inner in [n for n in _ast.walk(ms_fn) if isinstance(n, _ast.FunctionDef) and n is not ms_fn]:
        for sub in [n for n in _ast.walk(inner) if isinstance(n, _ast.FunctionDef) and n is not inner]:
            params = {a.arg for a in sub.args.args} | ({sub.args.vararg.arg} if sub.args.vararg else set())
            outer = {a.arg for a in inner.args.args}
            for c_ in [n for n in _ast.walk(sub) if isinstance(n, _ast.Call)]:
                for a_ in c_.args:
                    nm = a_.value if isinstance(a_, _ast.Starred) else a_
                    if isinstance(nm, _ast.Name) and nm.id in outer and nm.id not in params:
                        captured.append(f"{sub.name}: {_ast.unparse(c_)[:40]} captures `{nm.id}` of {inner.name}")
    uses_abstract = any(isinstance(n, _ast.Call) and _ast.unparse(n.func).split(".")[-1] in ("to_shape_fn", "eval_shape") for n in _ast.walk(ms_fn))
    chk.require(not (captured and uses_abstract), "MSWITCH-OPERANDS", "multi_switch/branch-arguments", "branch arguments captured by closure",
                derived=f"placeholders from abstract evaluation, but {captured[:2]}", expected="the argument tuples are passed to lax.switch as operands, so placeholders and branches see the same (abstract) values", where=f"{ms_mod.rel}:{ms_fn.lineno}")
    obs = Obs()
    distribution.analyse(obs, prog)
    switch.analyse(obs, prog)
    for o in obs.items:
        # incl. the masked-constraint arms: a concrete False flag collapses to the unconstrained arm (Choice.build), a traced False flag takes the
        # masked arm's false branch - both must give (old value, logpdf(old | NEW args) - old score, logpdf(old | NEW args))
        if o["rule"] in ("CONCRETE-ELSE-RAISES", "IDX-NORMALISE") or "C23" in o["props"]:
            chk.require(o["ok"], o["rule"], o["instance"], o["construct"], derived=o["derived"], expected=o["expected"], where=o["where"])
    # Choice.build: concrete False -> empty, concrete True -> unwrapped value, traced -> Choice(mask)
    CM = "core/generative/choice_map.py"
    ev = Evaluator(prog)
    ch = prog.cls("Choice", CM)
    r = ev.eval_fn(ch.methods["build"], ch.module, ch)
    got = Arms()
    V = P("v")
    PF = ("call", ("attr", V, "primal_flag"), (), ())
    # what build returns for a Mask whose flag is False / True / a traced array - decided on the whole result, wherever the tests sit
    from ..rules import resolve_all
    for kind_ in ("F", "T", "traced"):
        def atom_(c, kind_=kind_):
            if is_t(c, "isinst") and c[1] == V:
                return c[2] == "Mask" or "Mask" in c[2].split("|")
            if is_t(c, "is") and c[1] == PF and c[2] in (C(True), C(False)):
                return kind_ != "traced" and (kind_ == "T") == c[2][1]
            if is_t(c, "cmp") and c[1] == "==" and c[2] == PF and c[3] in (C(True), C(False)):
                return kind_ != "traced" and (kind_ == "T") == c[3][1]
            return None
        got[kind_] = resolve_all(r.ret, atom_)
    okc = is_call(got.get("F"), "empty") and got.get("T") == ("ctor", "Choice", (("attr", V, "value"),), ()) and got.get("traced") == ("ctor", "Choice", (V,), ())
    chk.require(okc, "CHM-CONCRETE", "Choice.build", "masked value with a concrete flag", derived={k: show(v) for k, v in got.items()}.__str__(),
                expected="False -> empty map; True -> Choice(value); traced -> Choice(mask) (same observable content in all three)", where=f"{ch.module.rel}:{ch.methods['build'].lineno}")
    sw = prog.cls("Switch", CM)
    r = ev.eval_fn(sw.methods["build"], sw.module, sw)
    got = Arms()
    for conds, ret in r.returns:
        got["int" if any(is_t(t, "isinst") and t[2] == "int" and p for t, p in conds) else "traced"] = ret
    IDX, IT = P("idx"), P("chm_iter")
    gi, gt = got.get("int"), got.get("traced")
    oki = is_t(gi, "index") and gi[2] == IDX and is_call(gi[1], "list") and gi[1][2] == (IT,)
    okt = is_t(gt, "ctor") and gt[1] == "Switch" and gt[2][0] == IDX and is_t(gt[2][1], "fam") and gt[2][1][1] == ("enumerate", IT) \
        and gt[2][1][2] == ("call", ("attr", ("elem", IT), "mask"), (mk_cmp("==", ("enumidx", IT), IDX),), ())
    chk.require(oki and okt, "CHM-CONCRETE", "Switch.build", "concrete int index vs traced index", derived={k: show(v)[:120] for k, v in got.items()}.__str__(),
                expected="int: the idx-th map; traced: every map masked by (position == idx) - the same single visible map", where=f"{sw.module.rel}:{sw.methods['build'].lineno}")
    # ---------------------------------------------------------------- PYTREE-DICT-KEYS
    n_fields = 0
    for cs in prog.class_index.values():
        for ci in cs:
            if not any("dataclass" in d for d in ci.decorators):
                continue
            if not prog.is_subclass(ci, "Pytree"):
                continue
            for s in ci.node.body:
                if isinstance(s, ast.AnnAssign) and isinstance(s.target, ast.Name) and s.target.id not in ci.static_fields:
                    k = dict_annotation(prog, ci.module, s.annotation)
                    if k is None:
                        continue
                    n_fields += 1
                    kinds = key_kinds(prog, ci.module, k)
                    ordered = len(kinds - {"?"}) <= 1 or kinds <= {"int", "float", "bool"}
                    chk.require(ordered, "PYTREE-DICT-KEYS", f"{ci.name}.{s.target.id}", f"{ci.name}.{s.target.id}",
                                derived=f"dynamic pytree field `{s.target.id}: {ast.unparse(s.annotation)}` has key kinds {sorted(kinds)}: jax sorts dict keys when flattening, and str < tuple raises, so a model with both address kinds works eagerly but fails under jit/vmap/scan",
                                expected="a totally ordered key type (or every write site normalises the key)", where=f"{ci.module.rel}:{s.lineno}")
    chk.floor("dict-typed dynamic pytree fields", n_fields, 4)
    chk.explanation = "inventory of concrete-vs-traced branches with per-site table agreement, plus ordering of dict keys in dynamic pytree fields"
