"""C35 - masked constraint values act as conditional constraints.

Decided: the two Mask arms of generate / update in Distribution (arm polarity decided by dependence: the arm bound to flag=True uses the constraint value and its
log density, the other arm samples / keeps the old value with weight 0 / re-scored), the backward constraint old_choices.mask(flag); ExactDensity.assess unwraps a
masked value; Choice.build's concrete-flag table (False -> empty, True -> unwrapped, traced -> kept); Indexed.get_inner_map propagates the index match as a mask
(scalar and array addresses); Choice.filter(flag) masks the value; ChoiceMap.mask(flag) == filter(flag); every container class's filter / get_inner_map
pushes the flag / lookup into every child (CHM-RECURSE, shared with C17).
Not decided: elementwise behaviour of vectorised masks inside JAX (vmap of the above).
"""
from ..gfi import distribution, vmap
from ..gfi.common import run_for
from ..rules import Arms, is_call, is_mcall, mentions
from ..terms import C, Evaluator, G, P, is_t, mk_proj, show, subterms, mk_cmp, mk_phi

CM = "core/generative/choice_map.py"
SELF = P("self")


def is_mask_build(t, v=None, f=None):
    ok = is_call(t, "build") and is_t(t[1], "attr") and is_t(t[1][1], "global") and t[1][1][1].split(".")[-1] == "Mask" and len(t[2]) == 2
    return ok and (v is None or t[2][0] == v) and (f is None or t[2][1] == f)


def chm_mask_rules(chk, prog):
    ev = Evaluator(prog)
    ch = prog.cls("Choice", CM)
    W = lambda c, m: f"{c.module.rel}:{c.methods[m].lineno}"
    r = ev.eval_fn(ch.methods["build"], ch.module, ch)
    V = P("v")
    PF = ("call", ("attr", V, "primal_flag"), (), ())
    got = Arms()
    # what build returns for a Mask whose flag is False / True / a traced array - decided on the whole result, wherever the tests sit
    from ..rules import resolve_all
    for kind_ in ("F", "T", "traced"):
        def atom_(c, kind_=kind_):
            if is_t(c, "isinst") and c[1] == V:
                return c[2] == "Mask" or "Mask" in c[2].split("|")
            if is_t(c, "is") and c[1] == PF and c[2] in (C(True), C(False)):
                return kind_ != "traced" and (kind_ == "T") == c[2][1]
            if is_t(c, "cmp") and c[1] == "==" and c[2] == PF and c[3] in (C(True), C(False)):
                return kind_ != "traced" and (kind_ == "T") == c[3][1]
            return None
        got[kind_] = resolve_all(r.ret, atom_)
    okc = is_call(got.get("F"), "empty") and got.get("T") == ("ctor", "Choice", (("attr", V, "value"),), ()) and got.get("traced") == ("ctor", "Choice", (V,), ())
    chk.require(okc, "CHM-CONCRETE", "Choice.build", "masked value with a concrete flag", derived={k: show(v) for k, v in got.items()}.__str__(), expected="False -> empty map; True -> Choice(value); traced -> Choice(mask)", where=W(ch, "build"))
    r = ev.eval_fn(ch.methods["filter"], ch.module, ch)
    got = Arms()
    for conds, ret in r.returns:
        pos = [t for t, p in conds if p]
        if any(is_t(t, "isinst") and t[2] == "Selection" for t in pos):
            got["sel-" + ("T" if any(is_mcall(t, "check") for t in pos) else "F")] = ret
        else:
            got["flag"] = ret
    okf = is_call(got.get("flag"), "build") and is_mask_build(got["flag"][2][0], ("attr", SELF, "v"), P("selection")) and got.get("sel-T") == SELF and is_call(got.get("sel-F"), "empty")
    chk.require(okf, "CHM-MASK", "Choice.filter", "flag -> masked value; selection -> keep iff selected", derived={k: show(v)[:80] for k, v in got.items()}.__str__(), expected="Choice.build(Mask.build(self.v, flag)); self if selection.check() else empty", where=W(ch, "filter"))
    cm = prog.cls("ChoiceMap", CM)
    r = ev.eval_fn(cm.methods["mask"], cm.module, cm)
    chk.require(r.ret == ("call", ("attr", SELF, "filter"), (P("flag"),), ()), "CHM-MASK", "ChoiceMap.mask", "mask(flag) == filter(flag)", derived=show(r.ret), expected="self.filter(flag)", where=W(cm, "mask"))
    ix = prog.cls("Indexed", CM)
    r = ev.eval_fn(ix.methods["get_inner_map"], ix.module, ix)
    ADDR, SA, SC = P("addr"), ("attr", SELF, "addr"), ("attr", SELF, "c")
    eq = mk_cmp("==", SA, ADDR)
    scal = [ret for conds, ret in r.returns if is_mcall(ret, "mask")]
    arr = [ret for conds, ret in r.returns if is_t(ret, "treemap")]
    oks = len(scal) == 1 and scal[0] == ("call", ("attr", SC, "mask"), (eq,), ())
    chk.require(oks, "CHM-INDEX", "Indexed.get_inner_map/scalar", "scalar index: inner map masked by (self.addr == addr)", derived=show(scal[0]) if scal else "none", expected="self.c.mask(self.addr == addr)", where=W(ix, "get_inner_map"))
    oka = len(arr) == 1 and arr[0][2] == (SC,) and is_mask_build(arr[0][1]) and mentions(arr[0][1][2][1], eq) and is_t(arr[0][1][2][0], "index") and arr[0][1][2][0][1] == ("leaf", SC)
    if oka:
        idx_v, idx_f = arr[0][1][2][0][2], arr[0][1][2][1]
        oka = is_t(idx_f, "index") and idx_f[1] == eq and idx_f[2] == idx_v
    chk.require(oka, "CHM-INDEX", "Indexed.get_inner_map/array", "array index: the matched position's value, masked by whether it matched", derived=show(arr[0])[:200] if arr else "none", expected="tree_map(v -> Mask.build(v[i], check[i]), self.c) with i the position where self.addr == addr", where=W(ix, "get_inner_map"))
    stat = [ret for conds, ret in r.returns if is_call(ret, "empty")]
    chk.require(len(stat) == 1, "CHM-INDEX", "Indexed.get_inner_map/static", "a static component under an index level finds nothing", derived=f"{len(stat)} empty arm(s)", expected="ChoiceMap.empty()", where=W(ix, "get_inner_map"))


def run(chk, prog):
    n, obs = run_for(chk, prog, "C35", [distribution.analyse, vmap.analyse])
    chk.floor("obligations tagged C35", n, 12)
    chm_mask_rules(chk, prog)
    # ChoiceMap.mask(flag) is filter(flag): the flag reaches a Choice leaf only if EVERY container class pushes it into every child (C17's CHM-RECURSE rules
    # for filter / get_inner_map / get_value); a container that skips a child leaves that child's constraints unconditionally enforced.
    from ..report import Check
    from . import C17

    tmp = Check("C17", chk.tier, chk.seed, write_evidence=False)
    tmp.nested = True
    C17.run(tmp, prog)
    viol = {(v["rule"], v["instance"]): v for v in tmp.violations}
    n17 = 0
    for o in tmp.obligations:
        if o["rule"] != "CHM-RECURSE":
            continue
        n17 += 1
        v = viol.get((o["rule"], o["instance"]))
        if v:
            chk.violation(v["rule"], v["instance"], v["construct"], v["derived"], v["expected"], v["where"])
        else:
            chk.ok(o["rule"], o["instance"], o["fact"])
    chk.floor("container recursion obligations (from C17)", n17, 8)
    # a masked constraint merged with an unmasked fallback at the same address (`|`) is resolved by Mask.__or__: its table (C19) decides which value constrains
    from ._share import take
    take(chk, prog, "C19", lambda o: o["instance"].split("/")[0] in ("Mask.__or__", "Mask.build", "Mask.flatten"), "Mask tables used when masked constraints are merged (from C19)", 2)
    chk.explanation = "arm polarity and weights of the masked-constraint arms of generate / update, mask propagation through Choice / Indexed, concrete-flag tables"
