"""C35 placeholder runner (filled below)"""
from ..gfi import distribution
from ..gfi.common import run_for


def run(chk, prog):
    n, obs = run_for(chk, prog, "C35", [distribution.analyse])
