"""C03 - importance weights (WEIGHT-GEN per constructor; base table none/mask/value; IDX-ALIGN, ADDR-ALIGN).

Induction step of the GFI oracle (DESIGN.md Appendix A): obligations tagged C03 emitted by the constructor analyses in sa/gfi/*.
Decided: the structural clauses named above, for every inner program / input / history at once (inner calls are opaque atoms; IH).
Not decided: numeric agreement up to tolerance; behaviour of JAX primitives.
"""
from ..gfi.all import ALL
from ..gfi.common import run_for


def run(chk, prog):
    n, obs = run_for(chk, prog, "C03", ALL)
    chk.floor("obligations tagged C03", n, 50)
    # "any program" includes partially applied closures: the generate path of GenerativeFunctionClosure (stored + given arguments, kwargs) - shared with C32
    from ._share import take
    take(chk, prog, "C32", lambda o: ".generate" in o["instance"] or ".importance" in o["instance"], "closure obligations on the generate path (from C32)", 2)
    chk.explanation = "structural-induction obligations for C03: importance weights (WEIGHT-GEN per constructor; base table none/mask/value; IDX-ALIGN, ADDR-ALIGN); each inner GFI call is an opaque atom (induction hypothesis), the derived provenance terms / linear forms are compared with the oracle table"
    for o in [o for o in obs.items if "C03" in o["props"]][:6]:
        chk.sample({"rule": o["rule"], "instance": o["instance"], "derived": o["derived"][:200], "expected": o["expected"][:160]})
