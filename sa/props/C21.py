"""C21 - Diff and Pytree utilities are structure-preserving.

Decided (sibling pairs and field metadata): tree_primal / tree_tangent both map with is_leaf=Diff.is_diff, a Diff to its component and a non-Diff to itself / NoChange;
no_change / unknown_change differ only in the tangent constant and build through tree_diff(tree_primal(x), ...) (hence idempotent on already tagged trees);
tree_diff is a leafwise Diff(primal, tangent); static_check_no_change is a universal test for _NoChange over the tangent leaves, static_check_tree_diff a universal
test for Diff leaves; Pytree.static marks `pytree_node: False`; Const.val and Closure.fn are static fields, Closure.dyn_args is dynamic, Closure.__call__ prepends
dyn_args; tree_const / tree_const_unwrap are inverse leaf maps with is_leaf on Const.
Not decided: round trips through jit / vmap (JAX / penzai behaviour; declined).
"""
import ast
import itertools

from ..program import AnalysisError

from ..rules import Arms, is_call, is_mcall, mentions
from ..terms import C, Evaluator, G, P, is_t, mk_proj, show, subterms
from .C08 import propagate

INC = "core/compiler/interpreters/incremental.py"
PT = "core/pytree.py"
DIFFG = G("genjax._src.core.compiler.interpreters.incremental.Diff")


def run(chk, prog):
    propagate(chk, prog)  # tree_primal / tree_tangent leaf maps, static_check_no_change, the propagation rule
    D = prog.cls("Diff", INC)
    W = lambda c, m: f"{c.module.rel}:{c.methods[m].lineno}"
    ev = Evaluator(prog)
    from ._diff import constant_tagging, leaf_projection
    for meth in ("tree_primal", "tree_tangent"):
        ok, _L, _body, okleaf, txt = leaf_projection(prog, meth)
        chk.require(ok and okleaf, "DIFF-STRUCT", f"Diff.{meth}/is_leaf", "maps over the tree treating each Diff as one leaf", derived=f"is_leaf=Diff.is_diff: {okleaf}; {txt}", expected="a leafwise map of v with is_leaf=Diff.is_diff", where=W(D, meth))
    for meth, tang in (("no_change", "NoChange"), ("unknown_change", "UnknownChange")):
        okd, txt = constant_tagging(prog, meth, tang)
        chk.require(okd, "DIFF-STRUCT", f"Diff.{meth}", f"primal stripped first (idempotent on tagged trees), every leaf tagged {tang}", derived=txt, expected=f"tree_diff(tree_primal(tree), tree_map(lambda _: {tang}, primal))", where=W(D, meth))
    r = ev.eval_fn(D.methods["tree_diff"], D.module, D)
    t = r.ret
    okt = is_t(t, "treemap") and t[2] == (P("tree"), P("tangent_tree")) and t[1] == ("ctor", "Diff", (("leaf", P("tree")), ("leaf", P("tangent_tree"))), ())
    chk.require(okt, "DIFF-STRUCT", "Diff.tree_diff", "leafwise Diff(primal, tangent) over the primal tree's structure", derived=show(t)[:200], expected="tree_map(lambda p, t: Diff(p, t), tree, tangent_tree)", where=W(D, "tree_diff"))
    r = ev.eval_fn(D.methods["static_check_tree_diff"], D.module, D)
    t = r.ret
    okc = is_call(t, "all") and len(t[2]) == 1 and is_t(t[2][0], "fam") and is_call(t[2][0][1], "tree_leaves") and t[2][0][1][2] == (P("v"),)
    if okc:
        el_, body_ = ("elem", t[2][0][1]), t[2][0][2]
        okc = body_ in (("call", ("attr", DIFFG, "is_diff"), (el_,), ()), ("isinst", el_, "Diff"))
    chk.require(okc, "DIFF-STRUCT", "Diff.static_check_tree_diff", "universal test: every leaf is a Diff", derived=show(t)[:200], expected="all(map(Diff.is_diff, tree_leaves(v, is_leaf=Diff.is_diff)))", where=W(D, "static_check_tree_diff"))
    r = ev.eval_fn(D.methods["is_diff"], D.module, D)
    chk.require(r.ret == ("isinst", P("v"), "Diff"), "DIFF-STRUCT", "Diff.is_diff", "isinstance(v, Diff)", derived=show(r.ret), expected="isinstance(v, Diff)", where=W(D, "is_diff"))
    chk.require(D.fields == ["primal", "tangent"], "DIFF-STRUCT", "Diff/fields", "primal, tangent", derived=str(D.fields), expected="primal, tangent", where=f"{D.module.rel}:{D.node.lineno}")
    for nm in ("_NoChange", "_UnknownChange"):
        ci = prog.cls(nm, INC)
        chk.require(prog.is_subclass(ci, "ChangeTangent") and not ci.fields, "DIFF-STRUCT", nm, "field-less ChangeTangent pytrees (equal by type)", derived=f"bases={ci.bases} fields={ci.fields}", expected="dataclass with no fields deriving ChangeTangent", where=f"{ci.module.rel}:{ci.node.lineno}")
    # ---------------------------------------------------------------- Pytree
    Pc = prog.cls("Pytree", PT)
    r = ev.eval_fn(Pc.methods["static"], Pc.module, Pc)
    t = r.ret
    oks = is_call(t, "field") and dict(t[3]).get("metadata") == ("dict", ((C("pytree_node"), C(False)),)) and dict(t[3]).get("**") == P("kwargs")
    chk.require(oks, "PYTREE-FIELDS", "Pytree.static", "static fields are excluded from the pytree leaves", derived=show(t), expected='field(metadata={"pytree_node": False}, **kwargs)', where=W(Pc, "static"))
    r = ev.eval_fn(Pc.methods["field"], Pc.module, Pc)
    chk.require(is_call(r.ret, "field") and not dict(r.ret[3]).get("metadata"), "PYTREE-FIELDS", "Pytree.field", "dynamic field", derived=show(r.ret), expected="field(**kwargs)", where=W(Pc, "field"))
    r = ev.eval_fn(Pc.methods["dataclass"], Pc.module, Pc)
    okd = is_call(r.ret, "pytree_dataclass") and r.ret[2] == (P("incoming"),)
    chk.require(okd, "PYTREE-FIELDS", "Pytree.dataclass", "penzai pytree dataclass", derived=show(r.ret)[:160], expected="pz.pytree_dataclass(incoming, overwrite_parent_init=True, **kwargs)", where=W(Pc, "dataclass"))
    Cn = prog.cls("Const", PT)
    chk.require(Cn.fields == ["val"] and "val" in Cn.static_fields, "PYTREE-FIELDS", "Const", "val is static", derived=f"fields={Cn.fields} static={sorted(Cn.static_fields)}", expected="val: static", where=f"{Cn.module.rel}:{Cn.node.lineno}")
    Cl = prog.cls("Closure", PT)
    chk.require(Cl.fields == ["dyn_args", "fn"] and Cl.static_fields == {"fn"}, "PYTREE-FIELDS", "Closure", "dyn_args dynamic, fn static", derived=f"fields={Cl.fields} static={sorted(Cl.static_fields)}", expected="dyn_args: dynamic; fn: static", where=f"{Cl.module.rel}:{Cl.node.lineno}")
    r = ev.eval_fn(Cl.methods["__call__"], Cl.module, Cl)
    S = P("self")
    okc = is_t(r.ret, "call") and r.ret[1] == ("attr", S, "fn") and r.ret[2] == (("star", ("attr", S, "dyn_args")), ("star", P("args"))) and dict(r.ret[3]).get("**") == P("kwargs")
    chk.require(okc, "PYTREE-FIELDS", "Closure.__call__", "dyn_args prepended", derived=show(r.ret), expected="self.fn(*self.dyn_args, *args, **kwargs)", where=W(Cl, "__call__"))
    r = ev.eval_fn(Pc.methods["partial"], Pc.module, Pc)
    okp = ev.closure_of(r.ret) is not None
    if okp:
        rr = ev.apply(r.ret, [P("$fn")], module=Pc.module, cls=Pc)
        okp = rr == ("ctor", "Closure", (P("args"), P("$fn")), ())
    chk.require(okp, "PYTREE-FIELDS", "Pytree.partial", "Closure(args, fn)", derived=show(r.ret), expected="lambda fn: Closure(args, fn)", where=W(Pc, "partial"))
    # Const helpers, decided by finite evaluation of the evaluated methods over (is a Const?, is concrete?) - whatever the spelling (nested function,
    # lambda, a shared `_is_const` helper, Const.unwrap used statically, guard clauses)
    from ..rules import Undecided, pick
    Cn = prog.cls("Const", PT) if "Const" in prog.class_index else None

    def const_cases(body, L):
        out = {}
        for is_const, concrete in itertools.product((True, False), repeat=2):
            def atom(c, is_const=is_const, concrete=concrete):
                if is_t(c, "isinst") and c[1] == L and c[2] == "Const":
                    return is_const
                if is_call(c, "static_check_is_concrete") and c[2] == (L,):
                    return concrete
                raise Undecided(show(c))
            leaf = pick(body, atom)
            if is_call(leaf, "unwrap") and leaf[2] == (L,) and Cn is not None and "unwrap" in Cn.methods:
                # Const.unwrap(leaf) used statically: its own body decides
                ru = Evaluator(prog).eval_fn(Cn.methods["unwrap"], Cn.module, Cn, bind={Cn.methods["unwrap"].args.args[0].arg: L})
                leaf = pick(ru.ret, atom)
            out[(is_const, concrete)] = leaf
        return out
    try:
        rc = Evaluator(prog).eval_fn(Pc.methods["const"], Pc.module, Pc)
        cc = const_cases(rc.ret, P("v"))
        okc_ = all(cc[(True, x)] == P("v") and cc[(False, x)] == ("ctor", "Const", (P("v"),), ()) for x in (True, False))
        chk.require(okc_, "PYTREE-FIELDS", "Pytree.const", "the WHOLE value wrapped in one Const (compound constants are not mapped leafwise)",
                    derived={str(k): show(v) for k, v in cc.items()}.__str__()[:300], expected="v if isinstance(v, Const) else Const(v)", where=W(Pc, "const"))
        for meth, spec in (("tree_const", "wrap"), ("tree_const_unwrap", "unwrap")):
            fn = Pc.methods[meth]
            rt = Evaluator(prog).eval_fn(fn, Pc.module, Pc)
            t = rt.ret
            vparam = P(fn.args.args[0].arg)
            ok = is_t(t, "treemap") and t[2] == (vparam,)
            cases = const_cases(t[1], ("leaf", vparam)) if ok else {}
            Lf = ("leaf", vparam)
            if spec == "wrap":
                ok = ok and all(cases[(True, x)] == Lf for x in (True, False)) and cases[(False, True)] == ("ctor", "Const", (Lf,), ()) and cases[(False, False)] == Lf
                exp = "Const -> itself; concrete -> Const(v); traced -> v"
            else:
                ok = ok and all(cases[(True, x)] == ("attr", Lf, "val") and cases[(False, x)] == Lf for x in (True, False))
                exp = "Const -> v.val; else v"
            # is_leaf must stop at Const nodes ONLY: stopping at containers (tuple, list, dict) would wrap / pass a whole container, traced members included, as one leaf
            kws = [k for n in ast.walk(fn) if isinstance(n, ast.Call) and ast.unparse(n.func).endswith("tree_map") for k in n.keywords if k.arg == "is_leaf"]
            okl = False
            if len(kws) == 1:
                lv = Evaluator(prog).eval_fn(ast.Lambda(args=ast.arguments(posonlyargs=[], args=[ast.arg(arg="x__")], kwonlyargs=[], kw_defaults=[], defaults=[]),
                                                        body=ast.Call(func=kws[0].value, args=[ast.Name(id="x__", ctx=ast.Load())], keywords=[])), Pc.module, Pc)
                okl = lv.ret == ("isinst", P("x__"), "Const")
            chk.require(ok and okl, "PYTREE-FIELDS", f"Pytree.{meth}", exp, derived={str(k): show(v) for k, v in cases.items()}.__str__()[:300], expected=exp + " (is_leaf on Const)", where=W(Pc, meth))
    except Undecided as e_:
        raise AnalysisError(f"Pytree const helpers: unrecognised test {e_}")
    chk.explanation = "sibling agreement of the Diff tree helpers and the static/dynamic field metadata of the Pytree utilities"
