"""C21 - Diff and Pytree utilities are structure-preserving.

Decided (sibling pairs and field metadata): tree_primal / tree_tangent both map with is_leaf=Diff.is_diff, a Diff to its component and a non-Diff to itself / NoChange;
no_change / unknown_change differ only in the tangent constant and build through tree_diff(tree_primal(x), ...) (hence idempotent on already tagged trees);
tree_diff is a leafwise Diff(primal, tangent); static_check_no_change is a universal test for _NoChange over the tangent leaves, static_check_tree_diff a universal
test for Diff leaves; Pytree.static marks `pytree_node: False`; Const.val and Closure.fn are static fields, Closure.dyn_args is dynamic, Closure.__call__ prepends
dyn_args; tree_const / tree_const_unwrap are inverse leaf maps with is_leaf on Const.
Not decided: round trips through jit / vmap (JAX / penzai behaviour; declined).
"""
import ast

from ..rules import Arms, is_call, is_mcall, mentions
from ..terms import C, Evaluator, G, P, is_t, mk_proj, show, subterms
from .C08 import propagate

INC = "core/compiler/interpreters/incremental.py"
PT = "core/pytree.py"
DIFFG = G("genjax._src.core.compiler.interpreters.incremental.Diff")


def run(chk, prog):
    propagate(chk, prog)  # tree_primal / tree_tangent leaf maps, static_check_no_change, the propagation rule
    D = prog.cls("Diff", INC)
    W = lambda c, m: f"{c.module.rel}:{c.methods[m].lineno}"
    ev = Evaluator(prog)
    for meth in ("tree_primal", "tree_tangent"):
        r = ev.eval_fn(D.methods[meth], D.module, D)
        t = r.ret
        inner = prog.nested(D.methods[meth], "_inner")
        ok = is_call(t, "tree_map") or is_t(t, "treemap")
        # the evaluator summarises tree_map; is_leaf must be Diff.is_diff so that a Diff is treated as ONE leaf
        src = ast.unparse(D.methods[meth])
        okleaf = "is_leaf=Diff.is_diff" in src.replace(" ", "").replace("is_leaf=Diff.is_diff", "is_leaf=Diff.is_diff")
        kws = [k for n in ast.walk(D.methods[meth]) if isinstance(n, ast.Call) and ast.unparse(n.func).endswith("tree_map") for k in n.keywords if k.arg == "is_leaf"]
        okleaf = len(kws) == 1 and ast.unparse(kws[0].value) == "Diff.is_diff"
        chk.require(ok and okleaf, "DIFF-STRUCT", f"Diff.{meth}/is_leaf", "maps over the tree treating each Diff as one leaf", derived=f"is_leaf={ast.unparse(kws[0].value) if kws else None}", expected="jtu.tree_map(_inner, v, is_leaf=Diff.is_diff)", where=W(D, meth))
    for meth, tang in (("no_change", "NoChange"), ("unknown_change", "UnknownChange")):
        r = ev.eval_fn(D.methods[meth], D.module, D)
        t = r.ret
        okd = is_call(t, "tree_diff") and len(t[2]) == 2 and t[2][0] == ("call", ("attr", DIFFG, "tree_primal"), (P("tree"),), ()) and is_t(t[2][1], "treemap") and t[2][1][2] == (t[2][0],) \
            and is_t(t[2][1][1], "global") and t[2][1][1][1].endswith("." + tang)
        chk.require(okd, "DIFF-STRUCT", f"Diff.{meth}", f"primal stripped first (idempotent on tagged trees), every leaf tagged {tang}", derived=show(t)[:200], expected=f"tree_diff(tree_primal(tree), tree_map(lambda _: {tang}, primal))", where=W(D, meth))
    r = ev.eval_fn(D.methods["tree_diff"], D.module, D)
    t = r.ret
    okt = is_t(t, "treemap") and t[2] == (P("tree"), P("tangent_tree")) and t[1] == ("ctor", "Diff", (("leaf", P("tree")), ("leaf", P("tangent_tree"))), ())
    chk.require(okt, "DIFF-STRUCT", "Diff.tree_diff", "leafwise Diff(primal, tangent) over the primal tree's structure", derived=show(t)[:200], expected="tree_map(lambda p, t: Diff(p, t), tree, tangent_tree)", where=W(D, "tree_diff"))
    r = ev.eval_fn(D.methods["static_check_tree_diff"], D.module, D)
    t = r.ret
    okc = is_call(t, "all") and is_call(t[2][0], "map") and len(t[2][0][2]) == 2 and is_call(t[2][0][2][1], "tree_leaves") and t[2][0][2][1][2] == (P("v"),)
    if okc:
        f = t[2][0][2][0]
        okc = (is_t(f, "attr") and f[2] == "is_diff") or (ev.closure_of(f) is not None)
    chk.require(okc, "DIFF-STRUCT", "Diff.static_check_tree_diff", "universal test: every leaf is a Diff", derived=show(t)[:200], expected="all(map(Diff.is_diff, tree_leaves(v, is_leaf=Diff.is_diff)))", where=W(D, "static_check_tree_diff"))
    r = ev.eval_fn(D.methods["is_diff"], D.module, D)
    chk.require(r.ret == ("isinst", P("v"), "Diff"), "DIFF-STRUCT", "Diff.is_diff", "isinstance(v, Diff)", derived=show(r.ret), expected="isinstance(v, Diff)", where=W(D, "is_diff"))
    chk.require(D.fields == ["primal", "tangent"], "DIFF-STRUCT", "Diff/fields", "primal, tangent", derived=str(D.fields), expected="primal, tangent", where=f"{D.module.rel}:{D.node.lineno}")
    for nm in ("_NoChange", "_UnknownChange"):
        ci = prog.cls(nm, INC)
        chk.require(prog.is_subclass(ci, "ChangeTangent") and not ci.fields, "DIFF-STRUCT", nm, "field-less ChangeTangent pytrees (equal by type)", derived=f"bases={ci.bases} fields={ci.fields}", expected="dataclass with no fields deriving ChangeTangent", where=f"{ci.module.rel}:{ci.node.lineno}")
    # ---------------------------------------------------------------- Pytree
    Pc = prog.cls("Pytree", PT)
    r = ev.eval_fn(Pc.methods["static"], Pc.module, Pc)
    t = r.ret
    oks = is_call(t, "field") and dict(t[3]).get("metadata") == ("dict", ((C("pytree_node"), C(False)),)) and dict(t[3]).get("**") == P("kwargs")
    chk.require(oks, "PYTREE-FIELDS", "Pytree.static", "static fields are excluded from the pytree leaves", derived=show(t), expected='field(metadata={"pytree_node": False}, **kwargs)', where=W(Pc, "static"))
    r = ev.eval_fn(Pc.methods["field"], Pc.module, Pc)
    chk.require(is_call(r.ret, "field") and not dict(r.ret[3]).get("metadata"), "PYTREE-FIELDS", "Pytree.field", "dynamic field", derived=show(r.ret), expected="field(**kwargs)", where=W(Pc, "field"))
    r = ev.eval_fn(Pc.methods["dataclass"], Pc.module, Pc)
    okd = is_call(r.ret, "pytree_dataclass") and r.ret[2] == (P("incoming"),)
    chk.require(okd, "PYTREE-FIELDS", "Pytree.dataclass", "penzai pytree dataclass", derived=show(r.ret)[:160], expected="pz.pytree_dataclass(incoming, overwrite_parent_init=True, **kwargs)", where=W(Pc, "dataclass"))
    Cn = prog.cls("Const", PT)
    chk.require(Cn.fields == ["val"] and "val" in Cn.static_fields, "PYTREE-FIELDS", "Const", "val is static", derived=f"fields={Cn.fields} static={sorted(Cn.static_fields)}", expected="val: static", where=f"{Cn.module.rel}:{Cn.node.lineno}")
    Cl = prog.cls("Closure", PT)
    chk.require(Cl.fields == ["dyn_args", "fn"] and Cl.static_fields == {"fn"}, "PYTREE-FIELDS", "Closure", "dyn_args dynamic, fn static", derived=f"fields={Cl.fields} static={sorted(Cl.static_fields)}", expected="dyn_args: dynamic; fn: static", where=f"{Cl.module.rel}:{Cl.node.lineno}")
    r = ev.eval_fn(Cl.methods["__call__"], Cl.module, Cl)
    S = P("self")
    okc = is_t(r.ret, "call") and r.ret[1] == ("attr", S, "fn") and r.ret[2] == (("star", ("attr", S, "dyn_args")), ("star", P("args"))) and dict(r.ret[3]).get("**") == P("kwargs")
    chk.require(okc, "PYTREE-FIELDS", "Closure.__call__", "dyn_args prepended", derived=show(r.ret), expected="self.fn(*self.dyn_args, *args, **kwargs)", where=W(Cl, "__call__"))
    r = ev.eval_fn(Pc.methods["partial"], Pc.module, Pc)
    okp = ev.closure_of(r.ret) is not None
    if okp:
        rr = ev.apply(r.ret, [P("$fn")], module=Pc.module, cls=Pc)
        okp = rr == ("ctor", "Closure", (P("args"), P("$fn")), ())
    chk.require(okp, "PYTREE-FIELDS", "Pytree.partial", "Closure(args, fn)", derived=show(r.ret), expected="lambda fn: Closure(args, fn)", where=W(Pc, "partial"))
    rc = Evaluator(prog).eval_fn(Pc.methods["const"], Pc.module, Pc)
    got = Arms()
    for conds, ret in rc.returns:
        got["const" if any(is_t(t, "isinst") and t[2] == "Const" and p for t, p in conds) else "other"] = ret
    chk.require(got.get("const") == P("v") and got.get("other") == ("ctor", "Const", (P("v"),), ()), "PYTREE-FIELDS", "Pytree.const", "the WHOLE value wrapped in one Const (compound constants are not mapped leafwise)",
                derived={k: show(v) for k, v in got.items()}.__str__(), expected="v if isinstance(v, Const) else Const(v)", where=W(Pc, "const"))
    for meth, spec in (("tree_const", "wrap"), ("tree_const_unwrap", "unwrap")):
        fn = Pc.methods[meth]
        inner = prog.nested(fn, "_inner")
        ri = Evaluator(prog).eval_fn(inner, Pc.module, Pc)
        got = Arms()
        for conds, ret in ri.returns:
            pos = [t for t, p in conds if p]
            if any(is_t(t, "isinst") and t[2] == "Const" for t in pos):
                got["const"] = ret
            elif any(is_call(t, "static_check_is_concrete") for t in pos):
                got["concrete"] = ret
            else:
                got["other"] = ret
        V = P("v")
        if spec == "wrap":
            ok = got.get("const") == V and got.get("concrete") == ("ctor", "Const", (V,), ()) and got.get("other") == V
            exp = "Const -> itself; concrete -> Const(v); traced -> v"
        else:
            ok = got.get("const") == ("attr", V, "val") and got.get("other") == V
            exp = "Const -> v.val; else v"
        kws = [k for n in ast.walk(fn) if isinstance(n, ast.Call) and ast.unparse(n.func).endswith("tree_map") for k in n.keywords if k.arg == "is_leaf"]
        def _only_const(lam):
            # is_leaf must stop at Const nodes ONLY: stopping at containers (tuple, list, dict) would wrap / pass a whole container, traced members included, as one leaf
            b = lam.body if isinstance(lam, ast.Lambda) else None
            return isinstance(b, ast.Call) and ast.unparse(b.func) == "isinstance" and len(b.args) == 2 and isinstance(b.args[1], ast.Name) and b.args[1].id == "Const"
        okl = len(kws) == 1 and _only_const(kws[0].value)
        chk.require(ok and okl, "PYTREE-FIELDS", f"Pytree.{meth}", exp, derived={k: show(v) for k, v in got.items()}.__str__(), expected=exp + " (is_leaf on Const)", where=W(Pc, meth))
    chk.explanation = "sibling agreement of the Diff tree helpers and the static/dynamic field metadata of the Pytree utilities"
