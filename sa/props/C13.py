"""C13 - switch, or_else and mix follow exactly one branch consistently.

Decided: IDX-NORMALISE (the index helper is a clamp, by finite evaluation), IDX-CONSIST (every consumer of the index inside one method -
multi_switch which executes and clamps, tree_choose which selects and wraps, ChoiceMap.switch which masks by equality - receives the same
clamped index), BRANCH-FAMILY (branches and argument tuples zipped in order), BWD-SELECT, BRANCH-EFFECT, index-change weight, or_else / mix wiring.
Not decided: lax.switch / jnp.choose semantics (trusted; their modes are why the single clamp is required).
"""
from ..gfi.all import ALL
from ..gfi.common import run_for


def run(chk, prog):
    n, obs = run_for(chk, prog, "C13", ALL)
    chk.floor("obligations tagged C13", n, 38)
    # SwitchTrace.get_choices is ChoiceMap.switch(idx, branch maps): the choice-map Switch node (build / filter / lookups) decides which branch's choices are visible
    from ._share import take
    take(chk, prog, "C17", lambda o: o["instance"].split("/")[0] in ("Switch.build", "Switch.filter", "Switch.get_inner_map", "Switch.get_value"), "choice-map Switch obligations (from C17)", 3)
    chk.explanation = "index-consistency, branch-family alignment and effect analysis for Switch / or_else / mix"
    for o in [o for o in obs.items if "C13" in o["props"]][:6]:
        chk.sample({"rule": o["rule"], "instance": o["instance"], "derived": o["derived"][:200], "expected": o["expected"][:160]})
