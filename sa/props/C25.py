"""C25 - Marginal is an unbiased density sampler for the selected choices.

Decided: POLARITY + WEIGHT-INF in Marginal.random_weighted (the returned sample is choices.filter(sel); the returned weight is
the density of *those* choices: project(sel) - even parity of `~` - or score - project(~sel)); sample and weight come from the
same simulated trace; keys are distinct; the algorithm arm builds Target(gen_fn, args, selected choices) and hands the
complementary choices to the algorithm; estimate_logpdf is the importance weight of the sample as constraint;
SIG-VARIADIC for the Distribution hierarchy of sp.py.  Not decided: unbiasedness in general.
"""
from ..linform import lin, show_lin
from ..program import AnalysisError
from ..rules import is_call, is_mcall, mcalls, mentions
from ..terms import Evaluator, P, is_t, mk_proj, show

MOD = "inference/sp.py"
SEL = ("attr", P("self"), "selection")
NSEL = ("un", "~", SEL)
GFN = ("attr", P("self"), "gen_fn")
ALG = ("attr", P("self"), "algorithm")


def leaves(t):
    if is_t(t, "phi"):
        return [(c + [(t[1], True)], x) for c, x in leaves(t[2])] + [(c + [(t[1], False)], x) for c, x in leaves(t[3])]
    return [([], t)]


def vararg_ann(fn):
    import ast

    a = fn.args.vararg
    if a is None:
        return None
    return ast.unparse(a.annotation) if a.annotation is not None else "Any"


def sig_variadic(chk, prog, classes, methods=("random_weighted", "estimate_logpdf")):
    """sibling overrides of one interface method agree on the (runtime-enforced) variadic annotation"""
    for m in methods:
        anns = {}
        for cn, mod in classes:
            ci = prog.cls(cn, mod)
            if m in ci.methods:
                anns[cn] = vararg_ann(ci.methods[m])
        base = anns.get("Distribution", "Any")
        for cn, a in anns.items():
            ci = prog.cls(cn, dict(classes)[cn])
            chk.require(a in ("Any", None) or a == base, "SIG-VARIADIC", f"{cn}.{m}", f"*args: {a}",
                        derived=f"*args annotated {a!r}; beartype enforces it per element, and callers pass model arguments / a Target",
                        expected="`Any` (as Distribution.random_weighted / the base class declare)", where=chk.where(ci.module, ci.methods[m]))


def run(chk, prog):
    ev = Evaluator(prog)
    ci, fn = prog.method("Marginal", "random_weighted", MOD)
    where = chk.where(ci.module, fn)
    r = ev.eval_fn(fn, ci.module, ci)
    inst = "Marginal.random_weighted"
    sims = [c for c in mcalls(r.ret, "simulate") if c[1][1] == GFN]
    chk.require(len(sims) == 1 and sims[0][2][1] == P("args"), "DELEG-ROLE", inst + "/simulate", "one simulated trace at the given arguments",
                derived=f"{[show(s)[:120] for s in sims]}", expected="self.gen_fn.simulate(k, args) once", where=where)
    if len(sims) != 1:
        return
    tr = sims[0]
    choices = ("call", ("attr", tr, "get_choices"), (), ())
    want_sample = ("call", ("attr", choices, "filter"), (SEL,), ())
    arms = [(list(c), t) for c, t in r.returns]
    chk.floor("arms of Marginal.random_weighted", len(arms), 2)
    for conds, leaf in arms:
        none_arm = any(is_t(c[0], "is") and c[0][1] == ALG and c[1] for c in conds)
        arm = "no-algorithm" if none_arm else "algorithm"
        if not is_t(leaf, "tuple") or len(leaf[1]) != 2:
            raise AnalysisError(f"{inst}: arm {arm} does not return a pair")
        w, sample = leaf[1]
        chk.require(sample == want_sample, "POLARITY", f"{inst}/{arm}/sample", "returned sample", derived=show(sample)[:200], expected="tr.get_choices().filter(self.selection)", where=where)
        if none_arm:
            f = lin(w)
            proj_ok = lambda t, sel: is_mcall(t, "project") and t[1][1] == tr and len(t[2]) == 2 and t[2][1] == sel
            form1 = len(f) == 1 and all(len(m) == 1 and proj_ok(next(iter(m)), SEL) and c == 1 for m, c in f.items())
            score = ("call", ("attr", tr, "get_score"), (), ())
            form2 = len(f) == 2 and f.get(frozenset([score])) == 1 and any(len(m) == 1 and proj_ok(next(iter(m)), NSEL) and c == -1 for m, c in f.items())
            chk.require(form1 or form2, "WEIGHT-INF", f"{inst}/{arm}/weight", "weight is the density of the returned (selected) choices",
                        derived=show_lin(f)[:300], expected="tr.project(k, self.selection)   (or tr.get_score() - tr.project(k, ~self.selection))", where=where)
            pk = [next(iter(m))[2][0] for m in f if len(m) == 1 and is_mcall(next(iter(m)), "project")]
            chk.require(all(k != tr[2][0] for k in pk), "KEY-LINEAR", f"{inst}/{arm}/keys", "simulate and project use different keys",
                        derived=f"simulate key {show(tr[2][0])}; project key {[show(k) for k in pk]}", expected="distinct derived keys", where=where)
        else:
            ok = is_mcall(w, "estimate_reciprocal_normalizing_constant") and w[1][1] == ALG and len(w[2]) == 4
            chk.require(ok, "DELEG-ROLE", f"{inst}/{arm}/call", "algorithm arm", derived=show(w)[:200], expected="self.algorithm.estimate_reciprocal_normalizing_constant(key, target, other_choices, w)", where=where)
            if ok:
                k, target, other, w_in = w[2]
                chk.require(target == ("ctor", "Target", (GFN, P("args"), want_sample), ()), "DELEG-ROLE", f"{inst}/{arm}/target", "target constrains the selected choices",
                            derived=show(target)[:200], expected="Target(self.gen_fn, args, selected choices)", where=where)
                chk.require(other == ("call", ("attr", choices, "filter"), (NSEL,), ()), "POLARITY", f"{inst}/{arm}/other", "retained latent choices are the complement",
                            derived=show(other)[:200], expected="tr.get_choices().filter(~self.selection)", where=where)
                chk.require(k != tr[2][0], "KEY-LINEAR", f"{inst}/{arm}/keys", "algorithm key differs from simulate key", derived=show(k), expected="distinct", where=where)
                chk.note("algorithm arm: the weight handed to estimate_reciprocal_normalizing_constant is recorded, not judged: " + show(w_in)[:160])
                # What comes back must estimate log p(selected).  Degenerate case as the witness: with EVERYTHING selected there are no latents, every particle
                # of the conditional run has weight log p(selected), so log Z^ = logsumexp(weights) - log K = log p(selected) exactly, and the returned weight must
                # be that.  The returned weight is a linear combination  a * log Z^ + b * (retained particle's score) + ...; in the degenerate case the
                # retained score is log p(selected) as well, so a + b must be 1 (joint - posterior estimate and log Z^ itself both satisfy it).
                evs = Evaluator(prog)
                evs.opaque_methods |= {"run_csmc", "importance", "get_particle", "get_log_weights", "get_particles", "filter_to_unconstrained"}
                evs.opaque_funcs |= {"stack_to_first_dim", "logsumexp"}
                CT = prog.cls("ChangeTarget", "inference/smc.py")
                rn = evs.eval_fn(CT.methods["run_csmc_for_normalizing_constant"], CT.module, CT)
                f_ = lin(rn.ret)
                lse = [m_ for m_ in f_ if len(m_) == 1 and is_call(next(iter(m_)), "logsumexp")]
                rsc = [m_ for m_ in f_ if len(m_) == 1 and is_mcall(next(iter(m_)), "get_score")]
                a_ = sum(f_[m_] for m_ in lse)
                b_ = sum(f_[m_] for m_ in rsc)
                direct = True  # `w` IS the returned weight of this arm (leaf[1][0])
                chk.require(bool(lse) and direct and a_ + b_ == 1, "WEIGHT-INF", f"{inst}/{arm}/returned-weight", "weight returned on the algorithm path",
                            derived=f"run_csmc_for_normalizing_constant returns {show_lin(f_)[:200]} and Marginal.random_weighted returns it unchanged: with everything selected this is {a_ + b_} * log p(selected)",
                            expected="an estimate of log p(selected): exactly log p(selected) when nothing is latent (log Z^, or joint score - posterior-density estimate)", where=where)
    # ---- estimate_logpdf
    ci, fn = prog.method("Marginal", "estimate_logpdf", MOD)
    where = chk.where(ci.module, fn)
    r = ev.eval_fn(fn, ci.module, ci)
    for conds, leaf in r.returns:
        none_arm = any(is_t(c[0], "is") and c[0][1] == ALG and c[1] for c in conds)
        if none_arm:
            imp = ("call", ("attr", GFN, "importance"), (P("key"), P("v"), P("args")), ())
            chk.require(leaf == mk_proj(imp, 1), "WEIGHT-INF", "Marginal.estimate_logpdf/no-algorithm", "importance weight of the sample as constraint",
                        derived=show(leaf)[:200], expected="self.gen_fn.importance(key, v, args)[1]", where=where)
        else:
            exp = ("call", ("attr", ALG, "estimate_normalizing_constant"), (P("key"), ("ctor", "Target", (GFN, P("args"), P("v")), ())), ())
            chk.require(leaf == exp, "WEIGHT-INF", "Marginal.estimate_logpdf/algorithm", "normalizing constant of Target(gen_fn, args, v)", derived=show(leaf)[:200], expected=show(exp), where=where)
    # ---- decorators
    m, f = prog.func("marginal", MOD)
    dec = prog.nested(f, "decorator")
    r = Evaluator(prog).eval_fn(dec, m, env0={"selection": P("selection"), "algorithm": P("algorithm")})
    chk.require(r.ret == ("ctor", "Marginal", (P("gen_fn"), P("selection"), P("algorithm")), ()) and ci.fields[:3] == ["gen_fn", "selection", "algorithm"], "DELEG-ROLE", "marginal.decorator", "field order",
                derived=show(r.ret), expected="Marginal(gen_fn, selection, algorithm)", where=chk.where(m, dec))
    gfc = prog.cls("GenerativeFunction", "core/generative/generative_function.py")
    rm = Evaluator(prog).eval_fn(gfc.methods["marginal"], gfc.module, gfc)
    selt = ("phi", ("is", P("selection"), ("const", None)), ("call", ("attr", ("global", "genjax.Selection"), "all"), (), ()), P("selection"))
    tm = rm.ret
    okm = is_t(tm, "call") and tm[2] == (P("self"),) and is_t(tm[1], "call") and dict(tm[1][3]).get("algorithm") == P("algorithm") and is_t(dict(tm[1][3]).get("selection"), "phi") \
        and dict(tm[1][3])["selection"][3] == P("selection") and is_call(dict(tm[1][3])["selection"][2], "all")
    chk.require(okm, "DELEG-ROLE", "GenerativeFunction.marginal", "selection (default: all) and algorithm forwarded in their roles", derived=show(tm)[:240], expected="marginal(selection=selection or Selection.all(), algorithm=algorithm)(self)", where=chk.where(gfc.module, gfc.methods["marginal"]))
    # ---- SIG-VARIADIC
    sig_variadic(chk, prog, [("Distribution", "distributions/distribution.py"), ("Marginal", MOD), ("Algorithm", MOD)])
    # Target.importance merges the target's constraint on the dominant side (used by the algorithm arm)
    ci, fn = prog.method("Target", "importance", MOD)
    r = ev.eval_fn(fn, ci.module, ci)
    merged = ("call", ("attr", ("attr", P("self"), "constraint"), "merge"), (P("constraint"),), ())
    exp = ("call", ("attr", ("attr", P("self"), "p"), "importance"), (P("key"), merged, ("attr", P("self"), "args")), ())
    chk.require(r.ret == exp, "CHM-LEFTBIAS", "Target.importance", "observations dominate the merge", derived=show(r.ret)[:200], expected=show(exp), where=chk.where(ci.module, fn))
    # Marginal with an algorithm estimates densities through ChangeTarget's reweighting (C26's WEIGHT-INF on _reweight), and programs built from the vi
    # distributions are scored by their vi density, which must be the density of what their sampler draws (C30's SIBLING-DENSITY)
    from ._share import take
    take(chk, prog, "C26", lambda o: "._reweight" in o["instance"], "ChangeTarget reweighting obligations (from C26)", 2)
    take(chk, prog, "C30", lambda o: o["rule"] == "SIBLING-DENSITY", "vi sampler / density agreement (from C30)", 3)
