"""C19 - Mask algebra matches its truth tables for concrete and traced flags.

Decided (MASK-TABLE, by finite evaluation): for __or__ and __xor__ every concrete `match` arm and the traced arm give the same observable result -
the flag everywhere, and the chosen side wherever the flag is True; _or_idx is folded over {0,1}^2 with the wrap-around index (-1 -> last of two);
__invert__ negates the flag only; build conjoins flags; flatten: concrete False -> None, concrete True -> value, else self; unmask(default) selects the
value on the flag's true side; primal_flag strips a Diff; FLAG-TABLE for the FlagOp calls used (shared with C20).
Not decided: elementwise broadcasting of vectorised flags (JAX).
"""
import itertools

from ..finite import Unrecognised, ev_int
from ..program import AnalysisError
from ..rules import is_call, is_mcall, mentions
from ..terms import C, Evaluator, G, P, is_t, mk_proj, show, subterms
from .C20 import flag_tables

MOD = "core/generative/functional_types.py"
SELF, OTHER = P("self"), P("other")


def is_build(t):
    return is_call(t, "build") and is_t(t[1], "attr") and is_t(t[1][1], "global") and t[1][1][1].split(".")[-1] == "Mask"


def run(chk, prog):
    M = prog.cls("Mask", MOD)
    W = lambda m: f"{M.module.rel}:{M.methods[m].lineno}"
    ev = Evaluator(prog)
    ev.opaque_methods |= {"_validate_mask_shapes", "primal_flag"}
    F1 = ("call", ("attr", SELF, "primal_flag"), (), ())
    F2 = ("call", ("attr", OTHER, "primal_flag"), (), ())

    def classify(ret, f1, f2):
        """(flag, side) of a result term under concrete flag values; side in {'self','other',None}"""
        env = {F1: f1, F2: f2}
        if ret == SELF:
            return f1, "self"
        if ret == OTHER:
            return f2, "other"
        if is_build(ret) and len(ret[2]) == 2:
            v, f = ret[2]
            base = classify(v, f1, f2)
            return bool(ev_int(f, env)) and base[0], base[1]
        if is_t(ret, "choose"):
            idx = ev_int(ret[1], env)
            lst = ret[2]
            if not (is_t(lst, "list") and len(lst[1]) == 2):
                raise Unrecognised("choose family")
            pick = lst[1][int(idx) % 2]
            return classify(pick, f1, f2)
        if ret in (("attr", SELF, "value"),):
            return None, "self"
        if ret in (("attr", OTHER, "value"),):
            return None, "other"
        if (is_t(ret, "ctor") and ret[1] == "Mask") and len(ret[2]) == 2:
            side = classify(ret[2][0], f1, f2)[1]
            return bool(ev_int(ret[2][1], env)), side
        raise Unrecognised(show(ret)[:100])

    def arm_fires(conds, f1, f2, concrete):
        """does this match arm fire for (f1, f2)?  literal patterns only fire for concrete flags"""
        env = {F1: f1, F2: f2}
        for t, pol in conds:
            v = test(t, env, concrete)
            if v != pol:
                return False
        return True

    def test(t, env, concrete):
        conc = (lambda v: concrete) if isinstance(concrete, bool) else (lambda v: concrete.get(v, False))
        if is_t(t, "is"):
            return conc(t[1]) and ev_int(t[1], env) is t[2][1]
        if is_t(t, "cmp") and t[1] == "==":
            return conc(t[2]) and ev_int(t[2], env) == ev_int(t[3], env)
        if is_t(t, "bool"):
            vs = [test(x, env, concrete) for x in t[2]]
            return all(vs) if t[1] == "and" else any(vs)
        if t == C(True):
            return True
        raise Unrecognised(show(t)[:80])

    for meth, spec in (("__or__", lambda a, b: a or b), ("__xor__", lambda a, b: a != b)):
        r = ev.eval_fn(M.methods[meth], M.module, M)
        rows, ok, why = 0, True, []
        try:
            for c1, c2 in itertools.product([True, False], repeat=2):  # each flag independently a Python bool or traced
                concrete = {F1: c1, F2: c2}
                for f1, f2 in itertools.product([True, False], repeat=2):
                    fired = [ret for conds, ret in r.returns if arm_fires(conds, f1, f2, concrete)]
                    if not fired:
                        ok = False
                        why.append(f"no arm for {(f1, f2, concrete)}")
                        continue
                    flag, side = classify(fired[0], f1, f2)
                    rows += 1
                    want_flag = spec(f1, f2)
                    want_side = "self" if f1 else "other"
                    if bool(flag) != want_flag or (want_flag and side != want_side):
                        ok = False
                        why.append(f"flags {(f1, f2)} ({'bool' if c1 else 'traced'}, {'bool' if c2 else 'traced'}): flag={flag} side={side}, expected flag={want_flag} side={want_side}")
        except Unrecognised as e:
            raise AnalysisError(f"Mask.{meth}: unrecognised form {e}")
        chk.require(ok, "MASK-TABLE", f"Mask.{meth}", f"truth table of {meth}", derived=f"{rows} rows; " + "; ".join(why)[:400], expected="flag = f1 op f2 in every arm (concrete and traced); where the flag is True the value comes from self if f1 else other", where=W(meth))
        chk.sample({"method": meth, "arms": [show(ret)[:120] for c, ret in r.returns]})
    # _or_idx table (index arithmetic with wrap-around)
    r = Evaluator(prog).eval_fn(M.methods["_or_idx"], M.module, M)
    try:
        tab = {(a, b): int(ev_int(r.ret, {P("first"): a, P("second"): b})) % 2 for a in (True, False) for b in (True, False)}
    except Unrecognised as e:
        raise AnalysisError(f"Mask._or_idx: {e}")
    chk.require(tab == {(True, True): 0, (True, False): 0, (False, True): 1, (False, False): 1}, "CHOOSE-WRAP", "Mask._or_idx", "index arithmetic", derived=str(tab), expected="first -> 0; only second -> 1; neither -> -1 which wraps to the last of two", where=W("_or_idx"))
    # __invert__
    r = ev.eval_fn(M.methods["__invert__"], M.module, M)
    ok = is_t(r.ret, "ctor") and r.ret[1] == "Mask" and r.ret[2][0] == ("attr", SELF, "value") and is_t(r.ret[2][1], "treemap") and r.ret[2][1][2] == (("attr", SELF, "flag"),) \
        and is_call(r.ret[2][1][1], "not_")
    chk.require(ok, "MASK-TABLE", "Mask.__invert__", "negates the flag only", derived=show(r.ret), expected="Mask(self.value, tree_map(FlagOp.not_, self.flag))", where=W("__invert__"))
    # build
    r = ev.eval_fn(M.methods["build"], M.module, M)
    got = {}
    for conds, ret in r.returns:
        got["mask" if any(is_t(t, "isinst") and t[2] == "Mask" and p for t, p in conds) or any(is_t(t, "bool") and p for t, p in conds) else "plain"] = ret
    V, Fp = P("v"), P("f")
    gm = got.get("mask")
    okm = is_t(gm, "ctor") and gm[1] == "Mask" and gm[2][0] == ("attr", V, "value") and is_call(gm[2][1], "and_") and set(gm[2][1][2]) == {Fp, ("attr", V, "flag")}
    okp = got.get("plain") == ("ctor", "Mask", (V, Fp), ())
    chk.require(okm and okp, "MASK-TABLE", "Mask.build", "conjoins flags of nested masks", derived={k: show(v) for k, v in got.items()}.__str__(), expected="Mask(value, and_(f, g)) for a Mask argument; Mask(v, f) otherwise", where=W("build"))
    # flatten
    ev2 = Evaluator(prog)
    ev2.opaque_methods.add("primal_flag")
    r = ev2.eval_fn(M.methods["flatten"], M.module, M)
    got = {}
    for conds, ret in r.returns:
        pos = [t for t, p in conds if p]
        if any(is_call(t, "concrete_false") for t in pos):
            got["F"] = ret
        elif any(is_call(t, "concrete_true") for t in pos):
            got["T"] = ret
        else:
            got["traced"] = ret
    okf = got.get("F") == C(None) and got.get("T") == ("attr", SELF, "value") and got.get("traced") == SELF
    chk.require(okf, "MASK-TABLE", "Mask.flatten", "concrete False -> None, concrete True -> value, else self", derived={k: show(v) for k, v in got.items()}.__str__(), expected="None / self.value / self", where=W("flatten"))
    # unmask
    r = ev2.eval_fn(M.methods["unmask"], M.module, M)
    got = {}
    for conds, ret in r.returns:
        got["nodefault" if any(t == ("is", P("default"), C(None)) and p for t, p in conds) else "default"] = ret
    d = got.get("default")
    okd = is_t(d, "treemap") and d[2] == (("attr", SELF, "value"), P("default")) and d[1] == ("where", F1, ("leaf", ("attr", SELF, "value")), ("leaf", P("default")))
    chk.require(okd and got.get("nodefault") == ("attr", SELF, "value"), "MASK-TABLE", "Mask.unmask", "value on the true side, default on the false side", derived={k: show(v) for k, v in got.items()}.__str__(),
                expected="tree_map(where(flag, value_leaf, default_leaf), self.value, default)", where=W("unmask"))
    # primal_flag
    r = Evaluator(prog).eval_fn(M.methods["primal_flag"], M.module, M)
    got = {}
    FL = ("attr", SELF, "flag")
    for conds, ret in r.returns:
        got["diff" if any(is_t(t, "isinst") and t[2] == "Diff" and p for t, p in conds) else "plain"] = ret
    chk.require(got.get("diff") == ("attr", FL, "primal") and got.get("plain") == FL, "MASK-TABLE", "Mask.primal_flag", "strips a Diff", derived={k: show(v) for k, v in got.items()}.__str__(), expected="flag.primal / flag", where=W("primal_flag"))
    r = ev2.eval_fn(M.methods["maybe_mask"], M.module, M)
    chk.require(is_mcall(r.ret, "flatten") and is_build(r.ret[1][1]) and r.ret[1][1][2] == (P("v"), P("f")), "MASK-TABLE", "Mask.maybe_mask", "build then flatten", derived=show(r.ret), expected="Mask.build(v, f).flatten()", where=W("maybe_mask"))
    for m_, op in (("or_n", "|"), ("xor_n", "^")):
        fn = M.methods[m_]
        evn = Evaluator(prog)
        r = evn.eval_fn(fn, M.module, M)
        ok = is_call(r.ret, "reduce") and len(r.ret[2]) == 3 and r.ret[2][1:] == (P("masks"), P("mask"))
        if ok:
            rr = evn.apply(r.ret[2][0], [P("$a"), P("$b")], module=M.module)
            ok = rr == ("bin", op, P("$a"), P("$b"))
        chk.require(ok, "MASK-TABLE", f"Mask.{m_}", "left fold", derived=show(r.ret)[:160], expected=f"reduce(a {op} b, masks, mask)", where=f"{M.module.rel}:{fn.lineno}")
    n = flag_tables(chk, prog)
    chk.explanation = "finite truth tables: concrete match arms vs traced arm of Mask.__or__/__xor__ (flag everywhere, chosen side where valid), index wrap-around, flag-only operations"
