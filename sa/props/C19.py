"""C19 - Mask algebra matches its truth tables for concrete and traced flags.

Decided (MASK-TABLE, by finite evaluation): for __or__ and __xor__ every concrete `match` arm and the traced arm give the same observable result -
the flag everywhere, and the chosen side wherever the flag is True; _or_idx is folded over {0,1}^2 with the wrap-around index (-1 -> last of two);
__invert__ negates the flag only; build conjoins flags; flatten: concrete False -> None, concrete True -> value, else self; unmask(default) selects the
value on the flag's true side; primal_flag strips a Diff; FLAG-TABLE for the FlagOp calls used (shared with C20).
LEADING-ALIGN: every select of value leaves by a flag (unmask, |, ^) first aligns the flag with the leaf's LEADING axes (a vectorized flag's shape is a prefix
of the leaf shapes; jnp.where / jnp.choose broadcast from the trailing axis), through a helper found by what it computes.  Not decided: JAX's own broadcasting.
"""
import ast
import itertools

from ..finite import Unrecognised, ev_int
from ..program import AnalysisError
from ..rules import Arms, is_call, is_mcall, mentions
from ..terms import C, Evaluator, G, P, is_t, mk_proj, show, subterms
from .C20 import flag_tables

MOD = "core/generative/functional_types.py"
SELF, OTHER = P("self"), P("other")


def is_build(t):
    return is_call(t, "build") and is_t(t[1], "attr") and is_t(t[1][1], "global") and t[1][1][1].split(".")[-1] == "Mask"


def run(chk, prog):
    M = prog.cls("Mask", MOD)
    W = lambda m: f"{M.module.rel}:{M.methods[m].lineno}"
    ev = Evaluator(prog)
    ev.opaque_methods |= {"_validate_mask_shapes", "primal_flag"}
    F1 = ("call", ("attr", SELF, "primal_flag"), (), ())
    F2 = ("call", ("attr", OTHER, "primal_flag"), (), ())

    def classify(ret, f1, f2):
        """(flag, side) of a result term under concrete flag values; side in {'self','other',None}"""
        env = {F1: f1, F2: f2}
        if ret == SELF:
            return f1, "self"
        if ret == OTHER:
            return f2, "other"
        if is_build(ret) and len(ret[2]) == 2:
            v, f = ret[2]
            base = classify(v, f1, f2)
            return bool(ev_int(f, env)) and base[0], base[1]
        if is_t(ret, "treemap") and is_t(ret[1], "choose") and len(ret[2]) == 2:
            # leaf-wise choice between the two operands: tree_map(lambda a, b: tree_choose(<idx aligned with a>, [a, b]), X, Y)  ==  choose(idx, [X, Y])
            X, Y = ret[2]
            ch = ret[1]
            idx_t = ch[1]
            if is_call(idx_t, "_leading") and len(idx_t[2]) == 2 and idx_t[2][1] == ("leaf", X):
                idx_t = idx_t[2][0]
            if ch[2] == ("list", (("leaf", X), ("leaf", Y))):
                return classify(("choose", idx_t, ("list", (X, Y))), f1, f2)
            raise Unrecognised("leaf-wise choose family")
        if is_t(ret, "choose"):
            idx = ev_int(ret[1], env)
            lst = ret[2]
            if not (is_t(lst, "list") and len(lst[1]) == 2):
                raise Unrecognised("choose family")
            pick = lst[1][int(idx) % 2]
            return classify(pick, f1, f2)
        if ret in (("attr", SELF, "value"),):
            return None, "self"
        if ret in (("attr", OTHER, "value"),):
            return None, "other"
        if (is_t(ret, "ctor") and ret[1] == "Mask") and len(ret[2]) == 2:
            side = classify(ret[2][0], f1, f2)[1]
            return bool(ev_int(ret[2][1], env)), side
        raise Unrecognised(show(ret)[:100])

    def arm_fires(conds, f1, f2, concrete):
        """does this match arm fire for (f1, f2)?  literal patterns only fire for concrete flags"""
        env = {F1: f1, F2: f2}
        for t, pol in conds:
            v = test(t, env, concrete)
            if v != pol:
                return False
        return True

    def test(t, env, concrete):
        conc = (lambda v: concrete) if isinstance(concrete, bool) else (lambda v: concrete.get(v, False))
        if is_t(t, "is"):
            return conc(t[1]) and ev_int(t[1], env) is t[2][1]
        if is_t(t, "cmp") and t[1] == "==":
            return conc(t[2]) and (conc(t[3]) or t[3] not in env) and ev_int(t[2], env) == ev_int(t[3], env)
        if is_t(t, "bool"):
            vs = [test(x, env, concrete) for x in t[2]]
            return all(vs) if t[1] == "and" else any(vs)
        if t == C(True):
            return True
        if is_t(t, "isinst") and t[2] == "bool":
            return conc(t[1])  # `case bool(x)` / isinstance(x, bool): exactly the concrete Python flags
        if is_t(t, "un") and t[1] == "not":
            return not test(t[2], env, concrete)
        if t in env:
            return conc(t) and bool(env[t])  # truthiness of a flag: only meaningful (and only reached in correct code) for a concrete one
        raise Unrecognised(show(t)[:80])

    for meth, spec in (("__or__", lambda a, b: a or b), ("__xor__", lambda a, b: a != b)):
        r = ev.eval_fn(M.methods[meth], M.module, M)
        rows, ok, why = 0, True, []
        try:
            for c1, c2 in itertools.product([True, False], repeat=2):  # each flag independently a Python bool or traced
                concrete = {F1: c1, F2: c2}
                for f1, f2 in itertools.product([True, False], repeat=2):
                    fired = [ret for conds, ret in r.returns if arm_fires(conds, f1, f2, concrete)]
                    if not fired:
                        ok = False
                        why.append(f"no arm for {(f1, f2, concrete)}")
                        continue
                    flag, side = classify(fired[0], f1, f2)
                    rows += 1
                    want_flag = spec(f1, f2)
                    want_side = "self" if f1 else "other"
                    if bool(flag) != want_flag or (want_flag and side != want_side):
                        ok = False
                        why.append(f"flags {(f1, f2)} ({'bool' if c1 else 'traced'}, {'bool' if c2 else 'traced'}): flag={flag} side={side}, expected flag={want_flag} side={want_side}")
        except Unrecognised as e:
            raise AnalysisError(f"Mask.{meth}: unrecognised form {e}")
        chk.require(ok, "MASK-TABLE", f"Mask.{meth}", f"truth table of {meth}", derived=f"{rows} rows; " + "; ".join(why)[:400], expected="flag = f1 op f2 in every arm (concrete and traced); where the flag is True the value comes from self if f1 else other", where=W(meth))
        chk.sample({"method": meth, "arms": [show(ret)[:120] for c, ret in r.returns]})
    # _or_idx table (index arithmetic with wrap-around)
    r = Evaluator(prog).eval_fn(M.methods["_or_idx"], M.module, M)
    try:
        tab = {(a, b): int(ev_int(r.ret, {P("first"): a, P("second"): b})) % 2 for a in (True, False) for b in (True, False)}
    except Unrecognised as e:
        raise AnalysisError(f"Mask._or_idx: {e}")
    chk.require(tab == {(True, True): 0, (True, False): 0, (False, True): 1, (False, False): 1}, "CHOOSE-WRAP", "Mask._or_idx", "index arithmetic", derived=str(tab), expected="first -> 0; only second -> 1; neither -> -1 which wraps to the last of two", where=W("_or_idx"))
    # __invert__
    r = ev.eval_fn(M.methods["__invert__"], M.module, M)
    ok = is_t(r.ret, "ctor") and r.ret[1] == "Mask" and r.ret[2][0] == ("attr", SELF, "value") and is_t(r.ret[2][1], "treemap") and r.ret[2][1][2] == (("attr", SELF, "flag"),) \
        and is_call(r.ret[2][1][1], "not_")
    chk.require(ok, "MASK-TABLE", "Mask.__invert__", "negates the flag only", derived=show(r.ret), expected="Mask(self.value, tree_map(FlagOp.not_, self.flag))", where=W("__invert__"))
    # build
    r = ev.eval_fn(M.methods["build"], M.module, M)
    got = Arms()
    for conds, ret in r.returns:
        got["mask" if any(is_t(t, "isinst") and t[2] == "Mask" and p for t, p in conds) or any(is_t(t, "bool") and p for t, p in conds) else "plain"] = ret
    V, Fp = P("v"), P("f")
    gm = got.get("mask")
    okm = is_t(gm, "ctor") and gm[1] == "Mask" and gm[2][0] == ("attr", V, "value") and is_call(gm[2][1], "and_") and set(gm[2][1][2]) == {Fp, ("attr", V, "flag")}
    okp = got.get("plain") == ("ctor", "Mask", (V, Fp), ())
    chk.require(okm and okp, "MASK-TABLE", "Mask.build", "conjoins flags of nested masks", derived={k: show(v) for k, v in got.items()}.__str__(), expected="Mask(value, and_(f, g)) for a Mask argument; Mask(v, f) otherwise", where=W("build"))
    # flatten
    ev2 = Evaluator(prog)
    ev2.opaque_methods.add("primal_flag")
    r = ev2.eval_fn(M.methods["flatten"], M.module, M)
    # by kind of flag (literal False / literal True / array), whatever tests the kind: FlagOp.concrete_false / concrete_true, `is`, literal patterns
    from ..rules import resolve_all
    PFm = ("call", ("attr", SELF, "primal_flag"), (), ())
    got = {}
    for kind_ in ("F", "T", "traced"):
        def atom_(c, kind_=kind_):
            if (is_call(c, "concrete_true") or is_call(c, "concrete_false")) and c[2] == (PFm,):
                return kind_ != "traced" and (kind_ == "T") == is_call(c, "concrete_true")
            if is_t(c, "is") and c[1] == PFm and c[2] in (C(True), C(False)):
                return kind_ != "traced" and (kind_ == "T") == c[2][1]
            if is_t(c, "cmp") and c[1] == "==" and c[2] == PFm and c[3] in (C(True), C(False)):
                return kind_ != "traced" and (kind_ == "T") == c[3][1]
            if is_t(c, "isinst") and c[1] == PFm and c[2] == "bool":
                return kind_ != "traced"
            return None
        got[kind_] = resolve_all(r.ret, atom_)
    okf = got.get("F") == C(None) and got.get("T") == ("attr", SELF, "value") and got.get("traced") == SELF
    chk.require(okf, "MASK-TABLE", "Mask.flatten", "concrete False -> None, concrete True -> value, else self", derived={k: show(v) for k, v in got.items()}.__str__(), expected="None / self.value / self", where=W("flatten"))
    # unmask
    r = ev2.eval_fn(M.methods["unmask"], M.module, M)
    got = Arms()
    for conds, ret in r.returns:
        got["nodefault" if any(t == ("is", P("default"), C(None)) and p for t, p in conds) else "default"] = ret
    d = got.get("default")
    VL = ("leaf", ("attr", SELF, "value"))
    # the aligning helper is found by what it computes, not by its name: a static method of Mask with an arm reshape(a, shape(a) + (1,) * (ndim(b) - ndim(a)))
    nd_ = lambda x: ("call", ("global", "jax.numpy.ndim"), (x,), ())
    def _reshape_form(a, b):
        return ("call", ("global", "jax.numpy.reshape"), (a, ("bin", "+", ("call", ("global", "jax.numpy.shape"), (a,), ()), ("bin", "*", ("tuple", (C(1),)), ("bin", "-", nd_(b), nd_(a))))), ())
    helpers = {}
    for hn, hf in M.methods.items():
        if len(hf.args.args) == 2 and any(ast.unparse(dd) == "staticmethod" for dd in hf.decorator_list):
            a_, b_ = (P(x.arg) for x in hf.args.args)
            rets_ = [t for c_, t in Evaluator(prog).eval_fn(hf, M.module, M).returns]
            if _reshape_form(a_, b_) in rets_ and a_ in rets_ and len(rets_) == 2:
                helpers[hn] = hf
    aligned = lambda t, leaf: (is_t(t, "call") and is_t(t[1], "attr") and t[1][2] in helpers and len(t[2]) == 2 and t[2][1] == leaf) or (is_call(t, "reshape") and len(t[2]) == 2 and t == _reshape_form(t[2][0], leaf))
    okd = is_t(d, "treemap") and d[2] == (("attr", SELF, "value"), P("default")) and is_t(d[1], "where") and d[1][2:] == (VL, ("leaf", P("default"))) \
        and (d[1][1] == F1 or (aligned(d[1][1], VL) and d[1][1][2][0] == F1))
    chk.require(okd and got.get("nodefault") == ("attr", SELF, "value"), "MASK-TABLE", "Mask.unmask", "value on the true side, default on the false side", derived={k: show(v) for k, v in got.items()}.__str__(),
                expected="tree_map(where(flag, value_leaf, default_leaf), self.value, default)", where=W("unmask"))
    # ---------------------------------------------------------------- "elementwise for vectorized flags"
    # the shape of a vectorized flag is a PREFIX of every leaf's shape (Mask._validate_init), while jnp.where / jnp.choose broadcast from the TRAILING axis:
    # a flag (3,) against a leaf (3, 4) raises, against a leaf (3, 3) silently selects columns.  Every select of leaves by a flag (or an index computed from
    # flags) therefore aligns it with the leaf's leading axes first - and the aligning helper must append the missing axes at the END of the flag's shape
    sites = []
    if is_t(d, "treemap") and is_t(d[1], "where"):
        sites.append(("Mask.unmask", aligned(d[1][1], VL)))
    for meth in ("__or__", "__xor__"):
        rr = ev.eval_fn(M.methods[meth], M.module, M)
        for conds, ret in rr.returns:
            for x in subterms(ret):
                if is_t(x, "choose") and not is_t(x[1], "const"):
                    fam = is_t(x[2], "list") and len(x[2][1]) == 2 and all(is_t(y, "leaf") for y in x[2][1])
                    sites.append((f"Mask.{meth}", bool(fam and aligned(x[1], x[2][1][0]))))
    bad_sites = sorted({n for n, ok_ in sites if not ok_})
    chk.require(len(sites) >= 3 and not bad_sites, "LEADING-ALIGN", "Mask/vectorized-select", "selects of value leaves by a (vectorized) flag", derived=f"{len(sites)} select site(s); not aligned with the leaf's leading axes: {bad_sites}",
                expected="jnp.where / tree_choose receive Mask._leading(flag_or_index, leaf) per leaf", where=W("unmask"))
    chk.require(len(helpers) >= 1 or not bad_sites, "LEADING-ALIGN", "Mask/aligning-helper", "helper that appends the missing axes at the END of a vectorized flag's shape", derived=f"helpers found: {sorted(helpers)}",
                expected="reshape(flag, shape(flag) + (1,) * (ndim(leaf) - ndim(flag))) for array flags of lower rank; the flag itself otherwise", where=W("unmask"))
    # primal_flag
    r = Evaluator(prog).eval_fn(M.methods["primal_flag"], M.module, M)
    got = Arms()
    FL = ("attr", SELF, "flag")
    for conds, ret in r.returns:
        got["diff" if any(is_t(t, "isinst") and t[2] == "Diff" and p for t, p in conds) else "plain"] = ret
    chk.require(got.get("diff") == ("attr", FL, "primal") and got.get("plain") == FL, "MASK-TABLE", "Mask.primal_flag", "strips a Diff", derived={k: show(v) for k, v in got.items()}.__str__(), expected="flag.primal / flag", where=W("primal_flag"))
    r = ev2.eval_fn(M.methods["maybe_mask"], M.module, M)
    chk.require(is_mcall(r.ret, "flatten") and is_build(r.ret[1][1]) and r.ret[1][1][2] == (P("v"), P("f")), "MASK-TABLE", "Mask.maybe_mask", "build then flatten", derived=show(r.ret), expected="Mask.build(v, f).flatten()", where=W("maybe_mask"))
    for m_, op in (("or_n", "|"), ("xor_n", "^")):
        fn = M.methods[m_]
        evn = Evaluator(prog)
        r = evn.eval_fn(fn, M.module, M)
        # a left fold mask op m1 op m2 ..: the generic loop term, or (for `|`) the accumulation term the for-loop spelling `acc |= m` gives
        ok = (is_t(r.ret, "loop") and r.ret[1] == P("masks") and r.ret[2] == P("mask") and r.ret[3] == ("bin", op, P("mask"), ("elem", P("masks")))) \
            or r.ret == ("bin", op, P("mask"), ("sumover", P("masks"), ("elem", P("masks"))))
        chk.require(ok, "MASK-TABLE", f"Mask.{m_}", "left fold", derived=show(r.ret)[:160], expected=f"reduce(a {op} b, masks, mask)", where=f"{M.module.rel}:{fn.lineno}")
    n = flag_tables(chk, prog)
    chk.explanation = "finite truth tables: concrete match arms vs traced arm of Mask.__or__/__xor__ (flag everywhere, chosen side where valid), index wrap-around, flag-only operations"
