"""C24 - distribution wrappers agree with their TFP densities.

Decided: SIBLING-DENSITY (tfp_distribution's sampler and logpdf construct dist(*args, **kwargs) identically after both drop `sample_shape`; logpdf returns
log_prob(v) of that distribution; the sampler passes seed=key); exact_density's kwargle routes (args, kwargs) identically for sample and logpdf so keyword and
positional invocations reach the same constructor call; implicit_logit_warning sends a bare parameter to logits=; flip builds Bernoulli(probs=p, dtype=bool);
REGISTRY-NAMES (each documented binding wraps the TFP class of the same name; the public re-export table binds the same objects); base GFI cases give
"score and weights are the summed log_prob" (obligations shared with C02/C03/C05).  Not decided: numeric agreement, supports, dtypes produced by TFP.
"""
import ast
import re

from ..gfi import distribution
from ..gfi.common import Obs
from ..program import AnalysisError
from ..rules import Arms, is_call, is_mcall, mcalls, mentions
from ..terms import C, Evaluator, G, P, is_t, mk_cmp, mk_proj, scenarios, show, subterms

TFP = "distributions/tensorflow_probability/__init__.py"
DM = "distributions/distribution.py"

# irregular names (frozen alias table): exported name -> TFP class
ALIASES = {
    "mv_normal": "MultivariateNormalFullCovariance", "mv_normal_diag": "MultivariateNormalDiag", "double_sided_maxwell": "DoublesidedMaxwell",
    "non_central_chi2": "NoncentralChi2", "flip": "Bernoulli", "bernoulli": "Bernoulli", "categorical": "Categorical",
}


def snake(s):
    out = []
    for i, c in enumerate(s):
        if c.isupper() and i and ((not s[i - 1].isupper()) or (i + 1 < len(s) and s[i + 1].islower())):
            out.append("_")
        out.append(c.lower())
    return "".join(out)


def run(chk, prog):
    m = prog.module(TFP)
    _, fn = prog.func("tfp_distribution", TFP)
    where = f"{m.rel}:{fn.lineno}"
    ev = Evaluator(prog)
    sampler, logpdf = prog.nested(fn, "sampler"), prog.nested(fn, "logpdf")
    env0 = {"dist": P("dist")}
    rs = ev.eval_fn(sampler, m, env0=env0)
    rl = ev.eval_fn(logpdf, m, env0=env0)
    ARGS, KW = ("star", P("args")), P("kwargs")
    d = ("call", P("dist"), (ARGS,), (("**", KW),))
    oks = is_mcall(rs.ret, "sample") and rs.ret[1][1] == d and dict(rs.ret[3]).get("seed") == P("key")
    chk.require(oks, "SIBLING-DENSITY", "tfp_distribution.sampler", "dist(*args, **kwargs).sample(seed=key, ...)", derived=show(rs.ret)[:200], expected="dist(*args, **kwargs).sample(seed=key, sample_shape=...)", where=where)
    okl = rl.ret == ("call", ("attr", d, "log_prob"), (P("v"),), ())
    chk.require(okl, "SIBLING-DENSITY", "tfp_distribution.logpdf", "log_prob of the distribution built from the same (dist, args, kwargs)", derived=show(rl.ret)[:200], expected="dist(*args, **kwargs).log_prob(v)", where=where)
    pop = lambda r: [e for e in (r.env.get("__effects__", []) + list(subterms(r.ret))) if is_mcall(e, "pop") and e[1][1] == KW and e[2] and e[2][0] == C("sample_shape")]
    ssamp = [x for x in subterms(rs.ret) if is_mcall(x, "pop") and x[1][1] == KW and x[2] and x[2][0] == C("sample_shape")]
    chk.require(len(pop(rl)) >= 1 and len(ssamp) >= 1, "SIBLING-DENSITY", "tfp_distribution/sample_shape", "both drop sample_shape before constructing the distribution",
                derived=f"sampler pops: {len(ssamp)}; logpdf pops: {len(pop(rl))}", expected="kwargs.pop('sample_shape', ()) in both", where=where)
    r = ev.eval_fn(fn, m)
    oke = is_call(r.ret, "exact_density") and len(r.ret[2]) == 3 and ev.closure_of(r.ret[2][0]) is not None and ev.closure_of(r.ret[2][0]).node is sampler and ev.closure_of(r.ret[2][1]).node is logpdf
    chk.require(oke, "SIBLING-DENSITY", "tfp_distribution/pairing", "exact_density(sampler, logpdf, name)", derived=show(r.ret)[:160], expected="sampler first, logpdf second", where=where)
    # ---- exact_density / kwargle
    dm = prog.module(DM)
    _, ed = prog.func("exact_density", DM)
    kw = prog.nested(ed, "kwargle")
    rk = Evaluator(prog).eval_fn(kw, dm)
    # the packed form is recognised by BOTH tests (a 2-sequence whose second item is a dict); every other outcome of the tests passes the arguments through
    F_, A0, AR, KWA = P("f"), P("a0"), P("args"), P("kwargs")
    is_len2 = lambda t: t == mk_cmp("==", ("call", G("len"), (AR,), ()), C(2))
    is_dict1 = lambda t: is_t(t, "isinst") and t[1] == mk_proj(AR, 1) and t[2] == "dict"
    flat = lambda conds: [(x, p) for t, p in conds for x in (t[2] if is_t(t, "bool") and t[1] == "and" and p else (t,)) for p in (p,)]
    got = Arms()
    for conds, ret in scenarios(rk.ret):
        fc = flat(conds)
        packed = any(p and is_len2(t) for t, p in fc) and any(p and is_dict1(t) for t, p in fc)
        got["packed" if packed else "plain"] = ret
    okp = got.get("packed") == ("call", F_, (A0, ("star", mk_proj(AR, 0))), (("**", mk_proj(AR, 1)),)) and got.get("plain") == ("call", F_, (A0, ("star", AR)), (("**", KWA),))
    chk.require(okp, "SIBLING-DENSITY", "exact_density.kwargle", "(args, kwargs) pair is unpacked; otherwise passed through", derived={k: show(v) for k, v in got.items()}.__str__(),
                expected="f(a0, *args[0], **args[1]) for the packed form, f(a0, *args, **kwargs) otherwise", where=f"{dm.rel}:{kw.lineno}")
    # the dynamic class routes sample -> kwargle(sample, key, ...) and logpdf -> kwargle(logpdf, v, ...)
    tcall = [n for n in ast.walk(ed) if isinstance(n, ast.Call) and isinstance(n.func, ast.Name) and n.func.id == "type"]
    okt = False
    der = "type(...) call not found"
    if tcall and len(tcall[0].args) == 3 and isinstance(tcall[0].args[2], ast.Dict):
        dd = {k.value: v for k, v in zip(tcall[0].args[2].keys, tcall[0].args[2].values) if isinstance(k, ast.Constant)}
        def routed(lam, fname, first):
            return isinstance(lam, ast.Lambda) and isinstance(lam.body, ast.Call) and ast.unparse(lam.body.func) == "kwargle" and [ast.unparse(a) for a in lam.body.args] == [fname, first, "args", "kwargs"]
        okt = routed(dd.get("sample"), "sample", "key") and routed(dd.get("logpdf"), "logpdf", "v") and ast.unparse(tcall[0].args[1]) == "(ExactDensity,)"
        der = {k: ast.unparse(v)[:80] for k, v in dd.items()}.__str__()
    chk.require(okt, "SIBLING-DENSITY", "exact_density/type", "sample and logpdf routed through kwargle symmetrically", derived=der, expected="sample: kwargle(sample, key, args, kwargs); logpdf: kwargle(logpdf, v, args, kwargs); base ExactDensity", where=f"{dm.rel}:{ed.lineno}")
    # ---- implicit_logit_warning
    _, il = prog.func("implicit_logit_warning", DM)
    wr = prog.nested(il, "wrapper")
    rw = Evaluator(prog).eval_fn(wr, dm, env0={"dist": P("dist")})
    got = Arms()
    for conds, ret in rw.returns:
        # path conditions are in canonical polarity: `if implicit_logits is not None` is recorded as (implicit_logits is None, False)
        got["bare" if any(is_t(t, "is") and t[2] == C(None) and not p for t, p in conds) else "kw"] = ret
    okw = got.get("bare") == ("call", P("dist"), (), (("**", P("kwargs")), ("logits", P("implicit_logits")))) and got.get("kw") == ("call", P("dist"), (), (("**", P("kwargs")),))
    chk.require(okw, "SIBLING-DENSITY", "implicit_logit_warning", "a bare parameter is the logits", derived={k: show(v) for k, v in got.items()}.__str__(), expected="dist(logits=implicit_logits, **kwargs) / dist(**kwargs)", where=f"{dm.rel}:{wr.lineno}")
    # ---- registry
    n = 0
    for name, val in m.assigns.items():
        if not (isinstance(val, ast.Call) and ast.unparse(val.func) == "tfp_distribution" and val.args):
            continue
        a = val.args[0]
        n += 1
        if isinstance(a, ast.Attribute) and ast.unparse(a.value) == "tfd":
            cls = a.attr
        elif isinstance(a, ast.Call) and ast.unparse(a.func) == "implicit_logit_warning" and a.args and isinstance(a.args[0], ast.Attribute):
            cls = a.args[0].attr
        elif isinstance(a, ast.Lambda) and isinstance(a.body, ast.Call) and isinstance(a.body.func, ast.Attribute):
            cls = a.body.func.attr
        else:
            cls = "?"
        want = ALIASES.get(name) or None
        ok = (cls == want) if want else (snake(cls) == name)
        chk.require(ok, "REGISTRY-NAMES", name, f"{name} -> tfd.{cls}", derived=f"{name} = {ast.unparse(val)[:100]}", expected=f"tfd.{want}" if want else f"the TFP class whose snake_case name is {name}", where=f"{m.rel}:{val.lineno}")
        if name == "flip":
            kws = {k.arg: ast.unparse(k.value) for k in a.body.keywords} if isinstance(a, ast.Lambda) else {}
            okf = isinstance(a, ast.Lambda) and [x.arg for x in a.args.args] == ["p"] and kws.get("probs") == "p" and kws.get("dtype") in ("jnp.bool_", "bool")
            chk.require(okf, "REGISTRY-NAMES", "flip/params", "Bernoulli(probs=p, dtype=bool)", derived=ast.unparse(a)[:120], expected="lambda p: tfd.Bernoulli(probs=p, dtype=jnp.bool_)", where=f"{m.rel}:{val.lineno}")
        if name in ("bernoulli", "categorical"):
            chk.require(isinstance(a, ast.Call) and ast.unparse(a.func) == "implicit_logit_warning", "REGISTRY-NAMES", f"{name}/logits", "bare argument means logits", derived=ast.unparse(a)[:100], expected="implicit_logit_warning(tfd.X)", where=f"{m.rel}:{val.lineno}")
    chk.floor("tfp wrapper bindings", n, 46)
    # public re-export binds the same objects
    pub = prog.module("genjax/generative_functions/distributions/__init__.py".replace("genjax/", "", 1)) if False else prog.modules.get("generative_functions/distributions/__init__.py")
    if pub is None:
        raise AnalysisError("public distributions package not found")
    prog.consulted.add(pub.rel)
    bad = [k for k, v in pub.imports.items() if k in m.assigns and not v.endswith("tensorflow_probability." + k)]
    missing = [k for k in m.assigns if isinstance(m.assigns[k], ast.Call) and ast.unparse(m.assigns[k].func) == "tfp_distribution" and k not in pub.imports]
    chk.require(not bad, "REGISTRY-NAMES", "public re-export", "exported names bind the wrapper objects", derived=f"rebound: {bad}; not re-exported: {missing}", expected="every exported distribution name imported from the tfp wrapper module", where=pub.rel)
    # ---- base cases shared with the GFI oracle
    obs = Obs()
    distribution.analyse(obs, prog)
    k = 0
    for o in obs.items:
        if "C24" in o["props"] or (o["instance"].startswith(("Distribution.", "ExactDensity.")) and o["rule"] in ("TRACE-SCORE", "WEIGHT-UPD", "WEIGHT-GEN", "SCORE-AGG", "ASSESS-AGREE", "WEIGHT-REGEN", "TRACE-ARGS", "REGEN-PRIOR")):
            k += 1
            chk.require(o["ok"], o["rule"], o["instance"], o["construct"], derived=o["derived"], expected=o["expected"], where=o["where"])
    chk.floor("base-case obligations", k, 30)
    chk.explanation = "sibling agreement of sampler/logpdf construction, routing of keyword/positional arguments, name registry against TFP class names, and the base-case score/weight obligations"
