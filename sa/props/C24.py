"""C24 - distribution wrappers agree with their TFP densities.

Decided: SIBLING-DENSITY (tfp_distribution's sampler and logpdf construct dist(*args, **kwargs) identically after both drop `sample_shape`; logpdf returns
log_prob(v) of that distribution; the sampler passes seed=key); exact_density's kwargle routes (args, kwargs) identically for sample and logpdf so keyword and
positional invocations reach the same constructor call; implicit_logit_warning sends a bare parameter to logits=; flip builds Bernoulli(probs=p, dtype=bool);
REGISTRY-NAMES (each documented binding wraps the TFP class of the same name; the public re-export table binds the same objects); base GFI cases give
"score and weights are the summed log_prob" (obligations shared with C02/C03/C05).  Not decided: numeric agreement, supports, dtypes produced by TFP.
"""
import ast
import re

from ..gfi import distribution
from ..gfi.common import Obs
from ..program import AnalysisError
from ..rules import Arms, is_call, is_mcall, mcalls, mentions
from ..terms import C, Evaluator, G, P, is_t, mk_cmp, mk_elem, mk_proj, scenarios, show, subterms

TFP = "distributions/tensorflow_probability/__init__.py"
DM = "distributions/distribution.py"

# irregular names (frozen alias table): exported name -> TFP class
ALIASES = {
    "mv_normal": "MultivariateNormalFullCovariance", "mv_normal_diag": "MultivariateNormalDiag", "double_sided_maxwell": "DoublesidedMaxwell",
    "non_central_chi2": "NoncentralChi2", "flip": "Bernoulli", "bernoulli": "Bernoulli", "categorical": "Categorical",
}


def snake(s):
    out = []
    for i, c in enumerate(s):
        if c.isupper() and i and ((not s[i - 1].isupper()) or (i + 1 < len(s) and s[i + 1].islower())):
            out.append("_")
        out.append(c.lower())
    return "".join(out)


def run(chk, prog):
    m = prog.module(TFP)
    _, fn = prog.func("tfp_distribution", TFP)
    where = f"{m.rel}:{fn.lineno}"
    ev = Evaluator(prog)
    # the pair handed to exact_density, evaluated in the environment they close over (local helpers shared by the two are seen through)
    r = ev.eval_fn(fn, m)
    oke = is_call(r.ret, "exact_density") and len(r.ret[2]) == 3 and ev.closure_of(r.ret[2][0]) is not None and ev.closure_of(r.ret[2][1]) is not None
    chk.require(oke, "SIBLING-DENSITY", "tfp_distribution/pairing", "exact_density(sampler, logpdf, name)", derived=show(r.ret)[:160], expected="sampler first, logpdf second", where=where)
    if not oke:
        raise AnalysisError("tfp_distribution does not return exact_density(<sampler>, <logpdf>, name)")
    cs_, cl_ = ev.closure_of(r.ret[2][0]), ev.closure_of(r.ret[2][1])
    sampler, logpdf = cs_.node, cl_.node
    rs = ev.eval_fn(sampler, m, env0=dict(cs_.env))
    rl = ev.eval_fn(logpdf, m, env0=dict(cl_.env))
    ARGS, KW = ("star", P("args")), P("kwargs")
    SS = C("sample_shape")

    def dist_of(t, meth):
        """the distribution object whose `meth` is called: dist(*args, **K) with K = kwargs without sample_shape"""
        if not (is_mcall(t, meth) and is_t(t[1][1], "call") and t[1][1][1] == P("dist") and t[1][1][2] == (ARGS,)):
            return None, None
        return t[1][1], dict(t[1][1][3]).get("**")

    def drops_shape(K, res):
        """sample_shape does not reach the constructor: popped from kwargs beforehand, or filtered out of a copy"""
        if K == KW:
            return any(is_mcall(e, "pop") and e[1][1] == KW and e[2] and e[2][0] == SS for e in res.env.get("__effects__", []) + list(subterms(res.ret)))
        if is_t(K, "dictfam") and K[2:] == mk_elem(("items", KW))[1]:
            it_ = K[1]
            conds = it_[1] if is_t(it_, "tuple") is False and isinstance(it_, tuple) and len(it_) == 2 and isinstance(it_[1], tuple) and it_[0] in (KW, ("items", KW)) else ()
            return any(c_ in (mk_cmp("!=", ("elem", KW), SS), ("un", "not", mk_cmp("==", ("elem", KW), SS))) for c_ in conds)
        return False

    ds_, Ks_ = dist_of(rs.ret, "sample")
    dl_, Kl_ = dist_of(rl.ret, "log_prob")
    shp = dict(rs.ret[3]).get("sample_shape") if ds_ is not None else None
    src_ok = is_call(shp, "unwrap") and len(shp[2]) == 1 and (is_mcall(shp[2][0], "pop") or is_mcall(shp[2][0], "get")) and shp[2][0][1][1] == KW and shp[2][0][2][:1] == (SS,)
    oks = ds_ is not None and dict(rs.ret[3]).get("seed") == P("key") and src_ok
    chk.require(oks, "SIBLING-DENSITY", "tfp_distribution.sampler", "dist(*args, **kwargs).sample(seed=key, ...)", derived=show(rs.ret)[:200], expected="dist(*args, **kwargs).sample(seed=key, sample_shape=Const.unwrap(kwargs' sample_shape))", where=where)
    okl = dl_ is not None and rl.ret[2] == (P("v"),) and not rl.ret[3] and dl_ == ds_
    chk.require(okl, "SIBLING-DENSITY", "tfp_distribution.logpdf", "log_prob of the distribution built from the same (dist, args, kwargs)", derived=show(rl.ret)[:200], expected="the sampler's distribution object .log_prob(v)", where=where)
    okd = ds_ is not None and dl_ is not None and drops_shape(Ks_, rs) and drops_shape(Kl_, rl)
    chk.require(okd, "SIBLING-DENSITY", "tfp_distribution/sample_shape", "both drop sample_shape before constructing the distribution",
                derived=f"sampler kwargs: {show(Ks_)[:80]}; logpdf kwargs: {show(Kl_)[:80]}", expected="kwargs.pop('sample_shape', ()) in both (or a filtered copy of kwargs)", where=where)
    # ---- exact_density / kwargle
    dm = prog.module(DM)
    _, ed = prog.func("exact_density", DM)
    # decided on the members of the dynamically created class: for `sample` (first operand key) and `logpdf` (first operand v) alike, the (args, kwargs)
    # PACKAGE - recognised by BOTH tests, a 2-sequence whose second item is a dict - is unpacked, every other argument list is passed through; however the
    # unpacking is spelled (a shared helper called with the function, a helper returning the pair, inline)
    evd = Evaluator(prog)
    rd = evd.eval_fn(ed, dm)
    tcalls = [x for x in subterms(rd.ret) if is_t(x, "call") and x[1] == G("type") and len(x[2]) == 3]
    okt, der, okp, got_all = False, "type(name, (ExactDensity,), {...}) not found", False, {}
    if len(tcalls) == 1 and is_t(tcalls[0][2][2], "dict"):
        members = {k[1]: v for k, v in tcalls[0][2][2][1] if is_t(k, "const")}
        base_ok = is_t(tcalls[0][2][1], "tuple") and len(tcalls[0][2][1][1]) == 1 and is_t(tcalls[0][2][1][1][0], "global") and tcalls[0][2][1][1][0][1].endswith("ExactDensity")
        okt = base_ok and all(evd.closure_of(members.get(k_)) is not None for k_ in ("sample", "logpdf"))
        der = f"members {sorted(members)}; base {show(tcalls[0][2][1])}"
        if okt:
            okp = True
            for mem, fpar in (("sample", "sample"), ("logpdf", "logpdf")):
                clo = evd.closure_of(members[mem])
                node = clo.node
                pn = [a_.arg for a_ in node.args.args]
                if len(pn) != 2 or node.args.vararg is None or node.args.kwarg is None:
                    okp = False
                    continue
                rm = evd.eval_fn(node, dm, env0=dict(clo.env))
                F_, A0, AR, KWA = P(fpar), P(pn[1]), P(node.args.vararg.arg), P(node.args.kwarg.arg)
                is_len2 = lambda t: t == mk_cmp("==", ("call", G("len"), (AR,), ()), C(2))
                is_dict1 = lambda t: is_t(t, "isinst") and t[1] == mk_proj(AR, 1) and t[2] == "dict"

                def lits(c, pol):
                    """literals certainly true on this path: a true conjunction gives its parts, a false disjunction the negated parts"""
                    if is_t(c, "bool") and ((c[1] == "and" and pol) or (c[1] == "or" and not pol)):
                        return [l for x in c[2] for l in lits(x, pol)]
                    if is_t(c, "un") and c[1] == "not":
                        return lits(c[2], not pol)
                    if is_t(c, "cmp") and c[1] == "!=":
                        return lits(mk_cmp("==", c[2], c[3]), not pol)
                    return [(c, pol)]
                got = Arms()
                for conds, ret in scenarios(rm.ret):
                    fc = [l for c, pol in conds for l in lits(c, pol)]
                    packed = any(p and is_len2(t) for t, p in fc) and any(p and is_dict1(t) for t, p in fc)
                    got["packed" if packed else "plain"] = ret
                got_all[mem] = {k: show(v)[:90] for k, v in got.items()}
                okp = okp and got.get("packed") == ("call", F_, (A0, ("star", mk_proj(AR, 0))), (("**", mk_proj(AR, 1)),)) and got.get("plain") == ("call", F_, (A0, ("star", AR)), (("**", KWA),))
    chk.require(okp, "SIBLING-DENSITY", "exact_density.kwargle", "(args, kwargs) pair is unpacked; otherwise passed through", derived=str(got_all)[:400],
                expected="f(a0, *args[0], **args[1]) for the packed form, f(a0, *args, **kwargs) otherwise - for sample(key, ..) and logpdf(v, ..) alike", where=f"{dm.rel}:{ed.lineno}")
    chk.require(okt, "SIBLING-DENSITY", "exact_density/type", "sample and logpdf are members of a class derived from ExactDensity", derived=der, expected="type(name, (ExactDensity,), {'sample': .., 'logpdf': .., 'handle_kwargs': ..})", where=f"{dm.rel}:{ed.lineno}")
    # ---- implicit_logit_warning
    _, il = prog.func("implicit_logit_warning", DM)
    wr = prog.nested(il, "wrapper")
    rw = Evaluator(prog).eval_fn(wr, dm, env0={"dist": P("dist")})
    got = Arms()
    for conds, ret in rw.returns:
        # path conditions are in canonical polarity: `if implicit_logits is not None` is recorded as (implicit_logits is None, False)
        got["bare" if any(is_t(t, "is") and t[2] == C(None) and not p for t, p in conds) else "kw"] = ret
    okw = got.get("bare") == ("call", P("dist"), (), (("**", P("kwargs")), ("logits", P("implicit_logits")))) and got.get("kw") == ("call", P("dist"), (), (("**", P("kwargs")),))
    chk.require(okw, "SIBLING-DENSITY", "implicit_logit_warning", "a bare parameter is the logits", derived={k: show(v) for k, v in got.items()}.__str__(), expected="dist(logits=implicit_logits, **kwargs) / dist(**kwargs)", where=f"{dm.rel}:{wr.lineno}")
    # ---- registry
    n = 0
    for name, val in m.assigns.items():
        if not (isinstance(val, ast.Call) and ast.unparse(val.func) == "tfp_distribution" and val.args):
            continue
        a = val.args[0]
        n += 1
        if isinstance(a, ast.Attribute) and ast.unparse(a.value) == "tfd":
            cls = a.attr
        elif isinstance(a, ast.Call) and ast.unparse(a.func) == "implicit_logit_warning" and a.args and isinstance(a.args[0], ast.Attribute):
            cls = a.args[0].attr
        elif isinstance(a, ast.Lambda) and isinstance(a.body, ast.Call) and isinstance(a.body.func, ast.Attribute):
            cls = a.body.func.attr
        else:
            cls = "?"
        want = ALIASES.get(name) or None
        ok = (cls == want) if want else (snake(cls) == name)
        chk.require(ok, "REGISTRY-NAMES", name, f"{name} -> tfd.{cls}", derived=f"{name} = {ast.unparse(val)[:100]}", expected=f"tfd.{want}" if want else f"the TFP class whose snake_case name is {name}", where=f"{m.rel}:{val.lineno}")
        if name == "flip":
            kws = {k.arg: ast.unparse(k.value) for k in a.body.keywords} if isinstance(a, ast.Lambda) else {}
            okf = isinstance(a, ast.Lambda) and [x.arg for x in a.args.args] == ["p"] and kws.get("probs") == "p" and kws.get("dtype") in ("jnp.bool_", "bool")
            chk.require(okf, "REGISTRY-NAMES", "flip/params", "Bernoulli(probs=p, dtype=bool)", derived=ast.unparse(a)[:120], expected="lambda p: tfd.Bernoulli(probs=p, dtype=jnp.bool_)", where=f"{m.rel}:{val.lineno}")
        if name in ("bernoulli", "categorical"):
            chk.require(isinstance(a, ast.Call) and ast.unparse(a.func) == "implicit_logit_warning", "REGISTRY-NAMES", f"{name}/logits", "bare argument means logits", derived=ast.unparse(a)[:100], expected="implicit_logit_warning(tfd.X)", where=f"{m.rel}:{val.lineno}")
    chk.floor("tfp wrapper bindings", n, 46)
    # public re-export binds the same objects
    pub = prog.module("genjax/generative_functions/distributions/__init__.py".replace("genjax/", "", 1)) if False else prog.modules.get("generative_functions/distributions/__init__.py")
    if pub is None:
        raise AnalysisError("public distributions package not found")
    prog.consulted.add(pub.rel)
    bad = [k for k, v in pub.imports.items() if k in m.assigns and not v.endswith("tensorflow_probability." + k)]
    missing = [k for k in m.assigns if isinstance(m.assigns[k], ast.Call) and ast.unparse(m.assigns[k].func) == "tfp_distribution" and k not in pub.imports]
    chk.require(not bad, "REGISTRY-NAMES", "public re-export", "exported names bind the wrapper objects", derived=f"rebound: {bad}; not re-exported: {missing}", expected="every exported distribution name imported from the tfp wrapper module", where=pub.rel)
    # ---- base cases shared with the GFI oracle
    obs = Obs()
    distribution.analyse(obs, prog)
    k = 0
    for o in obs.items:
        if "C24" in o["props"] or (o["instance"].startswith(("Distribution.", "ExactDensity.")) and o["rule"] in ("TRACE-SCORE", "WEIGHT-UPD", "WEIGHT-GEN", "SCORE-AGG", "ASSESS-AGREE", "WEIGHT-REGEN", "TRACE-ARGS", "REGEN-PRIOR")):
            k += 1
            chk.require(o["ok"], o["rule"], o["instance"], o["construct"], derived=o["derived"], expected=o["expected"], where=o["where"])
    chk.floor("base-case obligations", k, 30)
    chk.explanation = "sibling agreement of sampler/logpdf construction, routing of keyword/positional arguments, name registry against TFP class names, and the base-case score/weight obligations"
