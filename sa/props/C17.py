"""C17 - choice map queries agree with a finite-map model (structural clauses only).

Decided: CHM-LEFTBIAS (Or.build returns c1 when c2 is empty and vice versa; Static.merge_with applies merge(c1-sub, c2-sub); Choice|Choice is Mask(a) | Mask(b) with a
from the left; Switch arms keep operand order; _ChoiceMapBuilder.set puts the new entry on the left; | / merge / + dispatch with operands in order);
CHM-RECURSE (each class's filter recurses into every child with selection(addr) under a static key and the UNCHANGED selection under an index level; get_inner_map
likewise; get_submap folds get_inner_map over the flattened address); CHM-MASK / CHM-INDEX (shared with C35); extend nests first component outermost;
CHM-SEL-TRANSPARENT (a level that filter passes a selection through unchanged must also be passed through when the map's own selection is formed);
ChmSel (shared with C18); lookups (__getitem__, __contains__).
Not decided: the full finite-map equivalence over the construction grammar (a bounded-exhaustive behavioural claim; declined).
"""
from ..program import AnalysisError
from ..rules import Arms, is_call, is_mcall, mentions, mentions_any
from ..terms import C, Evaluator, G, P, is_t, mk_elem, mk_proj, show, subterms, mk_cmp, mk_phi
from .C35 import chm_mask_rules

CM = "core/generative/choice_map.py"
SELF = P("self")


def leaves(t):
    return leaves(t[2]) + leaves(t[3]) if is_t(t, "phi") else [t]


def run(chk, prog):
    ev = Evaluator(prog)
    ev.opaque_methods |= {"get_submap", "get_selection", "get_value", "has_value"}
    ev.opaque_funcs |= {"_validate_addr"}
    W = lambda c, m: f"{c.module.rel}:{c.methods[m].lineno}"
    K = {n: prog.cls(n, CM) for n in ("ChoiceMap", "Choice", "Indexed", "Static", "Switch", "Or", "_ChoiceMapBuilder")}
    C1, C2, SEL, ADDR = P("c1"), P("c2"), P("selection"), P("addr")
    # ---------------------------------------------------------------- Or.build (left bias)
    o = K["Or"]
    r = ev.eval_fn(o.methods["build"], o.module, o)
    arms = Arms()
    for conds, ret in r.returns:
        pos = [t for t, p in conds if p]
        emp2 = any(is_mcall(t, "static_is_empty") and t[1][1] == C2 for t in pos)
        emp1 = any(is_mcall(t, "static_is_empty") and t[1][1] == C1 for t in pos)
        kinds = tuple(sorted((show(t[1]), t[2]) for t in pos if is_t(t, "isinst")))
        for t in pos:
            if is_t(t, "bool") and t[1] == "and":
                kinds = tuple(sorted((show(x[1]), x[2]) for x in t[2] if is_t(x, "isinst")))
        key = "c2-empty" if emp2 else "c1-empty" if emp1 else (kinds or "default")
        arms[key] = ret
    w = W(o, "build")
    chk.require(arms.get("c2-empty") == C1 and arms.get("c1-empty") == C2, "CHM-LEFTBIAS", "Or.build/empty", "an empty side is dropped", derived=f"c2 empty -> {show(arms.get('c2-empty'))}; c1 empty -> {show(arms.get('c1-empty'))}", expected="c1 / c2", where=w)
    ss = arms.get((("c1", "Static"), ("c2", "Static")))
    chk.require(is_call(ss, "merge_with") and ss[2][1:] == (C1, C2), "CHM-LEFTBIAS", "Or.build/static-static", "key-wise merge with c1 on the left", derived=show(ss)[:160], expected="Static.merge_with(or_, c1, c2)", where=w)
    cc = arms.get((("c1", "Choice"), ("c2", "Choice")))
    mb = lambda x: ("call", ("attr", G("genjax._src.core.generative.functional_types.Mask"), "build"), (x,), ())
    okcc = is_call(cc, "build") and cc[2] == (("bin", "|", mb(("attr", C1, "v")), mb(("attr", C2, "v"))),)
    chk.require(okcc, "CHM-LEFTBIAS", "Or.build/choice-choice", "left value wins where both are valid", derived=show(cc)[:200], expected="Choice.build(Mask.build(a) | Mask.build(b)) with a from c1", where=w)
    s1 = arms.get((("c1", "Switch"),))
    s2 = arms.get((("c2", "Switch"),))
    def sw_ok(t, side):
        if not (is_call(t, "build") and len(t[2]) == 2 and is_t(t[2][1], "fam")):
            return False
        body, it = t[2][1][2], t[2][1][1]
        e = mk_elem(it)
        return body == (("bin", "|", e, C2) if side == 1 else ("bin", "|", C1, e)) and it == ("attr", (C1 if side == 1 else C2), "chms")
    chk.require(sw_ok(s1, 1) and sw_ok(s2, 2), "CHM-LEFTBIAS", "Or.build/switch", "the union is pushed into every branch with operand order kept", derived=f"{show(s1)[:120]} ; {show(s2)[:120]}", expected="[c | c2 for c in c1.chms] / [c1 | c for c in c2.chms]", where=w)
    chk.require(arms.get("default") == ("ctor", "Or", (C1, C2), ()), "CHM-LEFTBIAS", "Or.build/default", "constructor keeps operand order", derived=show(arms.get("default")), expected="Or(c1, c2)", where=w)
    r = ev.eval_fn(o.methods["filter"], o.module, o)
    f1, f2 = (("call", ("attr", ("attr", SELF, n), "filter"), (SEL,), ()) for n in ("c1", "c2"))
    chk.require(r.ret == ("bin", "|", f1, f2), "CHM-RECURSE", "Or.filter", "both sides filtered, order kept", derived=show(r.ret), expected="self.c1.filter(selection) | self.c2.filter(selection)", where=W(o, "filter"))
    r = ev.eval_fn(o.methods["get_inner_map"], o.module, o)
    g1, g2 = (("call", ("attr", ("attr", SELF, n), "get_inner_map"), (ADDR,), ()) for n in ("c1", "c2"))
    chk.require(r.ret == ("bin", "|", g1, g2), "CHM-RECURSE", "Or.get_inner_map", "both sides looked up, order kept", derived=show(r.ret), expected="self.c1.get_inner_map(addr) | self.c2.get_inner_map(addr)", where=W(o, "get_inner_map"))
    # ---------------------------------------------------------------- Static
    s = K["Static"]
    import ast

    evm = Evaluator(prog)
    rm = evm.eval_fn(s.methods["merge_with"], s.module, s)
    t = rm.ret
    # the merged dictionary, as (iterable, key, value): a loop of `d[key] = v` assignments or a dict comprehension
    okm2, why_ = False, "result is not Static.build(<dict over the keys>)"
    if is_call(t, "build") and len(t[2]) == 1 and (is_t(t[2][0], "loop") or is_t(t[2][0], "dictfam")):
        d_ = t[2][0]
        if is_t(d_, "loop"):
            _, it_, init_, body_ = d_
            k_ = mk_elem(it_)

            def val_(x):
                if is_t(x, "phi"):
                    a_, b_ = val_(x[2]), val_(x[3])
                    return None if a_ is None or b_ is None else ("phi", x[1], a_, b_)
                return x[3] if is_t(x, "setitem") and x[1] == init_ and x[2] == k_ else None

            value_ = val_(body_) if init_ == ("dict", ()) else None
        else:
            _, it_, key_, value_ = d_
            k_ = mk_elem(it_)
            value_ = value_ if key_ == k_ else None
        kset = lambda c_: ("call", G("set"), (("call", ("attr", ("attr", c_, "mapping"), "keys"), (), ()),), ())
        sub_ = lambda c_: ("call", c_, (k_,), ())

        def member_(c):
            """k in <keys of c1 / c2> -> 1 / 2"""
            if is_t(c, "cmp") and c[1] in ("in", "not in") and c[2] == k_:
                for n_, c_ in ((1, C1), (2, C2)):
                    if c[3] in (("attr", c_, "mapping"), kset(c_), ("call", ("attr", ("attr", c_, "mapping"), "keys"), (), ())):
                        return n_, c[1] == "in"
            return None

        def truth_(test, asg):
            if is_t(test, "bool"):
                vs = [truth_(x, asg) for x in test[2]]
                if any(v is None for v in vs):
                    return None
                return all(vs) if test[1] == "and" else any(vs)
            if is_t(test, "un") and test[1] == "not":
                v = truth_(test[2], asg)
                return None if v is None else not v
            m = member_(test)
            if m is None:
                return None
            return asg[m[0]] if m[1] else not asg[m[0]]

        def pick_(x, asg):
            while is_t(x, "phi"):
                v = truth_(x[1], asg)
                if v is None:
                    return None
                x = x[2] if v else x[3]
            return x

        if value_ is None:
            why_ = "entries are not stored at the key being visited"
        elif it_ != ("bin", "|", kset(C1), kset(C2)) and it_ != ("bin", "|", kset(C2), kset(C1)):
            why_ = "the keys visited are not keys(c1) | keys(c2)"
        else:
            # the three feasible membership cases of a key of the union, decided by finite evaluation of the entry's decision tree
            want_ = {(True, True): ("call", P("merge"), (sub_(C1), sub_(C2)), ()), (True, False): sub_(C1), (False, True): sub_(C2)}
            bad_ = [f"key in c1={a1}, in c2={a2}: {show(pick_(value_, {1: a1, 2: a2}))[:80]}" for (a1, a2), w_ in want_.items() if pick_(value_, {1: a1, 2: a2}) != w_]
            okm2, why_ = not bad_, "; ".join(bad_)
    chk.require(okm2, "CHM-LEFTBIAS", "Static.merge_with", "shared keys merged with c1's sub-map on the left, at the same key", derived=(why_ + " :: " if not okm2 else "") + show(t)[:300], expected="for key in keys(c1) | keys(c2): merge(c1.get_submap(key), c2.get_submap(key)) if in both, else the side that has it", where=W(s, "merge_with"))
    r = ev.eval_fn(s.methods["filter"], s.module, s)
    t = r.ret
    keys = ("attr", SELF, "mapping")
    a = mk_elem(keys)
    okf = is_call(t, "build") and is_t(t[2][0], "dictfam") and t[2][0][1] == keys and t[2][0][2] == a and is_mcall(t[2][0][3], "filter") and t[2][0][3][1][1] == ("call", ("attr", SELF, "get_submap"), (a,), ())
    sub = t[2][0][3][2][0] if okf else None
    oksub = okf and leaves(sub) and any(x == ("call", SEL, (a,), ()) for x in leaves(sub)) and any(x == SEL for x in leaves(sub)) and len(leaves(sub)) == 2
    chk.require(bool(oksub), "CHM-RECURSE", "Static.filter", "every key filtered with selection(addr); a flag passes unchanged", derived=show(t)[:260], expected="Static.build({addr: self.get_submap(addr).filter(selection(addr) | flag) for every addr})", where=W(s, "filter"))
    r = ev.eval_fn(s.methods["get_inner_map"], s.module, s)
    got = Arms()
    if is_t(r.ret, "phi") and is_t(r.ret[1], "isinst") and r.ret[1][1] == ADDR:
        got = {"static": r.ret[2], "dynamic": r.ret[3]}
    vget = ("call", ("attr", ("attr", SELF, "mapping"), "get"), (ADDR, ("dict", ())), ())
    okg = got.get("static") == ("phi", ("isinst", vget, "dict"), ("ctor", "Static", (vget,), ()), vget) and is_t(got.get("dynamic"), "treemap") and got["dynamic"][1] == ("index", ("leaf", SELF), ADDR)
    chk.require(okg, "CHM-RECURSE", "Static.get_inner_map", "static key -> that entry (empty if absent); index -> every leaf indexed", derived={k: show(v)[:100] for k, v in got.items()}.__str__(), expected="mapping.get(addr, {}) / tree_map(v -> v[addr], self)", where=W(s, "get_inner_map"))
    r = ev.eval_fn(s.methods["build"], s.module, s)
    okb = is_t(r.ret, "ctor") and r.ret[1] == "Static" and is_t(r.ret[2][0], "dictfam") and any(is_t(x, "un") and x[1] == "not" and is_mcall(x[2], "static_is_empty") for x in subterms(r.ret[2][0][1]))
    if okb:
        df = r.ret[2][0]
        it_ = df[1][0] if isinstance(df[1], tuple) and len(df[1]) == 2 and not isinstance(df[1][0], str) else df[1]
        el_ = mk_elem(it_)
        v_ = mk_proj(el_, 1)
        okb = df[2] == mk_proj(el_, 0) and df[3] == ("phi", ("isinst", v_, "Static"), ("attr", v_, "mapping"), v_)
    chk.require(okb, "CHM-RECURSE", "Static.build", "empty entries dropped", derived=show(r.ret)[:200], expected="{k: unwrap(v) for k, v in d.items() if not v.static_is_empty()}", where=W(s, "build"))
    # ---------------------------------------------------------------- Indexed / Switch
    ix = K["Indexed"]
    r = ev.eval_fn(ix.methods["filter"], ix.module, ix)
    want = ("call", ("attr", ("call", ("attr", ("attr", SELF, "c"), "filter"), (SEL,), ()), "extend"), (("attr", SELF, "addr"),), ())
    transparent = r.ret == want
    chk.require(transparent, "CHM-RECURSE", "Indexed.filter", "index levels are transparent to selections", derived=show(r.ret), expected="self.c.filter(selection).extend(self.addr)", where=W(ix, "filter"))
    r = ev.eval_fn(ix.methods["get_inner_map"], ix.module, ix)
    static_arm = [ret for conds, ret in r.returns if any(is_t(t, "isinst") and p and "str" in t[2] or (is_t(t, "isinst") and p and t[2] == "StaticAddressComponent") for t, p in conds)]
    opaque = len(static_arm) == 1 and is_call(static_arm[0], "empty")
    chk.require(not (transparent and opaque), "CHM-SEL-TRANSPARENT", "Indexed", "Indexed",
                derived="Indexed.filter passes a selection through the index level unchanged, but Indexed.get_inner_map(<static component>) returns the empty map: ChmSel(indexed map).get_subselection selects nothing, so `m.filter(m.get_selection())` and `m & m` are empty",
                expected="a level that filter treats as transparent is also transparent when the map's own selection is formed", where=W(ix, "get_inner_map"))
    r = ev.eval_fn(ix.methods["build"], ix.module, ix)
    outs = [ret for c, ret in r.returns]
    okix = any(ret == ("ctor", "Indexed", (P("chm"), ADDR), ()) for ret in outs) and any(ret == P("chm") for ret in outs) and len(r.raises) >= 1
    chk.require(okix, "CHM-INDEX", "Indexed.build", "empty maps and full slices stay as they are; partial slices raise", derived=str([show(x)[:40] for x in outs]), expected="chm / chm / empty / Indexed(chm, addr)", where=W(ix, "build"))
    # the array-index arm of Indexed.get_inner_map maps `v -> Mask.build(v[i], match[i])` over EVERY pytree leaf of the inner map.  Nodes of the inner map carry
    # structural array leaves that are not values (the `addr` of a nested Indexed level, the `idx` of a Switch): they get indexed and wrapped in a Mask too, so a
    # vmapped builder C[0, i].set(v) or an index level above a traced switch answers lookups with a wrong flag / shape or raises
    rg = ev.eval_fn(ix.methods["get_inner_map"], ix.module, ix)
    generic_map = [ret for conds, ret in rg.returns if is_t(ret, "treemap") and ret[2] == (("attr", SELF, "c"),)]
    structural = []
    for cn, ci in K.items():
        for fld in ci.fields:
            ann = ci.field_ann.get(fld, "")
            if fld in ci.static_fields or "ChoiceMap" in ann or ann in ("Any", "R", "T") or "dict" in ann or "list" in ann:
                continue
            structural.append(f"{cn}.{fld}: {ann}")
    chk.require(not (generic_map and structural), "CHM-INDEX", "Indexed.get_inner_map/structural-leaves", "tree_map over all leaves of the inner map",
                derived=f"array-index arm maps over every leaf of self.c; structural (non-value) array leaves of choice-map nodes: {structural}",
                expected="only the values of Choice leaves are indexed and masked; a nested Indexed.addr / Switch.idx is indexed only along the batch axis and never wrapped in a Mask", where=W(ix, "get_inner_map"))
    sw = K["Switch"]
    r = ev.eval_fn(sw.methods["filter"], sw.module, sw)
    chms, IDX = ("attr", SELF, "chms"), ("attr", SELF, "idx")
    okswf = is_call(r.ret, "build") and r.ret[2] == (IDX, ("fam", chms, ("call", ("attr", mk_elem(chms), "filter"), (SEL,), ())))
    chk.require(okswf, "CHM-RECURSE", "Switch.filter", "every branch filtered with the same selection", derived=show(r.ret)[:200], expected="Switch.build(idx, [chm.filter(selection) for chm in chms])", where=W(sw, "filter"))
    # Switch.build: a concrete index picks the branch's map; a traced index keeps EVERY branch, branch i masked by (i == idx), at its ORIGINAL position
    # (filter / mask / | rebuild through Switch.build(self.idx, ...) and re-enumerate the list: dropping a branch shifts the positions of all later ones)
    rb = ev.eval_fn(sw.methods["build"], sw.module, sw)
    CI = P("chm_iter")
    conc = [t for c_, t in rb.returns if any(is_t(x, "isinst") and p_ and x[2] == "int" for x, p_ in c_)]
    trac = [t for c_, t in rb.returns if any(is_t(x, "isinst") and not p_ and x[2] == "int" for x, p_ in c_)]
    okb1 = len(conc) == 1 and conc[0] == ("index", ("call", ("global", "list"), (CI,), ()), P("idx"))
    want = ("ctor", "Switch", (P("idx"), ("fam", ("enumerate", CI), ("call", ("attr", ("elem", CI), "mask"), (mk_cmp("==", ("enumidx", CI), P("idx")),), ()))), ())
    want2 = ("ctor", "Switch", (P("idx"), ("fam", ("enumerate", CI), ("call", ("attr", ("elem", CI), "mask"), (mk_cmp("==", P("idx"), ("enumidx", CI)),), ()))), ())
    okb2 = len(trac) == 1 and trac[0] in (want, want2)
    chk.require(okb1 and okb2, "CHM-RECURSE", "Switch.build", "branch i masked by (i == idx), every branch kept in place", derived=show(trac[0])[:260] if trac else "no traced-index arm",
                expected="int idx: list(chms)[idx]; traced idx: Switch(idx, [chm.mask(i == idx) for i, chm in enumerate(chms)]) - no branch dropped or reordered", where=W(sw, "build"))
    # a Switch all of whose branches are empty IS the empty map: Static.build drops empty entries and invalid_subset tests static_is_empty(); without the override
    # (base: False) a switch model's own choices are never reported fully valid
    oke_ = "static_is_empty" in sw.methods
    dere_ = "Switch does not override static_is_empty (base returns False)"
    if oke_:
        re_ = ev.eval_fn(sw.methods["static_is_empty"], sw.module, sw)
        dere_ = show(re_.ret)[:160]
        oke_ = is_call(re_.ret, "all") and mentions_any(re_.ret, lambda x: is_mcall(x, "static_is_empty") and x[1][1] == mk_elem(chms))
    chk.require(oke_, "CHM-RECURSE", "Switch.static_is_empty", "emptiness of a switch map", derived=dere_, expected="all(chm.static_is_empty() for chm in self.chms)", where=W(sw, "filter"))
    r = ev.eval_fn(sw.methods["get_inner_map"], sw.module, sw)
    okswg = r.ret == ("ctor", "Switch", (IDX, ("fam", chms, ("call", ("attr", mk_elem(chms), "get_inner_map"), (ADDR,), ()))), ())
    chk.require(okswg, "CHM-RECURSE", "Switch.get_inner_map", "every branch looked up at the same address", derived=show(r.ret)[:200], expected="Switch(idx, [chm.get_inner_map(addr) for chm in chms])", where=W(sw, "get_inner_map"))
    r = ev.eval_fn(sw.methods["get_value"], sw.module, sw)
    okv = any(is_call(x, "or_n") for x in subterms(r.ret)) and mentions_any(r.ret, lambda x: is_t(x, "const") and x[1] is None)
    chk.require(okv, "CHM-RECURSE", "Switch.get_value", "the one valid branch value (masked union); None if no branch has a value", derived=show(r.ret)[:200], expected="Mask.or_n(*[Mask.build(v) for v in values if v is not None]) or None", where=W(sw, "get_value"))
    # ---------------------------------------------------------------- ChoiceMap operators and lookups
    c = K["ChoiceMap"]
    OTHER = P("other")
    for meth, want in (("__or__", ("call", ("attr", G(c.module.dotted + ".Or"), "build"), (SELF, OTHER), ())), ("merge", ("bin", "|", SELF, OTHER)), ("__add__", ("bin", "|", SELF, OTHER)),
                       ("__and__", ("call", ("attr", OTHER, "filter"), (("call", ("attr", SELF, "get_selection"), (), ()),), ())), ("get_selection", ("call", ("attr", G(c.module.dotted + ".ChmSel"), "build"), (SELF,), ()))):
        r = ev.eval_fn(c.methods[meth], c.module, c)
        chk.require(r.ret == want, "CHM-LEFTBIAS", f"ChoiceMap.{meth}", "operands in order", derived=show(r.ret), expected=show(want), where=W(c, meth))
    evs = Evaluator(prog)
    evs.opaque_funcs |= {"_validate_addr"}
    r = evs.eval_fn(c.methods["get_submap"], c.module, c)
    t = r.ret
    okgs = is_t(t, "loop") and t[2] == SELF and is_call(t[1], "_validate_addr") and t[3] == ("call", ("attr", SELF, "get_inner_map"), (mk_elem(t[1]),), ())
    chk.require(okgs, "CHM-RECURSE", "ChoiceMap.get_submap", "left fold of get_inner_map over the flattened address", derived=show(t)[:200], expected="reduce(lambda chm, a: chm.get_inner_map(a), validated flat address, self)", where=W(c, "get_submap"))
    r = ev.eval_fn(c.methods["__getitem__"], c.module, c)
    v = ("call", ("attr", ("call", ("attr", SELF, "get_submap"), (ADDR,), ()), "get_value"), (), ())
    okgi = any(ret == v for _, ret in r.returns) and len(r.raises) == 1 and any(t == ("is", v, C(None)) and p for t, p in r.raises[0][0])
    chk.require(okgi, "CHM-LOOKUP", "ChoiceMap.__getitem__", "the value at the address, or ChoiceMapNoValueAtAddress", derived=show(r.ret)[:160], expected="v = self.get_submap(addr).get_value(); raise if v is None", where=W(c, "__getitem__"))
    r = ev.eval_fn(c.methods["__contains__"], c.module, c)
    chk.require(r.ret == ("call", ("attr", ("call", ("attr", SELF, "get_submap"), (ADDR,), ()), "has_value"), (), ()), "CHM-LOOKUP", "ChoiceMap.__contains__", "has a value at the address", derived=show(r.ret), expected="self.get_submap(addr).has_value()", where=W(c, "__contains__"))
    r = Evaluator(prog, max_depth=0).eval_fn(c.methods["has_value"], c.module, c)
    chk.require(r.ret == ("un", "not", ("is", ("call", ("attr", SELF, "get_value"), (), ()), C(None))), "CHM-LOOKUP", "ChoiceMap.has_value", "value is not None", derived=show(r.ret), expected="self.get_value() is not None", where=W(c, "has_value"))
    r = ev.eval_fn(c.methods["extend"], c.module, c)
    t = r.ret
    okx = is_t(t, "loop") and is_t(t[1], "reversed") and t[1][1] == P("addrs") and t[2] == SELF
    if okx:
        body = t[3]
        lv = leaves(body)
        e = mk_elem(t[1])
        okx = any(is_call(x, "build") and x[2] == (("dict", ((e, SELF),)),) for x in lv) and any(is_call(x, "build") and x[2] == (SELF, e) for x in lv)
        okx = okx and is_t(body, "phi") and is_t(body[1], "isinst") and body[1][1] == e and is_call(body[2], "build") and body[2][2] == (("dict", ((e, SELF),)),)
    chk.require(okx, "CHM-RECURSE", "ChoiceMap.extend", "first component outermost; static -> Static level, dynamic -> Indexed level", derived=show(t)[:260], expected="for addr in reversed(addrs): Static.build({addr: acc}) | Indexed.build(acc, addr)", where=W(c, "extend"))
    b = K["_ChoiceMapBuilder"]
    r = ev.eval_fn(b.methods["set"], b.module, b)
    got = Arms()
    entry = None
    for conds, ret in r.returns:
        got["fresh" if any(is_t(t, "is") and p for t, p in conds) else "existing"] = ret
    okb = is_call(got.get("fresh"), "entry") and got.get("existing") == ("bin", "+", got.get("fresh"), ("attr", SELF, "choice_map"))
    chk.require(okb, "CHM-LEFTBIAS", "_ChoiceMapBuilder.set", "the new entry goes on the LEFT of the existing map (it overrides)", derived={k: show(v)[:120] for k, v in got.items()}.__str__(), expected="entry + self.choice_map", where=W(b, "set"))
    chm_mask_rules(chk, prog)
    chk.explanation = "left bias, recursion discipline, mask/index propagation and selection transparency of the five ChoiceMap classes (structural clauses)"
    # `|` on two entries at the same address is Mask.__or__ (left-biased on flags), masks are built by Mask.build and collapsed by Mask.flatten: C19's tables
    from ._share import take
    take(chk, prog, "C19", lambda o: o["instance"].split("/")[0] in ("Mask.__or__", "Mask.build", "Mask.flatten", "Mask.or_n"), "Mask tables used by choice maps (from C19)", 2)
