"""Shared predicates over provenance terms used by the per-property rule instances."""

from __future__ import annotations

from .terms import C, G, P, is_t, show, subterms


def short(t) -> str | None:
    """last dotted component(s) of a callee: global -> 'tree_primal'; Class.static -> 'Diff.tree_primal'"""
    if is_t(t, "global"):
        return t[1].split(".")[-1]
    if is_t(t, "attr"):
        b = short(t[1]) if is_t(t[1], "global") else None
        return (b + "." if b else "") + t[2]
    return None


def is_call(t, *names) -> bool:
    """call whose callee's short name is one of names ('Diff.tree_primal', 'sum', 'tree_primal')"""
    if not is_t(t, "call"):
        return False
    s = short(t[1])
    if s is None:
        return False
    return any(s == n or s.endswith("." + n) or s.split(".")[-1] == n for n in names)


def is_mcall(t, meth: str) -> bool:
    """method call  <obj>.meth(...)"""
    return is_t(t, "call") and is_t(t[1], "attr") and t[1][2] == meth


def mcalls(t, meth: str):
    return list(dict.fromkeys(x for x in subterms(t) if is_mcall(x, meth)))


def calls(t, *names):
    return list(dict.fromkeys(x for x in subterms(t) if is_call(x, *names)))


def recv(t):
    return t[1][1]


def args(t):
    return t[2]


def kw(t, name, default=None):
    for k, v in t[3]:
        if k == name:
            return v
    return default


def mentions(t, sub) -> bool:
    return any(x == sub for x in subterms(t))


def mentions_any(t, pred) -> bool:
    return any(pred(x) for x in subterms(t))


def strip(t, *names):
    """peel wrappers like Diff.tree_primal(x) / jnp.asarray(x) when they match names"""
    while is_call(t, *names) and len(t[2]) >= 1:
        t = t[2][0]
    return t


def self_attr(name):
    return ("attr", P("self"), name)


def inner_edit_calls(t):
    """all calls that run an edit on some trace:
       gen_fn.edit(key, trace, request, argdiffs)  and  request.edit(key, trace, argdiffs)
       -> list of (call_term, key, trace, request, argdiffs)"""
    out = []
    for x in subterms(t):
        if is_mcall(x, "edit"):
            a = x[2]
            if len(a) == 4:
                out.append((x, a[0], a[1], a[2], a[3]))
            elif len(a) == 3:
                out.append((x, a[0], a[1], recv(x), a[2]))
    # dedupe preserving order
    seen, res = set(), []
    for o in out:
        if o[0] not in seen:
            seen.add(o[0])
            res.append(o)
    return res


def ctor_name(t):
    return t[1] if is_t(t, "ctor") else None


def ctors(t, name):
    return list(dict.fromkeys(x for x in subterms(t) if is_t(x, "ctor") and x[1] == name))


def unwrap_primal(t):
    return strip(t, "tree_primal")


def tuple_items(t):
    return list(t[1]) if is_t(t, "tuple") else None


class Arms(dict):
    """arm-class -> returned term, filled from the return arms of a method.  Two arms of one class that return DIFFERENT terms (a refinement inside the
    class, e.g. `val.item() if hasattr(val, 'item') else val`) do not silently overwrite each other: the entry becomes a ('conflict', ...) term, which equals
    no expected term."""

    def __setitem__(self, k, v):
        if k in self and isinstance(self[k], tuple) and isinstance(v, tuple) and self[k] != v:
            v = ("conflict", self[k], v)
        super().__setitem__(k, v)


class Undecided(Exception):
    pass


def pick(t, atom):
    """walk the decision tree `t` (nested joins) deciding every test with atom(test) -> bool (and / or / not are taken apart here); atom raises Undecided
    for a test it does not know.  Returns the leaf reached: finite evaluation of a function's result over an assignment of its atomic tests."""
    def truth(c):
        if isinstance(c, tuple) and c and c[0] == "bool":
            vs = [truth(x) for x in c[2]]
            return all(vs) if c[1] == "and" else any(vs)
        if isinstance(c, tuple) and c and c[0] == "un" and c[1] == "not":
            return not truth(c[2])
        return atom(c)
    while isinstance(t, tuple) and t and t[0] == "phi":
        t = t[2] if truth(t[1]) else t[3]
    return t


def resolve_all(t, atom):
    """t with every join (at any depth: whole value, argument, receiver) decided whose test `atom` can decide; atom(test) -> True / False / None (unknown);
    and / or / not are taken apart here.  The result is renormalised.  Used to read off "what does the function return for THIS kind of input"."""
    from .terms import renorm

    def truth(c):
        if isinstance(c, tuple) and c and c[0] == "bool":
            vs = [truth(x) for x in c[2]]
            if c[1] == "and":
                return False if any(v is False for v in vs) else (None if any(v is None for v in vs) else True)
            return True if any(v is True for v in vs) else (None if any(v is None for v in vs) else False)
        if isinstance(c, tuple) and c and c[0] == "un" and c[1] == "not":
            v = truth(c[2])
            return None if v is None else not v
        return atom(c)

    def go(x):
        if not isinstance(x, tuple):
            return x
        if x and x[0] == "phi" and len(x) == 4:
            v = truth(x[1])
            if v is True:
                return go(x[2])
            if v is False:
                return go(x[3])
        return tuple(go(y) for y in x)
    return renorm(go(t))
