"""E4 - finite-domain evaluation of checker-extracted expressions (constant folding by the checker's own evaluator;
no repository code runs).  Anything outside the whitelist raises Unrecognised."""

from __future__ import annotations

from .terms import is_t


class Unrecognised(Exception):
    pass


def _elem_keys(x):
    """the generic-element terms of an iterable term (mk_elem distributes over joins)"""
    if is_t(x, "phi"):
        return _elem_keys(x[2]) + _elem_keys(x[3])
    return [("elem", x)]


def ev_int(t, env):
    """evaluate an integer / boolean term built from variables in env, constants, + - * % // comparisons, and/or/not, where"""
    if t in env:
        return env[t]
    if is_t(t, "const"):
        return t[1]
    if is_t(t, "bin"):
        a, b = ev_int(t[2], env), ev_int(t[3], env)
        op = t[1]
        if op == "+":
            return a + b
        if op == "-":
            return a - b
        if op == "*":
            return a * b
        if op == "%":
            return a % b
        if op == "//":
            return a // b
        if op == "&":
            return a & b
        if op == "|":
            return a | b
        if op == "^":
            return a ^ b
        raise Unrecognised(op)
    if is_t(t, "un"):
        a = ev_int(t[2], env)
        if t[1] == "-":
            return -a
        if t[1] in ("not", "~"):
            return (not a) if isinstance(a, bool) else ~a
        raise Unrecognised(t[1])
    if is_t(t, "cmp"):
        a, b = ev_int(t[2], env), ev_int(t[3], env)
        if t[1] in ("in", "not in"):
            return (a in b) == (t[1] == "in")
        import operator as _op
        return {"<": _op.lt, "<=": _op.le, ">": _op.gt, ">=": _op.ge, "==": _op.eq, "!=": _op.ne}[t[1]](a, b)
    if is_t(t, "bool"):
        vs = [ev_int(x, env) for x in t[2]]
        return all(vs) if t[1] == "and" else any(vs)
    if is_t(t, "where") or is_t(t, "phi"):
        return ev_int(t[2], env) if ev_int(t[1], env) else ev_int(t[3], env)
    # ---- small tuples (address paths): literals, slices, projections, len / sorted(key=len) / membership
    if is_t(t, "tuple") or is_t(t, "list"):
        if any(is_t(x, "star") for x in t[1]):
            raise Unrecognised("starred tuple")
        vs = [ev_int(x, env) for x in t[1]]
        return tuple(vs) if t[0] == "tuple" else list(vs)
    if is_t(t, "isinst"):
        kinds = {"tuple": tuple, "str": str, "int": int, "list": list, "bool": bool}
        names = t[2].split("|")
        if not all(n in kinds for n in names):
            raise Unrecognised(f"isinstance {t[2]}")
        return isinstance(ev_int(t[1], env), tuple(kinds[n] for n in names))
    if is_t(t, "is"):
        return ev_int(t[1], env) is ev_int(t[2], env)
    if is_t(t, "proj"):
        return ev_int(t[1], env)[t[2]]
    if is_t(t, "slice"):
        return ev_int(t[1], env)[t[2]:t[3]]
    if is_t(t, "index"):
        base = ev_int(t[1], env)
        if is_t(t[2], "sliceobj"):
            lo, hi, st = (ev_int(x, env) for x in t[2][1:4])
            return base[lo:hi:st]
        return base[ev_int(t[2], env)]
    if is_t(t, "fam"):
        # a comprehension over finite sequences: bind the generic element(s) and evaluate the body for each
        it = t[1]
        if is_t(it, "zip"):
            seqs = [ev_int(x, env) for x in it[1]]
            rows = list(zip(*seqs))
            return [ev_int(t[2], {**env, **{k: v for x, v in zip(it[1], row) for k in _elem_keys(x)}}) for row in rows]
        if is_t(it, "enumerate"):
            seq = list(ev_int(it[1], env))
            return [ev_int(t[2], {**env, ("enumidx", it[1]): i, ("elem", it[1]): e}) for i, e in enumerate(seq)]
        seq = list(ev_int(it, env))
        return [ev_int(t[2], {**env, **{k: e for k in _elem_keys(it)}}) for e in seq]
    if is_t(t, "call") and t[1] in (("global", "any"), ("global", "all")) and len(t[2]) == 1 and not t[3]:
        vs = ev_int(t[2][0], env)
        return any(vs) if t[1][1] == "any" else all(vs)
    if is_t(t, "call") and t[1] == ("global", "sorted") and len(t[2]) == 1 and t[3] in ((), (("key", ("global", "len")),)):
        v = ev_int(t[2][0], env)
        return sorted(v, key=len) if t[3] else sorted(v)
    if is_t(t, "call") and is_t(t[1], "global") and t[1][1] in ("len", "tuple", "list") and len(t[2]) == 1 and not t[3]:
        return {"len": len, "tuple": tuple, "list": list}[t[1][1]](ev_int(t[2][0], env))
    if is_t(t, "call") and is_t(t[1], "global"):
        n = t[1][1].split(".")[-1]
        args = [ev_int(x, env) for x in t[2]]
        if n in ("logical_not",):
            return not args[0]
        if n in ("logical_and",):
            return bool(args[0]) and bool(args[1])
        if n in ("logical_or",):
            return bool(args[0]) or bool(args[1])
        if n in ("logical_xor",):
            return bool(args[0]) != bool(args[1])
        if n in ("asarray", "array", "int", "bool"):
            return args[0]
        if n == "min":
            return min(args)
        if n == "max":
            return max(args)
        if n == "clip" and len(args) == 3:
            return min(max(args[0], args[1]), args[2])
    if is_t(t, "call") and is_t(t[1], "attr") and is_t(t[1][1], "global") and t[1][1][1].split(".")[-1] == "FlagOp":
        n = t[1][2]
        args = [ev_int(x, env) for x in t[2]]
        if n == "and_":
            return bool(args[0]) and bool(args[1])
        if n == "or_":
            return bool(args[0]) or bool(args[1])
        if n == "xor_":
            return bool(args[0]) != bool(args[1])
        if n == "not_":
            return not bool(args[0])
    raise Unrecognised(str(t)[:80])
