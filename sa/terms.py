"""E1 - provenance-term evaluator.

A forward symbolic evaluation of one Python function body over a small term language.
JAX programs are pure, so a call with structurally equal arguments denotes an equal value:
terms carry no site identity and structural equality of terms is value equality.

Terms are nested tuples (hashable):
  ('param', name)            formal parameter / free symbol
  ('const', v)               literal
  ('global', dotted)         module-level / imported name (canonical dotted path)
  ('attr', t, name)
  ('call', f, args, kwargs)  opaque call; args: tuple of terms, kwargs: tuple of (name, term)
  ('ctor', ClassName, args, kwargs)   constructor of a repository class
  ('tuple', items) ('list', items) ('dict', ((k, v), ...))
  ('star', t)                starred element in a display / call
  ('proj', t, i)             constant subscript       ('slice', t, lo, hi)
  ('index', t, i)            general subscript
  ('bin', op, a, b) ('un', op, a) ('cmp', op, a, b) ('bool', op, items)
  ('phi', test, a, b)        join of two paths
  ('where', c, a, b)         jnp.where / lax.select / FlagOp.where
  ('stack', t)               result of jax.vmap / the stacked output of lax.scan (per-element body)
  ('elem', t)                one element of an iterable / a mapped axis
  ('scanc', id, i)           i-th component of the carry inside scan #id
  ('scanfinal', id, i)       i-th component of the final carry of scan #id
  ('fam', it, body)          comprehension / family over iterable `it` (element symbol ('elem', it))
  ('choose', idx, fam)       tree_choose
  ('mswitch', idx, fam)      multi_switch: family of per-branch results
  ('treemap', body, trees)   jtu.tree_map(f, *trees): body is f applied to ('leaf', tree_i)
  ('leaf', t)
  ('sumover', it, t)         accumulation of t over a Python for-loop on it
  ('isinst', t, names) ('is', t, u)
  ('closure', key)           local function / lambda (looked up in Evaluator.closures)
  ('opaque', text, deps)     anything else
"""

from __future__ import annotations

import ast
import re
import itertools
from dataclasses import dataclass, field

from .program import AnalysisError, ClassInfo, Module, Program, _dotted

MAX_DEPTH = 10


def P(name):
    return ("param", name)


def C(v):
    return ("const", v)


def G(name):
    return ("global", name)


def A(t, name):
    return ("attr", t, name)


def CALL(f, *args, **kw):
    return ("call", f, tuple(args), tuple(sorted(kw.items())))


def METH(obj, name, *args, **kw):
    return CALL(A(obj, name), *args, **kw)


def T(*items):
    return ("tuple", tuple(items))


@dataclass
class Closure:
    node: ast.AST  # FunctionDef or Lambda
    env: dict
    module: Module
    cls: ClassInfo | None
    name: str


@dataclass
class ScanInfo:
    init: tuple
    carry_in: tuple
    carry_out: tuple
    y: tuple
    xs: tuple
    fn: object
    length: object = None


@dataclass
class FuncResult:
    ret: tuple | None
    returns: list  # [(conds, term)]
    raises: list  # [(conds, exc term)]
    env: dict
    asserts: list = field(default_factory=list)  # [(conds, test term)]


class Evaluator:
    def __init__(self, prog: Program, max_depth: int = MAX_DEPTH):
        self.prog = prog
        self.closures: dict[int, Closure] = {}
        self.scans: dict[int, ScanInfo] = {}
        self._ids = itertools.count(1)
        self.max_depth = max_depth
        self.depth_reached = 0
        self.calls_seen = 0
        self.calls_inlined = 0
        self.notes: list[str] = []
        self.inline_funcs: set[str] = set(_DEFAULT_INLINE)
        self._ovr: dict = {}
        self.opaque_funcs: set[str] = set()
        self.opaque_methods: set[str] = set()
        self._stack: list[int] = []
        self._call_aliases: set[str] | None = None
        self.call_ctx: dict = {}  # call term -> [tuple of `with` context terms active at each evaluation of it]
        self.fuse_treemaps = True  # consecutive leafwise maps are one map (rules that read a staged computation stage by stage switch this off)
        self.inline_private_static = True  # Cls._helper(...) private static helpers are read at the call site (rules name the ones they want opaque)
        self.ctor_methods: set = set()  # method names read through when the receiver is an object constructed in the evaluated code
        self.inline_tag_helpers = False  # Diff.<helper>(tree, T) is read as Diff.no_change / unknown_change(tree); the rules that judge those two methods read the helper's body instead

    def tag_helpers(self) -> dict:
        """static methods h of Diff, other than the API, with `h(tree, T)` == tree_diff(tree_primal(tree), tree_map(lambda _: T, tree_primal(tree))):
        the parametrised constant tagging (Diff.no_change is h(tree, NoChange)).  Decided on the evaluated body, once per program."""
        prog = self.prog
        if getattr(prog, "_tag_helpers", None) is None:
            prog._tag_helpers = {}
            cis = prog.class_index.get("Diff")
            for ci in (cis or [])[:1]:
                for name, fn in ci.methods.items():
                    if name in _TREE_TAGS or name == "tree_diff" or not _is_static(fn) or len(fn.args.args) != 2 or fn.args.vararg or fn.args.kwarg:
                        continue
                    try:
                        r = Evaluator(prog).eval_fn(fn, ci.module, ci)
                    except Exception:
                        continue
                    x, T = P(fn.args.args[0].arg), P(fn.args.args[1].arg)
                    if const_tagging(r.ret, x, lambda g: g == T):
                        prog._tag_helpers[name] = fn
        return prog._tag_helpers

    def call_aliases(self) -> set:
        """method names m such that some class defines `__call__(self, *a): return self.m(*a)` and no other class defines m:
        `x.m(...)` and `x(...)` are then one operation (ChoiceMap.get_submap / ChoiceMap.__call__)"""
        if self._call_aliases is None:
            out = set()
            for cis in self.prog.class_index.values():
                for ci in cis:
                    fn = ci.methods.get("__call__")
                    if fn is None or fn.args.vararg is None or fn.args.args[1:] or fn.args.kwonlyargs or fn.args.kwarg:
                        continue
                    body = _single_return(fn.body)
                    if len(body) == 1 and isinstance(body[0], ast.Return) and isinstance(body[0].value, ast.Call):
                        c = body[0].value
                        if (isinstance(c.func, ast.Attribute) and isinstance(c.func.value, ast.Name) and c.func.value.id == "self" and not c.keywords and len(c.args) == 1
                                and isinstance(c.args[0], ast.Starred) and isinstance(c.args[0].value, ast.Name) and c.args[0].value.id == fn.args.vararg.arg):
                            m = c.func.attr
                            owners = [x for xs in self.prog.class_index.values() for x in xs if m in x.methods]
                            if all(o.qual == ci.qual or any(s.qual == o.qual for s in self.prog.subclasses(ci.name)) for o in owners):
                                out.add(m)
            self._call_aliases = out
        return self._call_aliases

    def method_sig(self, name: str):
        """parameter names (without self) of the repository methods called `name`, when every class that defines it uses the same names in the same order:
        then `x.name(a, p=b)` can be read positionally whatever x is"""
        if not hasattr(self, "_msig"):
            self._msig = {}
        if name not in self._msig:
            sigs = set()
            for cis in self.prog.class_index.values():
                for ci in cis:
                    fn = ci.methods.get(name)
                    if fn is not None:
                        ps = [a.arg for a in fn.args.posonlyargs + fn.args.args]
                        if not _is_static(fn) and ps:
                            ps = ps[1:]
                        sigs.add((tuple(ps), fn.args.vararg is not None))
            self._msig[name] = list(sigs)[0][0] if len(sigs) == 1 and not list(sigs)[0][1] else None
        return self._msig[name]

    def namedtuples(self):
        """NamedTuple classes of the repository: ({class: fields}, {field: index} for field names that belong to exactly one of them and to no other class).
        A NamedTuple IS a tuple: its constructor is the tuple of its arguments and `x.field` is `x[index]`."""
        if not hasattr(self, "_nt"):
            classes, owners = {}, {}
            for cname, cis in self.prog.class_index.items():
                for ci in cis:
                    if any(b.split(".")[-1] == "NamedTuple" for b in ci.bases):
                        flds = list(ci.fields)
                        classes[cname] = flds
            for cname, flds in classes.items():
                for i, f_ in enumerate(flds):
                    owners.setdefault(f_, []).append(i)
            other = {f_ for cname, cis in self.prog.class_index.items() if cname not in classes for ci in cis for f_ in list(ci.fields) + list(ci.methods)}
            # (names that are attributes of the builtin containers / arrays are never read as fields: d.values(), xs.index(..), a.shape, ...)
            other |= {n_ for t_ in (dict, list, tuple, str, set, int, float) for n_ in dir(t_)} | {"shape", "dtype", "T", "at", "size", "ndim", "real", "imag", "args", "kwargs", "key", "value", "name"}
            self._nt = (classes, {f_: ix[0] for f_, ix in owners.items() if len(ix) == 1 and f_ not in other})
        return self._nt

    def fluent(self):
        """GenerativeFunction's fluent forwarders, read off their bodies: `def m(self, p..): return genjax.g(self, p..)` and
        `def m(self, p..): return genjax.g(k=p, ..)(self)`.  -> ({g: (m, params)} for the direct form, {g: (m, {k: p}, params)} for the decorator form).
        `g(x, a)` / `g(k=a)(x)` and `x.m(a)` are then one operation; the method spelling is the canonical one."""
        if getattr(self, "_fluent", None) is None:
            direct, deco = {}, {}
            for ci in self.prog.class_index.get("GenerativeFunction", []):
                for m, fn in ci.methods.items():
                    if m.startswith("_") or fn.args.kwonlyargs or fn.args.kwarg:
                        continue
                    body = [b for b in fn.body if not (isinstance(b, ast.Expr) and isinstance(b.value, ast.Constant)) and not isinstance(b, (ast.Import, ast.ImportFrom))]
                    if not (len(body) == 1 and isinstance(body[0], ast.Return) and isinstance(body[0].value, ast.Call)):
                        continue
                    c = body[0].value
                    params = [x.arg for x in fn.args.args[1:]]
                    var = fn.args.vararg.arg if fn.args.vararg else None
                    is_self = lambda n: isinstance(n, ast.Name) and n.id == "self"
                    gname = lambda f: f.attr if isinstance(f, ast.Attribute) and isinstance(f.value, ast.Name) and f.value.id == "genjax" else None
                    if gname(c.func) and not c.keywords and c.args and is_self(c.args[0]):
                        rest = c.args[1:]
                        names = [(r.id if isinstance(r, ast.Name) else ("*" + r.value.id if isinstance(r, ast.Starred) and isinstance(r.value, ast.Name) else None)) for r in rest]
                        if names == params + (["*" + var] if var else []):
                            direct[gname(c.func)] = (m, params, var is not None)
                    elif isinstance(c.func, ast.Call) and gname(c.func.func) and not c.func.args and len(c.args) == 1 and is_self(c.args[0]) and not c.keywords and var is None:
                        kw = {k.arg: k.value.id for k in c.func.keywords if k.arg and isinstance(k.value, ast.Name)}
                        if len(kw) == len(c.func.keywords) and sorted(kw.values()) == sorted(params):
                            deco[gname(c.func.func)] = (m, kw, params)
            self._fluent = (direct, deco)
        return self._fluent

    # ------------------------------------------------------------------ entry points
    def eval_method(self, cls_name: str, meth: str, module_suffix: str | None = None, bind: dict | None = None):
        ci, fn = self.prog.method(cls_name, meth, module_suffix)
        return self.eval_fn(fn, ci.module, ci, bind=bind)

    def eval_fn(self, fn, module: Module, cls: ClassInfo | None = None, bind: dict | None = None, env0: dict | None = None):
        env = dict(env0 or {})
        a = fn.args
        names = [x.arg for x in a.posonlyargs + a.args]
        for n in names + [x.arg for x in a.kwonlyargs]:
            env[n] = P(n)
        if a.vararg:
            env[a.vararg.arg] = P(a.vararg.arg)
        if a.kwarg:
            env[a.kwarg.arg] = P(a.kwarg.arg)
        if bind:
            env.update(bind)
        # parameters whose annotation names a class (no None / Optional / Any / bare union with None): the package's annotations are enforced at run time
        # (beartype), so such a parameter is never None - `p is None` is decided for it
        self.nonnull_params = set()
        for x in a.posonlyargs + a.args + a.kwonlyargs:
            if x.annotation is not None and x.arg not in (bind or {}):
                an = ast.unparse(x.annotation)
                if not re.search(r"\bNone\b|\bOptional\b|\bAny\b|\bobject\b", an) and re.fullmatch(r"[A-Za-z_][\w\.]*(\[[\w\s\.,\[\]\|]*\])?", an):
                    self.nonnull_params.add(x.arg)
        ctx = _Ctx(self, module, cls, 0)
        return ctx.run_body(fn.body if not isinstance(fn, ast.Lambda) else [ast.Return(value=fn.body)], env)

    def overridden(self, ci: ClassInfo, meth: str) -> bool:
        """is `meth` (re)defined by a strict subclass of ci?  (then `self.meth` must stay an opaque atom)"""
        key = (ci.qual, meth)
        if key not in self._ovr:
            r = (ci.name, meth) in _DYNAMIC_OVERRIDES
            if not r:
                for sub in self.prog.subclasses(ci.name):
                    if sub.qual != ci.qual and meth in sub.methods:
                        r = True
                        break
            self._ovr[key] = r
        return self._ovr[key]

    def closure_of(self, t) -> Closure | None:
        if isinstance(t, tuple) and t and t[0] == "closure":
            return self.closures.get(t[1])
        return None

    def apply(self, f, args: list, kwargs: dict | None = None, module: Module | None = None, cls=None, depth: int = 0):
        """apply a closure term to argument terms (used by rules to re-run kernels on chosen symbols)"""
        ctx = _Ctx(self, module, cls, depth)
        return ctx.call_value(f, list(args), dict(kwargs or {}))


# ====================================================================================== helpers
def is_t(t, tag):
    return isinstance(t, tuple) and len(t) > 0 and t[0] == tag


def mk_tuple(items):
    out = []
    for x in items:
        # (a, *(b, c)) is (a, b, c)
        if is_t(x, "star") and (is_t(x[1], "tuple") or is_t(x[1], "list")):
            out.extend(x[1][1])
        elif is_t(x, "star") and is_t(x[1], "slice") and (x[1][2] is None or (isinstance(x[1][2], int) and x[1][2] >= 0)) and isinstance(x[1][3], int) and 0 <= x[1][3] <= 16:
            # (*t[:3], y) is (t[0], t[1], t[2], y)
            out.extend(mk_proj(x[1][1], i) for i in range(x[1][2] or 0, x[1][3]))
        else:
            out.append(x)
    return ("tuple", tuple(out))


def _seq_items(t):
    """items of a term that certainly denotes a tuple / list (None otherwise): literal tuples, tuple(x) / list(x) conversions, slices"""
    if is_t(t, "tuple") or is_t(t, "list"):
        return list(t[1])
    if is_t(t, "call") and t[1] in (G("tuple"), G("list")) and len(t[2]) == 1 and not t[3]:
        inner = _seq_items(t[2][0])
        return inner if inner is not None else [("star", t[2][0])]
    if is_t(t, "slice"):
        return [("star", t)]
    return None


def _is_tuple_like(t):
    """certainly a tuple: a slice of something, or a Diff tree map of one (tree maps preserve the container)"""
    if is_t(t, "slice") or is_t(t, "tuple"):
        return True
    if is_t(t, "call") and is_t(t[1], "attr") and t[1][2] in _TREE_TAGS and is_t(t[1][1], "global") and t[1][1][1].split(".")[-1] == "Diff" and len(t[2]) == 1 and not t[3]:
        return _is_tuple_like(t[2][0])
    return False


def _iterable(it):
    """canonical iterable: iterating over list(x) / tuple(x) is iterating over x; zip / enumerate become structured terms"""
    while is_t(it, "call") and it[1] in (G("list"), G("tuple")) and len(it[2]) == 1 and not it[3]:
        it = it[2][0]
    # dictionary views: iterating d.items() / d.keys() / d.values() is iterating the keys of d, with elements (k, d[k]) / k / d[k]
    if is_t(it, "call") and is_t(it[1], "attr") and it[1][2] in ("items", "keys", "values") and not it[2] and not it[3]:
        if is_t(it[1][1], "dictfam"):
            d = it[1][1]
            return ("fam", d[1], {"items": mk_tuple((d[2], d[3])), "keys": d[2], "values": d[3]}[it[1][2]])
        return (it[1][2], it[1][1]) if it[1][2] != "keys" else it[1][1]
    # iterating map(f, xs) / safe_map(f, xs) is iterating [f(x) for x in xs] (f a plain function or bound method, applied symbolically)
    if is_t(it, "call") and it[1] in (G("map"), G("jax.util.safe_map")) and len(it[2]) == 2 and not it[3] and (is_t(it[2][0], "attr") or is_t(it[2][0], "global")):
        xs = _iterable(it[2][1])
        return ("fam", xs, ("call", it[2][0], (mk_elem(xs),), ()))
    # jnp.arange(len(xs)) iterated is range(len(xs)) iterated
    if is_t(it, "call") and it[1] == G("jax.numpy.arange") and not it[3] and len(it[2]) == 1 and is_t(it[2][0], "call") and it[2][0][1] == G("len") and len(it[2][0][2]) == 1:
        return ("positions", it[2][0][2][0], C(0))
    # for i in range(len(xs)) / range(a, len(xs)): i runs over the positions of xs (from a on); xs[i] is then the element (see Evaluator index rule)
    if is_t(it, "call") and it[1] == G("range") and not it[3] and len(it[2]) in (1, 2) and is_t(it[2][-1], "call") and it[2][-1][1] == G("len") and len(it[2][-1][2]) == 1:
        xs = it[2][-1][2][0]
        start = it[2][0] if len(it[2]) == 2 else C(0)
        return ("positions", xs, start)
    # counting positions from the end: for k in range(1, len(xs) + 1) (xs[len(xs) - k] / xs[-k]) and for i in range(len(xs) - 1, -1, -1) (xs[i])
    if is_t(it, "call") and it[1] == G("range") and not it[3]:
        a_ = it[2]
        ln = lambda t: t[2][0] if is_t(t, "call") and t[1] == G("len") and len(t[2]) == 1 and not t[3] else None
        if len(a_) == 2 and a_[0] == C(1) and is_t(a_[1], "bin") and a_[1][1] == "+" and a_[1][3] == C(1) and ln(a_[1][2]) is not None:
            return ("rpositions", ln(a_[1][2]), "count")
        if len(a_) == 3 and a_[1] == C(-1) and a_[2] == C(-1) and is_t(a_[0], "bin") and a_[0][1] == "-" and a_[0][3] == C(1) and ln(a_[0][2]) is not None:
            return ("rpositions", ln(a_[0][2]), "index")
    # xs[::-1] is reversed(xs)
    if is_t(it, "index") and it[2] == ("sliceobj", C(None), C(None), C(-1)):
        return ("reversed", _iterable(it[1]))
    if is_t(it, "call") and it[1] == G("reversed") and len(it[2]) == 1 and not it[3]:
        return ("reversed", _iterable(it[2][0]))
    if is_t(it, "call") and it[1] == G("zip") and not it[3]:
        return ("zip", tuple(_iterable(x) for x in it[2]))
    if is_t(it, "call") and it[1] == G("enumerate") and len(it[2]) >= 1:
        return ("enumerate", _iterable(it[2][0]))
    return it


def fam_base(F):
    """the iterable a family term ranges over, seen through nested comprehensions / zips of families over one iterable (None: not a family)"""
    if is_t(F, "fam"):
        return norm_it(F[1])
    if is_t(F, "mswitch"):
        return F
    if is_t(F, "phi"):
        a, b = fam_base(F[2]), fam_base(F[3])
        return a if a is not None and a == b else None
    return None


def _fam_like(F):
    return is_t(F, "fam") or is_t(F, "mswitch") or (is_t(F, "phi") and _fam_like(F[2]) and _fam_like(F[3]))


def norm_it(it):
    """canonical iterable of a comprehension / loop: [g(y) for y in [f(x) for x in xs]] ranges over xs (the element is substituted by mk_elem);
    zip(F, G) of families over one iterable ranges over that iterable"""
    if is_t(it, "fam"):
        return norm_it(it[1])
    if is_t(it, "items") or is_t(it, "values"):
        return it[1]
    if is_t(it, "phi"):
        b = fam_base(it)
        return b if b is not None else it
    if is_t(it, "zip") and len(it[1]) == 2 and any(it[1][1 - i_] == ("positions", it[1][i_], C(0)) for i_ in (0, 1)):
        # zip(xs, range(len(xs))) / zip(range(len(xs)), xs) pairs every element with its position: enumerate(xs)
        return ("enumerate", it[1][0] if it[1][1] == ("positions", it[1][0], C(0)) else it[1][1])
    if is_t(it, "zip") and it[1]:
        bases = [fam_base(x) if fam_base(x) is not None else x for x in it[1]]
        if all(b == bases[0] for b in bases) and any(fam_base(x) is not None for x in it[1]):
            return bases[0]
    return it


def mk_fam(it, body):
    """[body for ... in it]; an enumerate whose counter is not used is the plain iteration"""
    if is_t(it, "enumerate") and not contains(body, ("enumidx", it[1])) and not any(is_t(x, "closure") for x in subterms(body)):
        it = it[1]
    it = norm_it(it)
    if is_t(it, "enumerate") and not contains(body, ("enumidx", it[1])) and not any(is_t(x, "closure") for x in subterms(body)):
        it = it[1]  # (the counter of the family this one ranges over is not used either)
    if is_t(it, "phi"):
        # a comprehension over (A if c else B) is the join of the comprehensions over A and over B
        return mk_phi(it[1], mk_fam(it[2], resolve(body, it[1], True)), mk_fam(it[3], resolve(body, it[1], False)))
    return ("fam", it, body)


def mk_bin(op, a, b):
    # tuple concatenation: (a,) + tuple(b) is (a, *b)
    if op == "+" and (is_t(a, "tuple") or is_t(b, "tuple")):
        ia, ib = _seq_items(a), _seq_items(b)
        if ia is not None and ib is not None:
            return mk_tuple(ia + ib)
    return ("bin", op, a, b)


def mk_call(f, args, kw):
    """generic call term with the conversions that have a canonical form"""
    args = tuple(args)
    if f == G("jax.random.split") and len(args) == 2 and args[1] == C(2) and not kw:
        args = args[:1]  # split(key, 2) is split(key)
    if f == G("map") and len(args) == 2 and not kw and args[0] in (G("list"), G("tuple")) and (is_t(args[1], "cols") or (is_t(args[1], "tuple") and all(_fam_like(x) for x in args[1][1]))):
        return args[1]  # map(list, zip(*rows)): each column as a list is the column
    if f == G("jax.tree_util.tree_unflatten") and len(args) == 2 and not kw and is_t(args[1], "fam") and not is_t(args[1][1], "enumerate"):
        # tree_unflatten(structure of T, [g(x) for x in leaves of T]) is tree_map(g, T) (default leaves on both sides)
        TF = lambda T: ("call", G("jax.tree_util.tree_flatten"), (T,), ())
        lv_ = args[1][1]
        T_ = lv_[1][2][0] if is_t(lv_, "proj") and lv_[2] == 0 and is_t(lv_[1], "call") and lv_[1][1] == G("jax.tree_util.tree_flatten") and len(lv_[1][2]) == 1 and not lv_[1][3] else (
            lv_[2][0] if is_t(lv_, "call") and lv_[1] == G("jax.tree_util.tree_leaves") and len(lv_[2]) == 1 and not lv_[3] else None)
        if T_ is not None and args[0] in (("proj", TF(T_), 1), ("call", G("jax.tree_util.tree_structure"), (T_,), ())):
            return ("treemap", subst(args[1][2], ("elem", lv_), ("leaf", T_)), (T_,))
    if (f == G("dict.fromkeys") or f == ("attr", G("dict"), "fromkeys")) and len(args) == 2 and not kw:
        it_ = norm_it(_iterable(args[0]))
        return ("dictfam", it_, mk_elem(it_), args[1])  # dict.fromkeys(ks, v) is {k: v for k in ks}
    if not args and not kw and is_t(f, "attr") and f[2] in ("items", "keys", "values") and is_t(f[1], "dictfam"):
        d = f[1]
        return ("fam", d[1], {"items": mk_tuple((d[2], d[3])), "keys": d[2], "values": d[3]}[f[2]])
    if is_t(f, "attr") and f[2] == "get" and is_t(f[1], "dict") and len(args) in (1, 2) and not kw and all(not is_t(k_, "const") or k_[1] != "**" for k_, _v in f[1][1]):
        # {k1: v1, ..}.get(x, default): the chain of equality cases
        out = args[1] if len(args) == 2 else C(None)
        for k_, v_ in reversed(f[1][1]):
            out = mk_phi(mk_cmp("==", args[0], k_), v_, out)
        return out
    if len(args) == 1 and not kw:
        a = args[0]
        # Diff.tree_primal / tree_tangent / no_change / unknown_change are tree maps: they distribute over a literal tuple
        if is_t(f, "attr") and f[2] in _TREE_TAGS and is_t(f[1], "global") and f[1][1].split(".")[-1] == "Diff" and is_t(a, "tuple") and not _has_star(a):
            return mk_tuple(mk_call(f, (x,), ()) for x in a[1])
        # list(zip(F, G, ..)) of families over one iterable is the family of tuples
        if f in (G("tuple"), G("list")) and is_t(a, "call") and a[1] == G("zip") and a[2] and not a[3] and not any(is_t(x, "star") for x in a[2]):
            bases = [fam_base(x) for x in a[2]]
            if all(b_ is not None and b_ == bases[0] for b_ in bases):
                return ("fam", bases[0], mk_tuple(mk_elem(x) for x in a[2]))
        if f in (G("tuple"), G("list")) and _fam_like(a):
            return a
        if f == G("zip") and is_t(a, "star") and is_t(a[1], "phi"):
            ca, cb = mk_call(f, (("star", a[1][2]),), ()), mk_call(f, (("star", a[1][3]),), ())
            if is_t(ca, "tuple") and is_t(cb, "cols"):
                cb = mk_tuple(mk_proj(cb, i) for i in range(len(ca[1])))
            elif is_t(cb, "tuple") and is_t(ca, "cols"):
                ca = mk_tuple(mk_proj(ca, i) for i in range(len(cb[1])))
            return mk_phi(a[1][1], ca, cb)
        # zip(*F) of a family of n-tuples: its n columns (a literal tuple of families when the width is known, else a lazy `cols` term)
        if f == G("zip") and is_t(a, "star") and fam_base(a[1]) is not None:
            el = mk_elem(a[1])
            width = len(el[1]) if is_t(el, "tuple") and not _has_star(el) else (len(el[2][1]) if is_t(el, "mselem") and is_t(el[2], "tuple") and not _has_star(el[2]) else None)
            if width:
                return mk_tuple(("fam", fam_base(a[1]), mk_proj(el, i)) for i in range(width))
            return ("cols", a[1])
        # De Morgan: any(not b ...) is not all(b ...)
        if f in (G("any"), G("all")) and is_t(a, "fam") and is_t(a[2], "un") and a[2][1] == "not":
            return ("un", "not", ("call", G("all") if f == G("any") else G("any"), (("fam", a[1], a[2][2]),), ()))
        # tree_leaves(tree_map(f, T)) is [f(leaf) for leaf in tree_leaves(T)] (one tree, f returning leaves)
        if is_t(f, "global") and f[1] in ("jax.tree_util.tree_leaves", "jax.tree.leaves") and is_t(a, "treemap") and len(a[2]) == 1:
            lv = ("call", G("jax.tree_util.tree_leaves"), (a[2][0],), ())
            return ("fam", lv, subst(a[1], ("leaf", a[2][0]), ("elem", lv)))
        # tuple(x) / list(x) of something that already is a tuple / list / slice
        if f in (G("tuple"), G("list")):
            if is_t(a, "tuple") or is_t(a, "list"):
                return ("tuple" if f == G("tuple") else "list", a[1])
            if f == G("tuple") and _is_tuple_like(a):
                return a
    return ("call", f, args, tuple(kw))


def mk_is(a, b, not_none=None):
    """identity test; against None it is decided for terms that certainly are / are not None (not_none: extra predicate, e.g. bound methods of the class
    being evaluated) and distributes over joins"""
    if b == C(None):
        if a == C(None):
            return C(True)
        if is_t(a, "phi"):
            return mk_phi(a[1], mk_is(a[2], b, not_none), mk_is(a[3], b, not_none))
        if (not_none is not None and not_none(a)) or is_t(a, "closure") or is_t(a, "ctor") or is_t(a, "tuple") or is_t(a, "list") or is_t(a, "dict") or is_t(a, "partial") \
                or (is_t(a, "const") and a[1] is not None):
            return C(False)  # a bound method / local function / freshly built object is not None
    return ("is", a, b)


def mk_cmp(op, a, b):
    """comparison term; == and != are symmetric, so their operands are put in a canonical order (constants / the empty tuple on the right, otherwise by repr):
    `a == b` and `b == a` are the same term"""
    if op in ("==", "!="):
        ca = is_t(a, "const") or (is_t(a, "tuple") and not a[1])
        cb = is_t(b, "const") or (is_t(b, "tuple") and not b[1])
        if (ca and not cb) or (ca == cb and repr(b) < repr(a)):
            a, b = b, a
    return ("cmp", op, a, b)


def mk_phi(test, a, b):
    if a == b:
        return a
    if is_t(test, "const") and (test[1] is None or isinstance(test[1], (bool, int, str))):
        return a if test[1] else b  # a test on a literal is decided
    if is_t(test, "un") and test[1] == "not":
        # `x if not c else y` is `y if c else x`: one canonical form, whatever polarity the source spells
        return mk_phi(test[2], b, a)
    if is_t(test, "cmp") and test[1] == "!=":
        return mk_phi(mk_cmp("==", test[2], test[3]), b, a)
    if is_t(test, "cmp") and test[1] == "is not":
        return mk_phi(("cmp", "is", test[2], test[3]), b, a)
    if is_t(a, "tuple") and is_t(b, "tuple") and len(a[1]) == len(b[1]) and not _has_star(a) and not _has_star(b):
        m_ = mk_tuple(mk_phi(test, x, y) for x, y in zip(a[1], b[1]))
        if a in _NT_CLASS and _NT_CLASS.get(b) == _NT_CLASS[a]:
            _NT_CLASS[m_] = _NT_CLASS[a]  # the join of two values of one NamedTuple class is a value of that class
        return m_
    # (True if c else False) is c; (False if c else True) is not c
    if a == C(True) and b == C(False):
        return test
    if a == C(False) and b == C(True):
        return ("un", "not", test)
    # (d[k] if k in d else default) is d.get(k, default)
    if is_t(test, "cmp") and test[1] == "in" and a == ("index", test[3], test[2]):
        return ("call", ("attr", test[3], "get"), (test[2], b), ())
    if is_t(a, "fam") and is_t(b, "fam") and a[1] == b[1]:
        # ([f(x) for x in A] if c else [g(x) for x in A]) is [(f(x) if c else g(x)) for x in A]
        return ("fam", a[1], a[2] if a[2] == b[2] else mk_phi(test, a[2], b[2]))
    return ("phi", test, a, b)


def canon_test(test):
    """the test a join is keyed on after mk_phi's normalisation (negations stripped, != as ==)"""
    while True:
        if is_t(test, "un") and test[1] == "not":
            test = test[2]
        elif is_t(test, "cmp") and test[1] == "!=":
            test = mk_cmp("==", test[2], test[3])
        else:
            return test


def scenarios(t, max_tests: int = 4):
    """[(conds, leaf)]: t under every assignment of truth values to the tests of the joins occurring ANYWHERE in it (at the top, as a receiver, as an
    argument), infeasible-by-construction duplicates removed.  Rules that speak about "the kwargs path" / "the plain path" use this instead of walking one
    particular nesting of joins."""
    tests = list(dict.fromkeys(x[1] for x in subterms(t) if is_t(x, "phi") and len(x) == 4))
    tests = [c for c in tests if not any(is_t(y, "phi") for y in subterms(c))][:max_tests]
    import itertools

    out, seen = [], set()
    for pols in itertools.product((True, False), repeat=len(tests)):
        u = t
        used = []
        for c, pol in zip(tests, pols):
            if contains(u, c) and any(is_t(x, "phi") and x[1] == c for x in subterms(u)):
                u = resolve(u, c, pol)
                used.append((c, pol))
        u = renorm(u)
        key = (tuple(used), u)
        if key not in seen:
            seen.add(key)
            out.append((list(used), u))
    return out


def resolve(t, test, pol):
    """t under the assumption that `test` has truth value pol: joins on that very test collapse"""
    if is_t(t, "phi") and t[1] == test:
        return resolve(t[2] if pol else t[3], test, pol)
    if isinstance(t, tuple):
        return tuple(resolve(x, test, pol) for x in t)
    return t


_NT_CLASS: dict = {}  # tuple term built by a NamedTuple constructor -> (class, fields): `.field` / methods of that very value are read through


_TREE_TAGS = ("tree_primal", "tree_tangent", "no_change", "unknown_change")


def const_tagging(t, x, is_tang) -> bool:
    """t pairs every leaf of tree_primal(x) with one constant tangent: tree_diff(primal, tree_map(lambda _: T, primal)) or tree_map(lambda p: Diff(p, T), primal)"""
    def is_prim(p):
        return is_t(p, "call") and is_t(p[1], "attr") and p[1][2] == "tree_primal" and is_t(p[1][1], "global") and p[1][1][1].split(".")[-1] == "Diff" and p[2] == (x,) and not p[3]
    if is_t(t, "call") and is_t(t[1], "attr") and t[1][2] == "tree_diff" and len(t[2]) == 2 and not t[3] and is_prim(t[2][0]) and is_t(t[2][1], "treemap") and t[2][1][2] == (t[2][0],) and is_tang(t[2][1][1]):
        return True
    if is_t(t, "treemap") and len(t[2]) == 1 and is_prim(t[2][0]) and is_t(t[1], "ctor") and t[1][1] == "Diff" and len(t[1][2]) == 2 and t[1][2][0] == ("leaf", t[2][0]) and is_tang(t[1][2][1]):
        return True
    return False


def _is_tree_tag(t):
    return is_t(t, "call") and is_t(t[1], "attr") and t[1][2] in _TREE_TAGS and is_t(t[1][1], "global") and t[1][1][1].split(".")[-1] == "Diff" and len(t[2]) == 1 and not t[3]


def _has_star(t):
    return any(is_t(x, "star") for x in t[1])


def mk_proj(base, i: int):
    if is_t(base, "tuple") or is_t(base, "list"):
        items = base[1]
        if i >= 0:
            if not any(is_t(x, "star") for x in items[: i + 1]) and i < len(items):
                return items[i]
            # a single trailing star: index into the starred value
            stars = [j for j, x in enumerate(items) if is_t(x, "star")]
            if len(stars) == 1 and stars[0] == len(items) - 1 and i >= stars[0]:
                return mk_proj(items[-1][1], i - stars[0])
        else:
            if not any(is_t(x, "star") for x in items[i:]) and -i <= len(items):
                return items[i]
        return ("proj", base, i)
    if is_t(base, "cols") and i >= 0:
        return ("fam", fam_base(base[1]), mk_proj(mk_elem(base[1]), i))
    if is_t(base, "fam") and i >= 0 and _cols_leaves(base[1]):
        # (g(col) for col in zip(*F))[i] is g(column i)
        body = base[2]
        for c_ in _cols_leaves(base[1]):
            body = subst(body, ("elem", c_), mk_proj(c_, i))
        return renorm(body)
    if is_t(base, "stack"):
        return ("stack", mk_proj(base[1], i))
    if is_t(base, "phi"):
        return mk_phi(base[1], mk_proj(base[2], i), mk_proj(base[3], i))
    if is_t(base, "where"):
        return ("where", base[1], mk_proj(base[2], i), mk_proj(base[3], i))
    if is_t(base, "choose"):
        fam = base[2]
        if is_t(fam, "fam"):
            return ("choose", base[1], ("fam", fam[1], mk_proj(fam[2], i)))
        if is_t(fam, "mswitch") and is_t(fam[2], "fam"):
            return ("choose", base[1], ("mswitch", fam[1], ("fam", fam[2][1], mk_proj(fam[2][2], i))))
        return ("proj", base, i)
    if is_t(base, "elem") and is_t(base[1], "zip"):
        its = base[1][1]
        if 0 <= i < len(its):
            return mk_elem(its[i])
    if is_t(base, "elem") and is_t(base[1], "enumerate"):
        if i == 0:
            return ("enumidx", base[1][1])
        if i == 1:
            return mk_elem(base[1][1])
    if is_t(base, "mselem"):
        return ("mselem", base[1], mk_proj(base[2], i))
    if is_t(base, "elem") and (is_t(base[1], "slice") or is_t(base[1], "tuple") or _is_tree_tag(base[1])):
        return mk_elem(mk_proj(base[1], i))
    # Diff.tree_primal / tree_tangent / no_change / unknown_change are tree maps: projections commute with them
    if is_t(base, "call") and is_t(base[1], "attr") and base[1][2] in _TREE_TAGS and is_t(base[1][1], "global") and base[1][1][1].split(".")[-1] == "Diff" and len(base[2]) == 1 and not base[3]:
        return mk_call(base[1], (mk_proj(base[2][0], i),), ())
    if is_t(base, "treemap") and len(base[2]) == 1 and is_t(base[2][0], "tuple") and not _has_star(base[2][0]) and 0 <= i < len(base[2][0][1]):
        # tree_map(f, (a, b))[0] is tree_map(f, a): a map over a literal tuple of trees maps each of them
        ti = base[2][0][1][i]
        return ("treemap", subst(base[1], ("leaf", base[2][0]), ("leaf", ti)), (ti,))
    if is_t(base, "treemap"):
        return ("treemap", mk_proj(base[1], i), base[2])
    if is_t(base, "leaf"):
        return ("leaf", mk_proj(base[1], i))
    if is_t(base, "slice") and i >= 0 and (base[2] is None or (isinstance(base[2], int) and base[2] >= 0)) and (base[3] is None or (isinstance(base[3], int) and (base[3] < 0 or i < base[3] - (base[2] or 0)))):
        return mk_proj(base[1], (base[2] or 0) + i)  # x[a:b][i] is x[a + i] (within the slice)
    return ("proj", base, i)


def mk_slice(base, lo, hi):
    if is_t(base, "tuple") and len(base[1]) == 1 and is_t(base[1][0], "star"):
        return mk_slice(base[1][0][1], lo, hi)
    if (is_t(base, "tuple") or is_t(base, "list")) and not _has_star(base):
        items = base[1]
        try:
            return (base[0], tuple(items[slice(lo, hi)]))
        except Exception:
            pass
    if is_t(base, "call") and is_t(base[1], "attr") and base[1][2] in _TREE_TAGS and is_t(base[1][1], "global") and base[1][1][1].split(".")[-1] == "Diff" and len(base[2]) == 1 and not base[3]:
        return mk_call(base[1], (mk_slice(base[2][0], lo, hi),), ())
    if is_t(base, "tuple") and isinstance(lo, int) and lo >= 0 and hi is None:
        items = base[1]
        if not any(is_t(x, "star") for x in items[:lo]) and lo <= len(items):
            return ("tuple", tuple(items[lo:]))
    return ("slice", base, lo, hi)


def mk_elem(it):
    """the generic element of iterable `it`"""
    if is_t(it, "fam"):
        return it[2]
    if is_t(it, "positions"):
        # the running index: start + (position within xs[start:]); for start 0 the position itself
        base_ = it[1] if it[2] == C(0) else ("index", it[1], ("sliceobj", it[2], C(None), C(None)))
        return ("enumidx", base_) if it[2] == C(0) else ("bin", "+", it[2], ("enumidx", base_))
    if is_t(it, "rpositions"):
        return ("r" + it[2], it[1])  # the running count from the end (1-based) / the running index going down
    if is_t(it, "items"):
        return mk_tuple((("elem", it[1]), ("index", it[1], ("elem", it[1]))))
    if is_t(it, "values"):
        return ("index", it[1], ("elem", it[1]))
    if is_t(it, "mswitch") and is_t(it[2], "fam"):
        return ("mselem", it[1], it[2][2])
    if is_t(it, "call") and it[1] == G("list") and len(it[2]) == 1:
        return mk_elem(it[2][0])
    if is_t(it, "phi"):
        return mk_phi(it[1], mk_elem(it[2]), mk_elem(it[3]))
    return ("elem", it)


def mk_attr(ev: Evaluator, base, name):
    if name in ev.namedtuples()[1] and base != P("self") and not is_t(base, "global") and not is_t(base, "ctor"):
        return mk_proj(base, ev.namedtuples()[1][name])  # x.field of a NamedTuple is x[index]
    if is_t(base, "tuple") and base in _NT_CLASS and name in _NT_CLASS[base][1]:
        return mk_proj(base, _NT_CLASS[base][1].index(name))
    if is_t(base, "tuple") and base in _NT_CLASS:
        # a method of a NamedTuple value taken as a value (`slot.fill`): the method partially applied to that value
        cis_ = ev.prog.class_index.get(_NT_CLASS[base][0])
        if cis_ and name in cis_[0].methods and not _is_static(cis_[0].methods[name]):
            memo_ = ev.__dict__.setdefault("_nt_method_clo", {})
            k_ = (cis_[0].qual, name)
            if k_ not in memo_:
                memo_[k_] = next(ev._ids)
                ev.closures[memo_[k_]] = Closure(cis_[0].methods[name], {}, cis_[0].module, cis_[0], f"{cis_[0].name}.{name}")
            return ("partial", ("closure", memo_[k_]), (base,), ())
    if is_t(base, "ctor"):
        cis = ev.prog.class_index.get(base[1].split(":")[-1], [])
        for ci in cis:
            if name in ci.fields:
                idx = ci.fields.index(name)
                args = base[2]
                if idx < len(args) and not any(is_t(x, "star") for x in args[: idx + 1]):
                    return args[idx]
                for k, v in base[3]:
                    if k == name:
                        return v
    if is_t(base, "phi"):
        return mk_phi(base[1], mk_attr(ev, base[2], name), mk_attr(ev, base[3], name))
    return ("attr", base, name)


def phi_paths(t, conds=()):
    """the leaves of a nested phi with their path conditions [(conds, leaf)]; a conjunction in a true arm (and a negation) is split into
    its parts, so `if a and not b:` contributes (a, True), (b, False)"""
    if not is_t(t, "phi"):
        return [(conds, t)]

    def pos(test):
        if is_t(test, "bool") and test[1] == "and":
            out = ()
            for x in test[2]:
                out += pos(x)
            return out
        if is_t(test, "un") and test[1] == "not":
            return neg(test[2])
        return ((test, True),)

    def neg(test):
        if is_t(test, "bool") and test[1] == "or":
            out = ()
            for x in test[2]:
                out += neg(x)
            return out
        if is_t(test, "un") and test[1] == "not":
            return pos(test[2])
        return ((test, False),)

    return phi_paths(t[2], conds + pos(t[1])) + phi_paths(t[3], conds + neg(t[1]))


def _cols_leaves(it):
    """the `cols` terms an iterable is made of (through phi joins); [] when anything else occurs"""
    if is_t(it, "cols"):
        return [it]
    if is_t(it, "phi"):
        a, b = _cols_leaves(it[2]), _cols_leaves(it[3])
        return a + b if a and b else []
    return []


def subst(t, old, new):
    if t == old:
        return new
    if isinstance(t, tuple):
        return tuple(subst(x, old, new) for x in t)
    return t


def renorm(t):
    """re-apply the canonical constructors after a substitution (bottom-up)"""
    if not isinstance(t, tuple):
        return t
    t = tuple(renorm(x) for x in t)
    if is_t(t, "call") and len(t) == 4:
        return mk_call(t[1], t[2], t[3])
    if is_t(t, "proj") and len(t) == 3 and isinstance(t[2], int):
        return mk_proj(t[1], t[2])
    if is_t(t, "phi") and len(t) == 4:
        return mk_phi(t[1], t[2], t[3])
    if is_t(t, "fam") and len(t) == 3:
        return mk_fam(t[1], t[2])
    if is_t(t, "elem") and len(t) == 2:
        return mk_elem(t[1])
    return t


def subterms(t):
    """all sub-terms (pre-order), including closures' bodies are NOT entered"""
    stack = [t]
    while stack:
        x = stack.pop()
        if isinstance(x, tuple):
            yield x
            for y in x:
                if isinstance(y, tuple):
                    stack.append(y)


def contains(t, sub) -> bool:
    return any(x == sub for x in subterms(t))


def free_atoms(t) -> set:
    """params / globals / scan carry symbols occurring in t"""
    out = set()
    for x in subterms(t):
        if x and x[0] in ("param", "global", "scanc", "scanfinal") and all(not isinstance(y, tuple) for y in x[1:]):
            out.add(x)
    return out


def show(t, depth=0) -> str:
    """compact rendering for evidence / diagnostics"""
    try:
        return _show(t, depth)
    except Exception:
        return repr(t)[:200]


def _show(t, depth=0) -> str:
    if not isinstance(t, tuple) or not t:
        return repr(t)
    if depth > 12:
        return "…"
    k = t[0]
    s = lambda x: _show(x, depth + 1)
    if k == "param":
        return t[1]
    if k == "const":
        return repr(t[1])
    if k == "global":
        return t[1].split(".")[-1] if t[1].count(".") > 2 else t[1]
    if k == "attr":
        return f"{s(t[1])}.{t[2]}"
    if k in ("call", "ctor"):
        f = t[1] if k == "ctor" else s(t[1])
        args = [s(a) for a in t[2]] + [f"{n}={s(v)}" for n, v in t[3]]
        return f"{f}({', '.join(args)})"
    if k in ("tuple", "list"):
        o, c = "()" if k == "tuple" else "[]"
        return o + ", ".join(s(x) for x in t[1]) + ("," if k == "tuple" and len(t[1]) == 1 else "") + c
    if k == "star":
        return "*" + s(t[1])
    if k == "proj":
        return f"{s(t[1])}[{t[2]}]"
    if k == "slice":
        return f"{s(t[1])}[{'' if t[2] is None else t[2]}:{'' if t[3] is None else t[3]}]"
    if k == "index":
        return f"{s(t[1])}[{s(t[2])}]"
    if k == "bin":
        return f"({s(t[2])} {t[1]} {s(t[3])})"
    if k == "un":
        return f"({t[1]}{' ' if t[1] == 'not' else ''}{s(t[2])})"
    if k == "cmp":
        return f"({s(t[2])} {t[1]} {s(t[3])})"
    if k == "bool":
        return "(" + f" {t[1]} ".join(s(x) for x in t[2]) + ")"
    if k == "phi":
        return f"φ({s(t[1])} ? {s(t[2])} : {s(t[3])})"
    if k == "where":
        return f"where({s(t[1])}, {s(t[2])}, {s(t[3])})"
    if k == "stack":
        return f"Stack[{s(t[1])}]"
    if k == "elem":
        return f"elem({s(t[1])})"
    if k == "leaf":
        return f"leaf({s(t[1])})"
    if k == "fam":
        return f"[{s(t[2])} for _ in {s(t[1])}]"
    if k == "choose":
        return f"choose({s(t[1])}, {s(t[2])})"
    if k == "mswitch":
        return f"multi_switch({s(t[1])}, {s(t[2])})"
    if k == "mselem":
        return f"branch_result({s(t[2])})"
    if k == "treemap":
        return f"tree_map<{s(t[1])}>"
    if k == "scanc":
        return f"carry{t[1]}[{t[2]}]"
    if k == "scanfinal":
        return f"final_carry{t[1]}[{t[2]}]"
    if k == "closure":
        return f"<fn#{t[1]}>"
    if k == "opaque":
        return f"«{t[1]}»"
    if k == "dict":
        return "{" + ", ".join(f"{s(a)}: {s(b)}" for a, b in t[1]) + "}"
    if k == "isinst":
        return f"isinstance({s(t[1])}, {t[2]})"
    return "(" + " ".join(s(x) if isinstance(x, tuple) else str(x) for x in t) + ")"


# ====================================================================================== evaluation context
class _Return(Exception):
    pass


_TREE_MAP = {"jax.tree_util.tree_map", "jax.tree.map", "jax.tree_util.tree_map"}
_WHERE = {"jax.numpy.where", "jax.lax.select"}
_IDENT_DECOS = {"functools.wraps", "wraps", "Pytree.partial", "staticmethod", "typing.overload"}


class _Ctx:
    def __init__(self, ev: Evaluator, module: Module | None, cls: ClassInfo | None, depth: int):
        self.ev = ev
        self.module = module
        self.cls = cls
        self.depth = depth
        ev.depth_reached = max(ev.depth_reached, depth)
        # joins written in THIS function body as Python conditionals (expressions or if/else assignments) - as opposed to lax.cond / FlagOp.cond joins and to
        # joins inherited from inlined callees, which are values like any other
        self.py_tests: set = set()

    # -------------------------------------------------------------- statements
    def run_body(self, body, env) -> FuncResult:
        res = FuncResult(None, [], [], env)
        self.res = res
        # a generator whose body is one loop yielding one expression per element is the comprehension over that loop: its consumer sees the same sequence
        for_ = _simple_generator(body)
        if for_ is not None:
            core_ = [for_]
            comp_ = ast.ListComp(elt=core_[0].body[0].value.value, generators=[ast.comprehension(target=_load_store(core_[0].target), iter=core_[0].iter, ifs=[], is_async=0)])
            body = [ast.fix_missing_locations(ast.copy_location(ast.Return(value=ast.copy_location(comp_, core_[0])), core_[0]))]
        out_env = self.block(body, env, ())
        res.env = out_env if out_env is not None else getattr(res, "env_at_return", env)
        # `return a if c else b` and `if c: return a` / `else: return b` are the same arms
        def _expand(conds, t):
            if is_t(t, "phi") and t[1] in self.py_tests:
                if (t[1], True) in conds:  # already decided on this path
                    return _expand(conds, t[2])
                if (t[1], False) in conds:
                    return _expand(conds, t[3])
                return _expand(conds + ((t[1], True),), t[2]) + _expand(conds + ((t[1], False),), t[3])
            return [(conds, t)]

        res.returns[:] = [x for conds, t in res.returns for x in _expand(conds, t)]
        rets = list(res.returns)
        if out_env is not None:
            rets.append(((), C(None)))  # fall-through path
        # the return value as a decision tree over the path conditions in source order: `if a: X` / `elif b: Y` / `else: Z`, the guard-clause
        # spelling and nested conditional expressions all give phi(a, X, phi(b, Y, Z))
        def _tree(arms):
            if not arms:
                return None
            conds0, t0 = arms[0]
            if not conds0:
                return t0
            c = conds0[0][0]
            yes, no = [], []
            for conds, t in arms:
                if conds and conds[0][0] == c:
                    (yes if conds[0][1] else no).append((conds[1:], t))
                else:
                    yes.append((conds, t))
                    no.append((conds, t))
            ty, tn = _tree(yes), _tree(no)
            if ty is None:
                return tn
            if tn is None:
                return ty
            return mk_phi(c, ty, tn)

        term = _tree(rets)
        res.ret = term
        return res

    def block(self, stmts, env, conds):
        """returns the fall-through environment or None when every path returned/raised"""
        for i_, st in enumerate(stmts):
            # the explicit short-circuit loop `for x in xs: if T(x): return B` followed by `return not B` is any / all over xs
            nxt = stmts[i_ + 1] if i_ + 1 < len(stmts) else None
            if (isinstance(st, ast.For) and not st.orelse and len(st.body) == 1 and isinstance(st.body[0], ast.If) and not st.body[0].orelse and len(st.body[0].body) == 1
                    and isinstance(st.body[0].body[0], ast.Return) and isinstance(st.body[0].body[0].value, ast.Constant) and isinstance(st.body[0].body[0].value.value, bool)
                    and isinstance(nxt, ast.Return) and isinstance(nxt.value, ast.Constant) and nxt.value.value is (not st.body[0].body[0].value.value)):
                it = _iterable(self.expr(st.iter, env))
                benv = dict(env)
                self.assign(st.target, mk_elem(it), benv)
                test = self.expr(st.body[0].test, benv)
                found = st.body[0].body[0].value.value  # value returned as soon as the test holds
                if found:
                    v = mk_call(G("any"), (mk_fam(it, test),), ())
                else:
                    neg = test[2] if is_t(test, "un") and test[1] == "not" else ("un", "not", test)
                    v = mk_call(G("all"), (mk_fam(it, neg),), ())
                self.res.returns.append((conds, v))
                self.res.env_at_return = env
                return None
            self._extra = ()
            env = self.stmt(st, env, conds)
            if env is None:
                return None
            if isinstance(st, ast.If) and self._extra:
                # a guard clause (`if c: return ...`): what follows runs under the other polarity, exactly as an `else:` block would
                conds = conds + self._extra
            self._extra = ()
        return env

    def stmt(self, st, env, conds):
        ev = self.ev
        self.cur_env = env
        if isinstance(st, ast.Return):
            v = self.expr(st.value, env) if st.value is not None else C(None)
            self.res.returns.append((conds, v))
            self.res.env_at_return = env
            return None
        if isinstance(st, ast.Raise):
            v = self.expr(st.exc, env) if st.exc is not None else C(None)
            self.res.raises.append((conds, v))
            return None
        if isinstance(st, ast.Assign):
            v = self.expr(st.value, env)
            for tgt in st.targets:
                self.assign(tgt, v, env)
            return env
        if isinstance(st, ast.AnnAssign):
            if st.value is not None:
                self.assign(st.target, self.expr(st.value, env), env)
            return env
        if isinstance(st, ast.AugAssign):
            cur = self.expr(_load(st.target), env)
            v = ("bin", _OPS.get(type(st.op), "?"), cur, self.expr(st.value, env))
            self.assign(st.target, v, env)
            return env
        if isinstance(st, ast.Expr):
            v = self.expr(st.value, env)
            c = st.value
            if (isinstance(c, ast.Call) and isinstance(c.func, ast.Attribute) and c.func.attr == "append" and isinstance(c.func.value, ast.Name)
                    and len(c.args) == 1 and not c.keywords and is_t(env.get(c.func.value.id), "list")):
                # xs.append(v) on a local list literal: xs is now [..., v]
                env[c.func.value.id] = ("list", env[c.func.value.id][1] + (self.expr(c.args[0], env),))
            env.setdefault("__effects__", [])
            env["__effects__"] = env["__effects__"] + [v]
            return env
        if isinstance(st, ast.Assert):
            self.res.asserts.append((conds, self.expr(st.test, env)))
            return env
        if isinstance(st, (ast.FunctionDef,)):
            env[st.name] = self.make_closure(st, env, st.name)
            return env
        if isinstance(st, ast.If):
            # the optional-result idiom: `x = first_stage(..)` ... `if x is not None: A else: B` with x a decision tree whose leaves are None or certainly
            # not None.  It is the decision tree itself: A runs at the value leaves (x bound to that value), B at the None leaves - as if the stage's
            # tests had been written here
            tt = st.test
            if (isinstance(tt, ast.Compare) and len(tt.ops) == 1 and isinstance(tt.ops[0], (ast.Is, ast.IsNot)) and isinstance(tt.left, ast.Name)
                    and isinstance(tt.comparators[0], ast.Constant) and tt.comparators[0].value is None and is_t(env.get(tt.left.id), "phi")):
                nm_ = tt.left.id
                nn_ = lambda x: (is_t(x, "attr") and x[1] == P("self") and self.cls is not None and ev.prog.find_method(self.cls, x[2]) is not None) \
                    or (is_t(x, "param") and x[1] in getattr(ev, "nonnull_params", ()))

                def _leaves(v_):
                    return _leaves(v_[2]) + _leaves(v_[3]) if is_t(v_, "phi") else [v_]
                if all(mk_is(l_, C(None), nn_) in (C(True), C(False)) for l_ in _leaves(env[nm_])):
                    b_none, b_val = (st.body, st.orelse) if isinstance(tt.ops[0], ast.Is) else (st.orelse, st.body)
                    cont_ = []

                    def _walk(v_, env_, conds_):
                        if is_t(v_, "phi"):
                            e1_ = _walk(v_[2], dict(env_), conds_ + ((v_[1], True),))
                            e2_ = _walk(v_[3], dict(env_), conds_ + ((v_[1], False),))
                            self.py_tests.add(canon_test(v_[1]))
                            return _join(v_[1], e1_, e2_)
                        env_[nm_] = v_
                        b_ = b_none if mk_is(v_, C(None), nn_) == C(True) else b_val
                        r_ = self.block(b_, env_, conds_) if b_ else env_
                        if r_ is not None:
                            cont_.append(conds_)
                        return r_
                    out_ = _walk(env[nm_], dict(env), conds)
                    self._extra = tuple(c_ for c_ in cont_[0][len(conds):]) if len(cont_) == 1 else ()
                    return out_
            test = self.expr(st.test, env)
            body, orelse = st.body, st.orelse
            while (is_t(test, "un") and test[1] == "not") or (is_t(test, "cmp") and test[1] == "!="):
                # `if not c: A else: B` is `if c: B else: A` (and `a != b` is `not a == b`) - one canonical polarity for path conditions and joins
                if is_t(test, "un"):
                    test, body, orelse = test[2], orelse, body
                else:
                    test, body, orelse = mk_cmp("==", test[2], test[3]), orelse, body
            e1 = self.block(body, dict(env), conds + ((test, True),)) if body else dict(env)
            e2 = self.block(orelse, dict(env), conds + ((test, False),)) if orelse else dict(env)
            self._extra = ((test, False),) if e1 is None and e2 is not None else ((test, True),) if e2 is None and e1 is not None else ()
            out = _join(test, e1, e2)
            self.py_tests.add(canon_test(test))
            return out
        if isinstance(st, ast.Match):
            return self.match(st, env, conds)
        if isinstance(st, ast.For):
            return self.for_(st, env, conds)
        if isinstance(st, ast.While):
            test = self.expr(st.test, env)
            e1 = self.block(st.body, dict(env), conds + ((test, True),))
            if e1 is None:
                return env
            out = dict(env)
            for k, v in e1.items():
                if env.get(k) != v:
                    out[k] = ("opaque", f"while:{k}", (env.get(k), v))
            return out
        if isinstance(st, ast.With):
            ctxs = []
            for it in st.items:
                v = self.expr(it.context_expr, env)
                ctxs.append(v)
                if it.optional_vars is not None:
                    self.assign(it.optional_vars, v, env)
            self.withs = getattr(self, "withs", []) + ctxs
            try:
                return self.block(st.body, env, conds)
            finally:
                self.withs = self.withs[: len(self.withs) - len(ctxs)]
        if isinstance(st, ast.Try):
            e = self.block(st.body, env, conds)
            if e is None:
                return None
            return self.block(st.finalbody, e, conds) if st.finalbody else e
        if isinstance(st, (ast.Pass, ast.Import, ast.ImportFrom, ast.Global, ast.Nonlocal, ast.ClassDef, ast.Delete)):
            return env
        return env

    def for_(self, st, env, conds):
        it = _iterable(self.expr(st.iter, env))
        if is_t(it, "call") and it[1] == G("zip"):
            it = ("zip", it[2])
        elif is_t(it, "call") and it[1] == G("enumerate") and len(it[2]) >= 1:
            it = ("enumerate", it[2][0])
        body_env = dict(env)
        self.assign(st.target, mk_elem(it), body_env)
        e1 = self.block(st.body, body_env, conds + ((("iter", it), True),))
        if e1 is None:
            return env
        if is_t(it, "rpositions") and not any(contains(v, mk_elem(it)) for k, v in e1.items() if k != "__effects__" and k in env and env.get(k) != v):
            it = ("reversed", it[1])  # the counter is used only to fetch the element: the loop ranges over reversed(xs)
        out = dict(env)
        for k, v in e1.items():
            if k in ("__effects__",):
                out[k] = v
                continue
            before = env.get(k)
            if before is None:
                out[k] = v
            elif before != v:
                if is_t(before, "list") and is_t(v, "list") and v[1][: len(before[1])] == before[1]:
                    # a list filled by `append` in the loop is the comprehension over the same iterable
                    added = v[1][len(before[1]):]
                    if not before[1] and len(added) == 1 and not _has_star(v):
                        out[k] = mk_fam(it, added[0])
                    else:
                        out[k] = ("bin", "+", before, ("sumover", it, ("list", added)))
                elif is_t(v, "bin") and v[1] in ("+", "|") and v[2] == before:
                    out[k] = ("bin", v[1], before, ("sumover", it, v[3]))
                else:
                    out[k] = ("loop", it, before, v)
        return out

    def match(self, st, env, conds):
        subj = self.expr(st.subject, env)
        envs = []
        neg = conds
        for case in st.cases:
            cenv = dict(env)
            test = self.pattern(case.pattern, subj, cenv)
            if case.guard is not None:
                g = self.expr(case.guard, cenv)
                test = ("bool", "and", (test, g)) if test != C(True) else g
            e = self.block(case.body, cenv, neg + ((test, True),))
            envs.append((test, e))
            neg = neg + ((test, False),)
            if test == C(True):
                break
        else:
            envs.append((C(True), dict(env)))
        out = None
        for test, e in reversed(envs):
            if out is None:
                out = e
            else:
                out = _join(test, e, out)
        return out

    def pattern(self, pat, subj, env):
        """bind names in env; return the test term"""
        if isinstance(pat, ast.MatchAs):
            if pat.pattern is None:
                if pat.name:
                    env[pat.name] = subj
                return C(True)
            t = self.pattern(pat.pattern, subj, env)
            if pat.name:
                env[pat.name] = subj
            return t
        if isinstance(pat, ast.MatchValue):
            return mk_cmp("==", subj, self.expr(pat.value, env))
        if isinstance(pat, ast.MatchSingleton):
            return ("is", subj, C(pat.value))
        if isinstance(pat, ast.MatchClass):
            name = _dotted(pat.cls) or "?"
            short = name.split(".")[-1]
            fields = None
            cis = self.ev.prog.class_index.get(short, [])
            if cis:
                ci = cis[0]
                if len(cis) > 1 and self.module is not None:
                    imp = self.module.imports.get(short, "")
                    for c in cis:
                        if c.module is self.module or imp.startswith(c.module.dotted):
                            ci = c
                fields = ci.fields
            tests = [("isinst", subj, short)]
            for i, sp in enumerate(pat.patterns):
                if fields and i < len(fields):
                    sub = mk_attr(self.ev, subj, fields[i])
                elif i == 0 and len(pat.patterns) == 1 and not cis and short in ("bool", "int", "float", "str", "bytes", "bytearray", "tuple", "list", "dict", "set", "frozenset"):
                    sub = subj  # `case bool(x)`: for these builtins the single positional sub-pattern matches the subject itself
                else:
                    sub = ("matcharg", subj, short, i)
                t = self.pattern(sp, sub, env)
                if t != C(True):
                    tests.append(t)
            for kw, sp in zip(pat.kwd_attrs, pat.kwd_patterns):
                t = self.pattern(sp, mk_attr(self.ev, subj, kw), env)
                if t != C(True):
                    tests.append(t)
            return tests[0] if len(tests) == 1 else ("bool", "and", tuple(tests))
        if isinstance(pat, ast.MatchSequence):
            tests = []
            nstar = sum(isinstance(sp, ast.MatchStar) for sp in pat.patterns)
            if not ((is_t(subj, "tuple") or is_t(subj, "list")) and not _has_star(subj) and (len(subj[1]) == len(pat.patterns) if not nstar else len(subj[1]) >= len(pat.patterns) - 1)):
                # a sequence pattern also tests the length of a subject whose length is not evident
                ln = ("call", G("len"), (subj,), ())
                tests.append(mk_cmp("==", ln, C(len(pat.patterns))) if not nstar else ("cmp", ">=", ln, C(len(pat.patterns) - 1)))
            for i, sp in enumerate(pat.patterns):
                if isinstance(sp, ast.MatchStar):
                    if sp.name:
                        env[sp.name] = mk_slice(subj, i, None)
                    continue
                t = self.pattern(sp, mk_proj(subj, i), env)
                if t != C(True):
                    tests.append(t)
            if not tests:
                return C(True)
            return tests[0] if len(tests) == 1 else ("bool", "and", tuple(tests))
        if isinstance(pat, ast.MatchOr):
            return ("bool", "or", tuple(self.pattern(p, subj, env) for p in pat.patterns))
        return ("opaque", "pattern", ())

    def assign(self, tgt, v, env):
        if isinstance(tgt, ast.Name):
            env[tgt.id] = v
        elif isinstance(tgt, (ast.Tuple, ast.List)):
            n = len(tgt.elts)
            star = [i for i, e in enumerate(tgt.elts) if isinstance(e, ast.Starred)]
            for i, e in enumerate(tgt.elts):
                if isinstance(e, ast.Starred):
                    after = n - i - 1
                    self.assign(e.value, mk_slice(v, i, -after if after else None), env)
                elif star and i > star[0]:
                    self.assign(e, mk_proj(v, i - n), env)
                else:
                    self.assign(e, mk_proj(v, i), env)
        elif isinstance(tgt, ast.Attribute):
            key = _dotted(tgt)
            if key:
                env[key] = v
        elif isinstance(tgt, ast.Subscript):
            base = _dotted(tgt.value)
            if base:
                cur = env.get(base, self.expr(tgt.value, env))
                env[base] = ("setitem", cur, self.expr(tgt.slice, env), v)
        elif isinstance(tgt, ast.Starred):
            self.assign(tgt.value, v, env)

    # -------------------------------------------------------------- expressions
    def make_closure(self, node, env, name):
        key = next(self.ev._ids)
        self.ev.closures[key] = Closure(node, env, self.module, self.cls, name)
        return ("closure", key)

    def expr(self, e, env):
        ev = self.ev
        if e is None:
            return C(None)
        if isinstance(e, ast.Constant):
            return C(e.value)
        if isinstance(e, ast.Name):
            if e.id in env:
                return env[e.id]
            return self.global_name(e.id)
        if isinstance(e, ast.Attribute):
            d = _dotted(e)
            if d and d in env:
                return env[d]
            # imported module alias chain -> canonical global
            if d:
                head = d.split(".")[0]
                if head not in env and self.module is not None and head in self.module.imports:
                    tgt = self.module.imports[head].split(".")[-1]
                    if tgt not in ev.prog.class_index and not (self.module.imports[head].startswith("genjax") and tgt[:1].isupper()):
                        return G(ev.prog.canon(self.module, d))
            return mk_attr(ev, self.expr(e.value, env), e.attr)
        if isinstance(e, ast.Tuple):
            return mk_tuple(self.expr(x, env) for x in e.elts)
        if isinstance(e, ast.List):
            return ("list", tuple(self.expr(x, env) for x in e.elts))
        if isinstance(e, ast.Set):
            return ("set", tuple(self.expr(x, env) for x in e.elts))
        if isinstance(e, ast.Dict):
            return ("dict", tuple((self.expr(k, env) if k is not None else C("**"), self.expr(v, env)) for k, v in zip(e.keys, e.values)))
        if isinstance(e, ast.Starred):
            v = self.expr(e.value, env)
            if is_t(v, "tuple") and len(v[1]) == 1 and is_t(v[1][0], "star"):
                return v[1][0]
            return ("star", v)
        if isinstance(e, ast.BinOp):
            return mk_bin(_OPS.get(type(e.op), "?"), self.expr(e.left, env), self.expr(e.right, env))
        if isinstance(e, ast.UnaryOp):
            v = self.expr(e.operand, env)
            op = {ast.USub: "-", ast.Not: "not", ast.Invert: "~", ast.UAdd: "+"}[type(e.op)]
            if op == "-" and is_t(v, "const") and isinstance(v[1], (int, float)):
                return C(-v[1])
            return ("un", op, v)
        if isinstance(e, ast.BoolOp):
            return ("bool", "and" if isinstance(e.op, ast.And) else "or", tuple(self.expr(x, env) for x in e.values))
        if isinstance(e, ast.Compare):
            left = self.expr(e.left, env)
            parts = []
            for op, r in zip(e.ops, e.comparators):
                right = self.expr(r, env)
                name = _CMP.get(type(op), "?")
                if name in ("is", "is not"):
                    # (self.<method> is a bound method: never None)
                    t = mk_is(left, right, lambda x: (is_t(x, "attr") and x[1] == P("self") and self.cls is not None and ev.prog.find_method(self.cls, x[2]) is not None)
                              or (is_t(x, "param") and x[1] in getattr(ev, "nonnull_params", ())))
                    if name == "is not":
                        t = ("un", "not", t)
                else:
                    t = mk_cmp(name, left, right)
                parts.append(t)
                left = right
            return parts[0] if len(parts) == 1 else ("bool", "and", tuple(parts))
        if isinstance(e, ast.IfExp):
            test = self.expr(e.test, env)
            self.py_tests.add(canon_test(test))
            return mk_phi(test, self.expr(e.body, env), self.expr(e.orelse, env))
        if isinstance(e, ast.Lambda):
            return self.make_closure(e, env, "<lambda>")
        if isinstance(e, ast.Subscript):
            base = self.expr(e.value, env)
            return self.subscript(base, e.slice, env)
        if isinstance(e, ast.Call):
            return self.call(e, env)
        if isinstance(e, (ast.GeneratorExp, ast.ListComp, ast.SetComp)):
            return self.comp(e, env)
        if isinstance(e, ast.DictComp):
            cenv = dict(env)
            it = self.comp_iter(e.generators, cenv)
            it_n, k_, v_ = norm_it(it), self.expr(e.key, cenv), self.expr(e.value, cenv)
            if k_ == ("elem", it_n) and v_ == ("index", it_n, ("elem", it_n)) and not (isinstance(it, tuple) and len(it) == 2 and isinstance(it[1], tuple) and it[0] == it_n):
                return ("call", G("dict"), (it_n,), ())  # {k: d[k] for k in d} is dict(d)
            return ("dictfam", it_n, k_, v_)
        if isinstance(e, ast.JoinedStr):
            return ("opaque", "fstring", ())
        if isinstance(e, ast.NamedExpr):
            v = self.expr(e.value, env)
            self.assign(e.target, v, env)
            return v
        if isinstance(e, ast.Slice):
            return ("sliceobj", self.expr(e.lower, env), self.expr(e.upper, env), self.expr(e.step, env))
        if isinstance(e, ast.Await):
            return self.expr(e.value, env)
        return ("opaque", type(e).__name__, ())

    def global_name(self, name):
        m = self.module
        if m is not None:
            if name in m.imports:
                return G(self.ev.prog.canon(m, name))
            if name in m.funcs or name in m.classes or name in m.assigns:
                return G(m.dotted + "." + name)
        return G(name)

    def subscript(self, base, sl, env):
        if isinstance(sl, ast.Constant) and isinstance(sl.value, int):
            return mk_proj(base, sl.value)
        if isinstance(sl, ast.UnaryOp) and isinstance(sl.op, ast.USub) and isinstance(sl.operand, ast.Constant):
            return mk_proj(base, -sl.operand.value)
        if isinstance(sl, ast.Slice):
            lo = _const_int(sl.lower)
            hi = _const_int(sl.upper)
            if sl.step is None and (sl.lower is None or lo is not None) and (sl.upper is None or hi is not None):
                return mk_slice(base, lo, hi)
            return ("index", base, self.expr(sl, env))
        # type subscripts like ScanTrace[Carry, Y] keep the base
        if is_t(base, "global"):
            short = base[1].split(".")[-1]
            if short in self.ev.prog.class_index:
                return base
        ix = self.expr(sl, env)
        # xs[i] with i the running index of `for i in range(a, len(xs))` is the element of xs[a:] at that position
        if ix == ("enumidx", base):
            return ("elem", base)
        if is_t(ix, "bin") and ix[1] == "+" and is_t(ix[3], "enumidx") and ix[3][1] == ("index", base, ("sliceobj", ix[2], C(None), C(None))):
            return ("elem", ix[3][1])
        # xs[len(xs) - k] / xs[-k] with k counting 1..len(xs), xs[i] with i running len(xs)-1 .. 0: the element of reversed(xs)
        if ix == ("rindex", base) or ix == ("un", "-", ("rcount", base)) or ix == ("bin", "-", ("call", G("len"), (base,), ()), ("rcount", base)):
            return ("elem", ("reversed", base))
        return ("index", base, ix)

    def comp_iter(self, gens, cenv):
        its = []
        for g in gens:
            it = _iterable(self.expr(g.iter, cenv))
            if is_t(it, "call") and it[1] == G("zip"):
                it = ("zip", it[2])
            elif is_t(it, "call") and it[1] == G("enumerate") and len(it[2]) >= 1:
                it = ("enumerate", it[2][0])
            self.assign(g.target, mk_elem(it), cenv)
            conds = tuple(self.expr(c, cenv) for c in g.ifs)
            its.append((it, conds) if conds else it)
        return its[0] if len(its) == 1 else ("nest", tuple(its))

    def comp(self, e, env):
        if len(e.generators) == 1 and not e.generators[0].ifs:
            lit = _iterable(self.expr(e.generators[0].iter, env))
            if (is_t(lit, "tuple") or is_t(lit, "list")) and not _has_star(lit) and 0 < len(lit[1]) <= 8:
                # a comprehension over a literal tuple is the literal list of its instances
                out = []
                for item in lit[1]:
                    cenv = dict(env)
                    self.assign(e.generators[0].target, item, cenv)
                    out.append(self.expr(e.elt, cenv))
                return ("list", tuple(out))
        if len(e.generators) == 1 and e.generators[0].ifs:
            lit = _iterable(self.expr(e.generators[0].iter, env))
            if (is_t(lit, "tuple") or is_t(lit, "list")) and not _has_star(lit) and 0 < len(lit[1]) <= 3:
                # a FILTERED comprehension over a short literal tuple: the join, over the filter outcomes, of the literal lists of the kept instances
                insts = []
                for item in lit[1]:
                    cenv = dict(env)
                    self.assign(e.generators[0].target, item, cenv)
                    tests_ = [self.expr(c_, cenv) for c_ in e.generators[0].ifs]
                    insts.append((tests_[0] if len(tests_) == 1 else ("bool", "and", tuple(tests_)), self.expr(e.elt, cenv)))

                def _build(i_, kept_):
                    if i_ == len(insts):
                        return ("list", tuple(kept_))
                    self.py_tests.add(canon_test(insts[i_][0]))
                    return mk_phi(insts[i_][0], _build(i_ + 1, kept_ + [insts[i_][1]]), _build(i_ + 1, kept_))
                return _build(0, [])
        cenv = dict(env)
        it = self.comp_iter(e.generators, cenv)
        body = self.expr(e.elt, cenv)
        return mk_fam(it, body)

    # -------------------------------------------------------------- calls
    def call(self, e: ast.Call, env):
        ev = self.ev
        ev.calls_seen += 1
        f = self.expr(e.func, env)
        args = [self.expr(a, env) for a in e.args]
        kwargs = {}
        for k in e.keywords:
            if k.arg is None:
                kwargs["**"] = self.expr(k.value, env)
            else:
                kwargs[k.arg] = self.expr(k.value, env)
        # f(*itertools.chain(a, b)) is f(*a, *b)
        flat_ = []
        for x in args:
            if is_t(x, "star") and is_t(x[1], "call") and x[1][1] in (G("itertools.chain"), G("chain")) and not x[1][3]:
                flat_.extend(("star", y) for y in x[1][2])
            elif is_t(x, "star") and (is_t(x[1], "tuple") or is_t(x[1], "list")):
                flat_.extend(x[1][1])  # f(*(a, *b)) is f(a, *b)
            else:
                flat_.append(x)
        args = flat_
        n_inl_ = ev.calls_inlined
        res = self.call_value(f, args, kwargs)
        # calls evaluated inside `with ctx:` blocks (through inlined helpers too): rules about the ambient context of a call read this table
        # (a call through a joined callee is the join of the calls: each of them is recorded)
        for _c, leaf_ in (phi_paths(res) if is_t(res, "phi") else [((), res)]) if ev.calls_inlined == n_inl_ else ():  # (a value flowing out of an inlined callee was recorded there)
            if is_t(leaf_, "call"):
                ev.call_ctx.setdefault(leaf_, []).append(tuple(getattr(self, "withs", None) or ()))
        return res

    # positional order of the generative-function-interface methods: `gf.edit(key, tr, request=r, argdiffs=a)` is the same call as `gf.edit(key, tr, r, a)`
    _GFI_SIG = {
        "simulate": ("key", "args"), "assess": ("sample", "args"), "generate": ("key", "constraint", "args"), "importance": ("key", "constraint", "args"),
        "project": ("key", "trace", "selection"), "edit": ("key", "trace", "edit_request", "argdiffs"), "update": ("key", "trace", "constraint", "argdiffs"),
        "propose": ("key", "args"), "random_weighted": None, "estimate_logpdf": None,
    }

    def call_value(self, f, args, kwargs):
        ev = self.ev
        if kwargs and is_t(f, "attr") and f[1] == P("self") and self.cls is not None and "**" not in kwargs and not any(is_t(x, "star") for x in args):
            # self.m(a, p=b): keywords naming the next parameters of the class's own method become positional
            hit_ = ev.prog.find_method(self.cls, f[2])
            if hit_ is not None:
                fn_ = hit_[1]
                sig = [a_.arg for a_ in fn_.args.args]
                if not _is_static(fn_) and sig:
                    sig = sig[1:]
                args, kwargs = list(args), dict(kwargs)
                for pn_ in sig[len(args):]:
                    if pn_ in kwargs:
                        args.append(kwargs.pop(pn_))
                    else:
                        break
        if kwargs and is_t(f, "attr") and f[1] != P("self") and "**" not in kwargs and f[2] not in self._GFI_SIG:
            fl = next((h for h in ev.fluent()[1].values() if h[0] == f[2]), None)
            if fl is not None:
                sig = tuple(fl[2])
                if len(args) <= len(sig) and set(kwargs) <= set(sig[len(args):]) and all(n in kwargs for n in sig[len(args):len(args) + len(kwargs)]):
                    args = list(args) + [kwargs[n] for n in sig[len(args):len(args) + len(kwargs)]]
                    kwargs = {}
        if kwargs and is_t(f, "attr") and is_t(f[1], "ctor") and "**" not in kwargs and not any(is_t(x, "star") for x in args):
            # Cls(...).m(a, p=b): the receiver's class is known, its method's parameter names bind the keywords
            cis_ = ev.prog.class_index.get(f[1][1], [])
            hit_ = ev.prog.find_method(cis_[0], f[2]) if len(cis_) == 1 else None
            if hit_ is not None and not _is_static(hit_[1]):
                sig = [a_.arg for a_ in hit_[1].args.args][1:]
                args, kwargs = list(args), dict(kwargs)
                for pn_ in sig[len(args):]:
                    if pn_ in kwargs:
                        args.append(kwargs.pop(pn_))
                    else:
                        break
        if kwargs and is_t(f, "attr") and f[1] != P("self") and "**" not in kwargs and not self._GFI_SIG.get(f[2]) and not any(is_t(x, "star") for x in args):
            sig = ev.method_sig(f[2])
            if sig:
                args, kwargs = list(args), dict(kwargs)
                for pn_ in sig[len(args):]:
                    if pn_ in kwargs:
                        args.append(kwargs.pop(pn_))
                    else:
                        break
        if kwargs and is_t(f, "attr") and self._GFI_SIG.get(f[2]) and "**" not in kwargs:
            sig = self._GFI_SIG[f[2]]
            if len(args) <= len(sig) and set(kwargs) <= set(sig[len(args):]) and all(n in kwargs for n in sig[len(args):len(args) + len(kwargs)]):
                args = list(args) + [kwargs[n] for n in sig[len(args):len(args) + len(kwargs)]]
                kwargs = {}
        if is_t(f, "attr") and f[2] in ev.call_aliases() and f[1] != P("self"):
            f = f[1]
        # (f if c else g)(a if c else b) is (f(a) if c else g(b)): a call through a joined callee / receiver is the join of the calls
        rcv = f[1] if is_t(f, "attr") else f
        if is_t(rcv, "phi"):
            c = rcv[1]
            arms = []
            for pol in (True, False):
                fa = resolve(f, c, pol)
                arms.append(self.call_value(fa, [resolve(x, c, pol) for x in args], {k: resolve(v, c, pol) for k, v in kwargs.items()}))
            return mk_phi(c, arms[0], arms[1])
        # fluent spellings: genjax.switch(x, y) is x.switch(y); genjax.vmap(in_axes=a)(x) is x.vmap(a)
        if is_t(f, "global") and f[1].startswith("genjax") and not kwargs and args and not is_t(args[0], "star") and args[0] != P("self"):
            hit = ev.fluent()[0].get(f[1].split(".")[-1])
            if hit is not None and (hit[2] or len(args) - 1 == len(hit[1])) and len(args) - 1 >= len(hit[1]):
                return self.call_value(("attr", args[0], hit[0]), list(args[1:]), {})
        if (is_t(f, "call") and is_t(f[1], "global") and f[1][1].startswith("genjax") and not f[2] and len(args) == 1 and not kwargs and not is_t(args[0], "star")
                and args[0] != P("self")):
            hit = ev.fluent()[1].get(f[1][1].split(".")[-1])
            if hit is not None and all(k in hit[1] for k, _ in f[3]):
                given = {hit[1][k]: v for k, v in f[3]}
                pos = []
                for pn in hit[2]:
                    if pn in given:
                        pos.append(given.pop(pn))
                    else:
                        break
                if not given:
                    return self.call_value(("attr", args[0], hit[0]), pos, {})
        # operator.add(a, b) is a + b
        if is_t(f, "global") and f[1].startswith("operator.") and not kwargs and not any(is_t(x, "star") for x in args):
            opn = f[1].split(".", 1)[1]
            if opn in _OPERATOR_BIN and len(args) == 2:
                return mk_bin(_OPERATOR_BIN[opn], args[0], args[1])
            if opn in _OPERATOR_CMP and len(args) == 2:
                return mk_cmp(_OPERATOR_CMP[opn], args[0], args[1])
            if opn in ("neg", "not_", "invert") and len(args) == 1:
                return ("un", {"neg": "-", "not_": "not", "invert": "~"}[opn], args[0])
        # TABLE.get(type(x), default)(args) / TABLE[type(x)](args) with TABLE a module-level dictionary keyed by classes: the chain of isinstance cases
        if is_t(f, "call") and is_t(f[1], "attr") and f[1][2] == "get" and is_t(f[1][1], "global") and len(f[2]) == 2 and is_t(f[2][0], "call") and f[2][0][1] == G("type") and len(f[2][0][2]) == 1:
            tbl = self._class_table(f[1][1])
            if tbl is not None:
                x = f[2][0][2][0]
                out = self.call_value(f[2][1], args, kwargs)
                for cname, fn_ in reversed(tbl):
                    out = mk_phi(("isinst", x, cname), self.call_value(fn_, args, kwargs), out)
                return out
        if is_t(f, "closure_maker") and len(args) == 1 and not kwargs:
            return ("ctor", "Closure", (f[1], args[0]), ())
        # Cls[T](...) is Cls(...)
        if is_t(f, "index") and is_t(f[1], "global") and f[1][1].split(".")[-1] in ev.prog.class_index:
            return self.call_value(f[1], args, kwargs)
        # functools.partial(g, a, b)(c) is g(a, b, c)
        if is_t(f, "partial"):
            return self.call_value(f[1], list(f[2]) + list(args), {**dict(f[3]), **kwargs})
        # ---- closures
        clo = ev.closure_of(f)
        if clo is not None:
            r = self.inline(clo, args, kwargs)
            if r is not None:
                return r
        if is_t(f, "global"):
            name = f[1]
            short = name.split(".")[-1]
            r = self.call_global(name, short, f, args, kwargs)
            if r is not None:
                return r
        if is_t(f, "attr"):
            r = self.call_attr(f, args, kwargs)
            if r is not None:
                return r
        # call of a call: jax.vmap(f, in_axes)(args) / jax.grad(f)(x) / transform(src)(args)
        if is_t(f, "call"):
            inner = f[1]
            if is_t(inner, "global") and inner[1].split(".")[-1] == "grad" and f[2] and ev.closure_of(f[2][0]) is not None:
                return ("gradof", self.call_value(f[2][0], args, kwargs), tuple(args))
            if inner == G("jax.vmap") or inner == G("jax.vmap".replace("jax.", "jax.")) or (is_t(inner, "global") and inner[1] in ("jax.vmap", "vmap")):
                r = self.vmap(f, args, kwargs)
                if r is not None:
                    return r
            if is_t(inner, "global") and inner[1].endswith("incremental.incremental") or (is_t(inner, "global") and inner[1].split(".")[-1] in ("incremental", "stateful")):
                return ("call", f, tuple(args), tuple(sorted(kwargs.items())))
        return mk_call(f, args, sorted(kwargs.items()))

    def _class_table(self, g):
        """[(class name, function term)] of a module-level `NAME = {Cls: fn, ...}` dictionary (None when g is not one)"""
        name = g[1]
        modpath, _, short = name.rpartition(".")
        for m in self.ev.prog.modules.values():
            if m.dotted == modpath and short in m.assigns and isinstance(m.assigns[short], ast.Dict):
                d = m.assigns[short]
                out = []
                ctx = _Ctx(self.ev, m, None, self.depth + 1)
                for k, v in zip(d.keys, d.values):
                    kn = _dotted(k) if k is not None else None
                    if not kn or kn.split(".")[-1] not in self.ev.prog.class_index:
                        return None
                    out.append((kn.split(".")[-1], ctx.expr(v, {})))
                return out
        return None

    def inline(self, clo: Closure, args, kwargs):
        ev = self.ev
        if self.depth >= ev.max_depth:
            ev.notes.append(f"inlining depth bound reached at {clo.name}")
            return None
        node = clo.node
        if id(node) in ev._stack:
            return None  # recursion: keep the call opaque
        ev._stack.append(id(node))
        try:
            return self._inline(clo, args, kwargs)
        finally:
            ev._stack.pop()

    def _inline(self, clo: Closure, args, kwargs):
        ev = self.ev
        node = clo.node
        a = node.args
        env = dict(clo.env)
        params = [x.arg for x in a.posonlyargs + a.args]
        # expand starred call arguments when they are tuples
        flat = []
        for x in args:
            if is_t(x, "star"):
                if is_t(x[1], "tuple") and not _has_star(x[1]):
                    flat.extend(x[1][1])
                else:
                    flat.append(x)
            else:
                flat.append(x)
        defaults = a.defaults
        ndef = len(defaults)
        star_at = next((i for i, x in enumerate(flat) if is_t(x, "star")), None)
        for i, p in enumerate(params):
            if star_at is not None and i >= star_at:
                env[p] = mk_proj(flat[star_at][1], i - star_at)
            elif i < len(flat):
                env[p] = flat[i]
            elif p in kwargs:
                env[p] = kwargs[p]
            else:
                di = i - (len(params) - ndef)
                if 0 <= di < ndef:
                    env[p] = _Ctx(ev, clo.module, clo.cls, self.depth + 1).expr(defaults[di], dict(clo.env))
                else:
                    env[p] = ("opaque", f"unbound:{p}", ())
        if a.vararg:
            rest = flat[len(params):] if star_at is None or star_at >= len(params) else [("star", mk_slice(flat[star_at][1], len(params) - star_at, None))]
            env[a.vararg.arg] = mk_tuple(rest)
        for i, k in enumerate(a.kwonlyargs):
            if k.arg in kwargs:
                env[k.arg] = kwargs[k.arg]
            elif a.kw_defaults[i] is not None:
                env[k.arg] = _Ctx(ev, clo.module, clo.cls, self.depth + 1).expr(a.kw_defaults[i], dict(clo.env))
        if a.kwarg:
            env[a.kwarg.arg] = ("dict", tuple((C(k), v) for k, v in kwargs.items() if k not in params))
        sub = _Ctx(ev, clo.module, clo.cls, self.depth + 1)
        sub.withs = list(getattr(self, "withs", []))
        body = [ast.Return(value=node.body)] if isinstance(node, ast.Lambda) else node.body
        res = sub.run_body(body, env)
        ev.calls_inlined += 1
        # side effects on the shared `self` object (handler state) and recorded effect calls flow back to the caller
        cur = getattr(self, "cur_env", None)
        if cur is not None and env.get("self") is not None and env.get("self") == cur.get("self", P("self") if self.cls is not None else None):
            for k, v in res.env.items():
                if k.startswith("self.") and clo.env.get(k) != v:
                    cur[k] = v
            if res.env.get("__effects__"):
                cur["__effects__"] = cur.get("__effects__", []) + [e for e in res.env["__effects__"] if e not in cur.get("__effects__", [])]
        elif cur is not None and isinstance(node, (ast.FunctionDef, ast.Lambda)) and res.env.get("__effects__") and (
                clo.env or (self.cls is not None and clo.cls is self.cls and node.name.startswith("_") and not node.name.startswith("__") and _is_static(node))):
            # a local function shares the caller's mutable objects: keep its effect calls visible; so does a private static stage of the same class
            # (it works on the objects it is handed, or on the one it creates and hands back)
            cur["__effects__"] = cur.get("__effects__", []) + [e for e in res.env["__effects__"] if e not in cur.get("__effects__", [])]
        # propagate raise / assert facts upward (rules sometimes need them)
        if hasattr(self, "res"):
            self.res.asserts.extend(res.asserts)
            for c, x in res.raises:
                self.res.raises.append((c, x))
        return res.ret if res.ret is not None else C(None)

    def call_global(self, name, short, f, args, kwargs):
        ev = self.ev
        m = self.module
        # repo function in some module -> inline
        if short == "tree_choose" and len(args) == 2:
            return ("choose", args[0], args[1])
        if short == "multi_switch" and len(args) == 3:
            return self.multi_switch(args[0], args[1], args[2])
        target = self.resolve_func(name)
        if target is not None:
            tm, fn = target
            local = self.module is not None and tm is self.module
            if (local or short in ev.inline_funcs) and short not in _NEVER_INLINE and short not in ev.opaque_funcs and not _is_opaque_fn(fn):
                clo = Closure(fn, {}, tm, None, fn.name)
                r = self.inline(clo, args, kwargs)
                if r is not None:
                    return r
        # repo class -> constructor
        if short in ev.namedtuples()[0] and (name.startswith("genjax") or "." not in name) and "**" not in kwargs and len(args) == 1 and is_t(args[0], "star") and not kwargs:
            # NT(*x) succeeds only for len(x) == number of fields: it is then (x[0], .., x[n-1])
            args = [mk_proj(args[0][1], i_) for i_ in range(len(ev.namedtuples()[0][short]))]
        if short in ev.namedtuples()[0] and (name.startswith("genjax") or "." not in name) and "**" not in kwargs and not any(is_t(x, "star") for x in args):
            flds_nt = ev.namedtuples()[0][short]
            vals = list(args) + [kwargs[f_] for f_ in flds_nt[len(args):] if f_ in kwargs]
            if len(vals) == len(flds_nt):
                tup_ = mk_tuple(vals)  # a NamedTuple is the tuple of its fields
                _NT_CLASS[tup_] = (short, tuple(flds_nt))  # remembered so that `.field` on this very tuple is its projection even when the field name is not unique
                return tup_
        if short in ev.prog.class_index and (name.startswith("genjax") or "." not in name):
            # Cls(a, field=b) is Cls(a, b): keywords naming the next dataclass fields become positional
            cis_ = ev.prog.class_index[short]
            flds_ = []
            if len(cis_) == 1:
                init_ = ev.prog.find_method(cis_[0], "__init__")
                # an explicit __init__ names the constructor's parameters; a dataclass's fields do otherwise
                flds_ = [a_.arg for a_ in init_[1].args.args][1:] if init_ is not None and not init_[1].args.vararg else list(cis_[0].fields or [])
            if kwargs and "**" not in kwargs and flds_ and not any(is_t(x, "star") for x in args):
                args, kwargs = list(args), dict(kwargs)
                for fld in flds_[len(args):]:
                    if fld in kwargs:
                        args.append(kwargs.pop(fld))
                    else:
                        break
            return ("ctor", short, tuple(args), tuple(sorted(kwargs.items())))
        if name in _TREE_MAP or (short == "tree_map"):
            return self.tree_map(args, kwargs)
        if name in _WHERE and len(args) == 3:
            return ("where", args[0], args[1], args[2])
        if name in ("jax.lax.cond",) and len(args) >= 3:
            return mk_phi(args[0], self.call_value(args[1], args[3:], {}), self.call_value(args[2], args[3:], {}))
        if name in ("jax.lax.scan", "jax.lax.scan".replace("jax.lax.", "jax.lax.")) or (short == "scan" and name.startswith("jax")):
            return self.scan(args, kwargs)
        if short in ("list", "tuple") and len(args) == 1 and (is_t(args[0], "fam") or is_t(args[0], "mswitch")):
            return args[0]
        if name in ("functools.partial", "partial") and args and "**" not in kwargs:
            return ("partial", args[0], tuple(args[1:]), tuple(sorted(kwargs.items())))
        if short == "split_list" and name.startswith("jax") and len(args) == 2 and is_t(args[1], "list") and len(args[1][1]) == 1:
            # jax.util.split_list(xs, [n]) is (xs[:n], xs[n:])
            n_ = args[1][1][0]
            return mk_tuple((("index", args[0], ("sliceobj", C(None), n_, C(None))), ("index", args[0], ("sliceobj", n_, C(None), C(None)))))
        # reduce(f, xs) without an initial value over a literal sequence (or a join of such): the left fold written out; a single element is itself
        if name in ("functools.reduce", "reduce") and len(args) == 2 and not kwargs:
            def _fold(xs_):
                if is_t(xs_, "phi"):
                    a_, b_ = _fold(xs_[2]), _fold(xs_[3])
                    return mk_phi(xs_[1], a_, b_) if a_ is not None and b_ is not None else None
                if (is_t(xs_, "list") or is_t(xs_, "tuple")) and not _has_star(xs_):
                    if not xs_[1]:
                        return ("opaque", "reduce-of-empty-sequence", ())  # raises TypeError
                    acc_ = xs_[1][0]
                    for x_ in xs_[1][1:]:
                        acc_ = self.call_value(args[0], [acc_, x_], {})
                    return acc_
                return None
            r_ = _fold(args[1])
            if r_ is not None:
                return r_
        # itertools.starmap(f, xs) is (f(*x) for x in xs)
        if name == "itertools.starmap" and len(args) == 2 and not kwargs:
            it_ = _iterable(args[1])
            el_ = mk_elem(it_)
            return mk_fam(it_, self.call_value(args[0], list(el_[1]) if is_t(el_, "tuple") and not _has_star(el_) else [("star", el_)], {}))
        if name in ("functools.reduce", "reduce") and len(args) == 3 and not kwargs:
            # functools.reduce(f, xs, init) is the loop `acc = init; for x in xs: acc = f(acc, x)`
            it_ = _iterable(args[1])
            step_ = self.call_value(args[0], [args[2], mk_elem(it_)], {})
            it_ = norm_it(it_)  # a fold over [g(x) for x in xs] is a fold over xs (the element above is already g(x))
            if is_t(step_, "bin") and step_[1] in ("+", "|") and step_[2] == args[2] and not contains(step_[3], args[2]):
                return ("bin", step_[1], args[2], ("sumover", it_, step_[3]))  # the accumulation `acc op= g(x)`, as the for-loop spelling gives it
            return ("loop", it_, args[2], step_)
        if name in ("all", "any") and len(args) == 1 and not kwargs and is_t(args[0], "call") and args[0][1] in (G("map"), G("jax.util.safe_map")) and len(args[0][2]) == 2 and not args[0][3]:
            # all(map(f, xs)) is all(f(x) for x in xs)
            it_ = _iterable(args[0][2][1])
            return mk_call(f, (mk_fam(it_, self.call_value(args[0][2][0], [mk_elem(it_)], {})),), ())
        if short == "reversed" and len(args) == 1:
            return ("reversed", args[0])
        if short == "isinstance" and len(args) == 2:
            names = args[1]
            if is_t(names, "tuple"):
                ns = tuple(show(x) for x in names[1])
            else:
                ns = (show(names),)
            return ("isinst", args[0], "|".join(n.split(".")[-1] for n in ns))
        return None

    def multi_switch(self, idx, fs, f_args):
        if is_t(fs, "phi") and is_t(f_args, "phi") and fs[1] == f_args[1]:
            return mk_phi(fs[1], self.multi_switch(idx, fs[2], f_args[2]), self.multi_switch(idx, fs[3], f_args[3]))
        for fam_ in (fs, f_args):
            if is_t(fam_, "fam") and is_t(fam_[2], "phi"):
                # the branch functions / arguments were chosen by a Python-level test: one switch per outcome
                c = fam_[2][1]
                return mk_phi(c, self.multi_switch(idx, resolve(fs, c, True), resolve(f_args, c, True)), self.multi_switch(idx, resolve(fs, c, False), resolve(f_args, c, False)))
        if is_t(fs, "fam") and is_t(f_args, "fam"):
            it = fs[1] if fs[1] == f_args[1] else ("zip", (fs[1], f_args[1]))
            a = f_args[2]
            call_args = list(a[1]) if is_t(a, "tuple") else [("star", a)]
            body = self.call_value(fs[2], call_args, {})
            return ("mswitch", idx, ("fam", it, body))
        return ("mswitch", idx, ("fam", ("zip", (fs, f_args)), ("call", mk_elem(fs), (("star", mk_elem(f_args)),), ())))

    def resolve_func(self, name):
        ev = self.ev
        if "." not in name:
            return None
        modpath, _, fname = name.rpartition(".")
        for m in ev.prog.modules.values():
            if m.dotted == modpath and fname in m.funcs:
                return m, m.funcs[fname]
        # re-exported through a package __init__: search uniquely by name inside genjax
        if modpath.startswith("genjax"):
            hits = [(m, m.funcs[fname]) for m in ev.prog.modules.values() if fname in m.funcs]
            if len(hits) == 1:
                return hits[0]
        return None

    def call_attr(self, f, args, kwargs):
        ev = self.ev
        obj, name = f[1], f[2]
        # self.method(...) -> inline same-class / inherited helper
        if obj == P("self") and self.cls is not None and name not in ev.opaque_methods:
            hit = ev.prog.find_method(self.cls, name)
            if hit is not None:
                ci, fn = hit
                if not _is_abstract(fn) and not _is_opaque_fn(fn) and not ev.overridden(self.cls, name) and not _only_raises(fn):
                    clo = Closure(fn, {}, ci.module, self.cls, f"{ci.name}.{name}")
                    is_static = any((_dotted(d) or "") == "staticmethod" for d in fn.decorator_list)
                    r = self.inline(clo, (args if is_static else [obj] + list(args)), kwargs)
                    if r is not None:
                        return r
        # a method the rule asks to read through, on an object constructed here: Cls(a, b).m(x) is m's body with self = Cls(a, b)
        if is_t(obj, "ctor") and name in ev.ctor_methods:
            cis = ev.prog.class_index.get(obj[1])
            hit = ev.prog.find_method(cis[0], name) if cis else None
            if hit is not None and not _is_abstract(hit[1]) and not _is_static(hit[1]):
                r = self.inline(Closure(hit[1], {}, hit[0].module, cis[0], f"{cis[0].name}.{name}"), [obj] + list(args), kwargs)
                if r is not None:
                    return r
        # method of a NamedTuple built here
        if is_t(obj, "tuple") and obj in _NT_CLASS and name == "_replace" and not args and "**" not in kwargs and set(kwargs) <= set(_NT_CLASS[obj][1]) and not _has_star(obj):
            t_ = mk_tuple(kwargs.get(f_, obj[1][i_]) for i_, f_ in enumerate(_NT_CLASS[obj][1]))
            _NT_CLASS[t_] = _NT_CLASS[obj]
            return t_
        if is_t(obj, "tuple") and obj in _NT_CLASS:
            cis = ev.prog.class_index.get(_NT_CLASS[obj][0])
            if cis and name in cis[0].methods:
                ci = cis[0]
                r = self.inline(Closure(ci.methods[name], {}, ci.module, ci, f"{ci.name}.{name}"), [obj] + list(args), kwargs)
                if r is not None:
                    return r
        # accessor on a locally constructed repository object: VmapTrace(...).get_retval()
        if is_t(obj, "ctor") and name.startswith("get_"):
            cis = ev.prog.class_index.get(obj[1])
            if cis and name in cis[0].methods and not _is_abstract(cis[0].methods[name]):
                ci = cis[0]
                clo = Closure(ci.methods[name], {}, ci.module, ci, f"{ci.name}.{name}")
                r = self.inline(clo, [obj] + list(args), kwargs)
                if r is not None:
                    return r
        # Class.static_method(...)  e.g. MaskTrace.build, Diff.tree_primal, FlagOp.and_
        if is_t(obj, "global"):
            short = obj[1].split(".")[-1]
            cis = ev.prog.class_index.get(short)
            if cis:
                ci = cis[0]
                if short == "Diff" and name not in _TREE_TAGS and name in ev.tag_helpers():
                    fn = ev.tag_helpers()[name]
                    b = _bind_simple(fn, args, kwargs)
                    if b is not None:
                        if ev.inline_tag_helpers:
                            r = self.inline(Closure(fn, {}, ci.module, ci, f"Diff.{name}"), list(args), kwargs)
                            if r is not None:
                                return r
                        r = _const_tag_call(obj, b[0], b[1])
                        if r is not None:
                            return r
                if name in ci.methods and not (short == "Diff" and name in _TREE_TAGS) and ((short, name) in _INLINE_STATIC or (name not in ev.opaque_methods and _thin_forwarder(ci.methods[name], short)) or (
                        name.startswith("_") and not name.startswith("__") and name not in ev.opaque_methods and _is_static(ci.methods[name])
                        and (_pure_wiring(ci.methods[name]) or (ev.inline_private_static and not _is_opaque_fn(ci.methods[name]) and not _numeric_kernel(ci.methods[name]))))):
                    fn = ci.methods[name]
                    clo = Closure(fn, {}, ci.module, ci, f"{short}.{name}")
                    r = self.inline(clo, list(args), kwargs)
                    if r is not None:
                        return r
                if (short, name) == ("FlagOp", "where") and len(args) == 3:
                    return ("where", args[0], args[1], args[2])
                if (short, name) == ("FlagOp", "cond") and len(args) >= 3:
                    return mk_phi(args[0], self.call_value(args[1], args[3:], {}), self.call_value(args[2], args[3:], {}))
                if (short, name) == ("Pytree", "partial") and not kwargs:
                    return ("closure_maker", mk_tuple(args))  # Pytree.partial(*dyn)(fn) is Closure(dyn, fn)
        # array methods are the jnp functions: a.sum() is jnp.sum(a) (for receivers that certainly are arrays: stacked / arithmetic / jax results)
        if name in ("sum", "mean", "prod", "all", "any") and "**" not in kwargs and not any(is_t(x, "star") for x in args) and (
                is_t(obj, "stack") or is_t(obj, "bin") or is_t(obj, "where") or (is_t(obj, "call") and is_t(obj[1], "global") and obj[1][1].startswith("jax."))):
            return ("call", G("jax.numpy." + name), (obj,) + tuple(args), tuple(sorted(kwargs.items())))
        # x.at[i].set(v)
        if name == "set" and is_t(obj, "index") and is_t(obj[1], "attr") and obj[1][2] == "at" and len(args) == 1:
            return ("atset", obj[1][1], obj[2], args[0])
        return None

    def tree_map(self, args, kwargs):
        if not args:
            return None
        fn, trees = args[0], args[1:]
        leaves = [("leaf", t) for t in trees]
        body = self.call_value(fn, leaves, {})
        # tree_map(g, tree_map(f, a, b), c) is tree_map((x, y, z) -> g(f(x, y), z), a, b, c): consecutive leafwise maps fuse
        out_trees = []
        for t in trees:
            if self.ev.fuse_treemaps and is_t(t, "treemap") and not any(is_t(x, "treemap") for x in t[2]):
                body = subst(body, ("leaf", t), t[1])
                out_trees.extend(x for x in t[2] if x not in out_trees)
            elif t not in out_trees:
                out_trees.append(t)
        return ("treemap", body, tuple(out_trees))

    def vmap(self, f, args, kwargs):
        """f = ('call', jax.vmap, (fn, in_axes?), kw) applied to args"""
        inner_args = f[2]
        kw = dict(f[3])
        if not inner_args:
            return None
        fn = inner_args[0]
        in_axes = kw.get("in_axes", inner_args[1] if len(inner_args) > 1 else C(0))
        mapped = []
        for i, a in enumerate(args):
            ax = in_axes
            if is_t(in_axes, "tuple") or is_t(in_axes, "list"):
                ax = in_axes[1][i] if i < len(in_axes[1]) else C(0)
            def axel(a_, ax_):
                if ax_ == C(None):
                    return a_
                if ax_ == C(0):
                    return mk_elem(a_) if not is_t(a_, "stack") else a_[1]
                if is_t(ax_, "phi"):  # an axis chosen by a Python-level test
                    return mk_phi(ax_[1], axel(resolve(a_, ax_[1], True), ax_[2]), axel(resolve(a_, ax_[1], False), ax_[3]))
                return ("axelem", a_, ax_)
            mapped.append(axel(a, ax))
        body = self.call_value(fn, mapped, {})
        return ("stack", body)

    def scan(self, args, kwargs):
        ev = self.ev
        if len(args) < 2:
            return None
        fn, init = args[0], args[1]
        xs = args[2] if len(args) > 2 else kwargs.get("xs", C(None))
        # scan(f, init, xs, reverse=True) is scan over flip(xs, 0) with the stacked outputs flipped back (each output lands at its own time step)
        rev = (kwargs.get("reverse") == C(True) or (len(args) > 4 and args[4] == C(True))) and xs != C(None) and not is_t(xs, "tuple")
        if rev:
            xs = ("call", G("jax.numpy.flip"), (xs,), (("axis", C(0)),))
        sid = next(ev._ids)
        if is_t(init, "tuple") and not _has_star(init):
            n = len(init[1])
            carry_in = mk_tuple(("scanc", sid, i) for i in range(n))
            if init in _NT_CLASS:
                _NT_CLASS[carry_in] = _NT_CLASS[init]  # the carry of a scan started from a NamedTuple is a value of that class
        else:
            n = None
            carry_in = ("scanc", sid, None)
        x = mk_elem(xs) if xs != C(None) else C(None)
        if is_t(xs, "tuple") and not _has_star(xs):
            x = mk_tuple(mk_elem(t) for t in xs[1])
        elif is_t(xs, "tuple"):
            # (trace.inner, *scanned_in_diff)
            x = mk_tuple((("star", mk_elem(t[1])) if is_t(t, "star") else mk_elem(t)) for t in xs[1])
        body = self.call_value(fn, [carry_in, x], {})
        cout = mk_proj(body, 0)
        y = mk_proj(body, 1)
        ev.scans[sid] = ScanInfo(init, carry_in, cout, y, xs, fn, kwargs.get("length"))
        if n is not None:
            final = mk_tuple(("scanfinal", sid, i) for i in range(n))
            if init in _NT_CLASS:
                _NT_CLASS[final] = _NT_CLASS[init]
        else:
            final = ("scanfinal", sid, None)
        return mk_tuple([final, ("call", G("jax.numpy.flip"), (("stack", y),), (("axis", C(0)),)) if rev else ("stack", y)])


# ====================================================================================== small utilities
_OPS = {ast.Add: "+", ast.Sub: "-", ast.Mult: "*", ast.Div: "/", ast.Mod: "%", ast.Pow: "**", ast.BitAnd: "&", ast.BitOr: "|",
        ast.BitXor: "^", ast.FloorDiv: "//", ast.MatMult: "@", ast.LShift: "<<", ast.RShift: ">>"}
_CMP = {ast.Eq: "==", ast.NotEq: "!=", ast.Lt: "<", ast.LtE: "<=", ast.Gt: ">", ast.GtE: ">=", ast.Is: "is", ast.IsNot: "is not",
        ast.In: "in", ast.NotIn: "not in"}

_OPERATOR_BIN = {"add": "+", "sub": "-", "mul": "*", "truediv": "/", "floordiv": "//", "mod": "%", "pow": "**", "matmul": "@", "and_": "&", "or_": "|", "xor": "^",
                 "lshift": "<<", "rshift": ">>"}
_OPERATOR_CMP = {"eq": "==", "ne": "!=", "lt": "<", "le": "<=", "gt": ">", "ge": ">="}

# exact_density(...) builds `type(name, (ExactDensity,), {sample, logpdf, handle_kwargs})` at run time
_DYNAMIC_OVERRIDES = {("ExactDensity", "sample"), ("ExactDensity", "logpdf"), ("ExactDensity", "handle_kwargs"),
                      ("Distribution", "sample"), ("Distribution", "logpdf"), ("GenerativeFunction", "handle_kwargs")}

_NEVER_INLINE = {"stage", "incremental", "stateful", "to_shape_fn", "trace", "initial_style_bind", "empty_trace", "gen"}
_DEFAULT_INLINE = {
    "simulate_transform", "assess_transform", "generate_transform", "update_transform",
    "static_edit_request_transform", "regenerate_transform", "prepend_initial_acc",
}

# static helpers that are worth seeing through (pure wiring)
_INLINE_STATIC = {
    ("MaskTrace", "build"), ("VmapTrace", "build"), ("ScanTrace", "build"),
}


def _load_store(tgt):
    return tgt


def _load(tgt):
    import copy

    t = copy.copy(tgt)
    if hasattr(t, "ctx"):
        t.ctx = ast.Load()
    return t


def _const_int(n):
    if n is None:
        return None
    if isinstance(n, ast.Constant) and isinstance(n.value, int):
        return n.value
    if isinstance(n, ast.UnaryOp) and isinstance(n.op, ast.USub) and isinstance(n.operand, ast.Constant):
        return -n.operand.value
    return None


def _conj(conds):
    ts = []
    for t, pol in conds:
        ts.append(t if pol else ("un", "not", t))
    if not ts:
        return C(True)
    return ts[0] if len(ts) == 1 else ("bool", "and", tuple(ts))


def _join(test, e1, e2):
    if e1 is None:
        return e2
    if e2 is None:
        return e1
    out = {}
    for k in set(e1) | set(e2):
        a, b = e1.get(k), e2.get(k)
        if a is None:
            out[k] = b
        elif b is None:
            out[k] = a
        elif k == "__effects__":
            out[k] = a if len(a) >= len(b) else b
        else:
            out[k] = mk_phi(test, a, b)
    return out


def _always_returns(body) -> bool:
    if not body:
        return False
    last = body[-1]
    if isinstance(last, (ast.Return, ast.Raise)):
        return True
    if isinstance(last, ast.If):
        return bool(last.orelse) and _always_returns(last.body) and _always_returns(last.orelse)
    if isinstance(last, ast.Match):
        has_default = any(
            isinstance(c.pattern, ast.MatchAs) and c.pattern.pattern is None and c.guard is None for c in last.cases
        )
        return has_default and all(_always_returns(c.body) for c in last.cases)
    if isinstance(last, ast.With):
        return _always_returns(last.body)
    return False


_WIRING_BUILTINS = {"tuple", "list", "len", "isinstance", "zip", "range", "dict", "enumerate", "reversed"}


def _is_static(fn) -> bool:
    return any((_dotted(d) or "") == "staticmethod" for d in fn.decorator_list)


def _numeric_kernel(fn) -> bool:
    """the helper itself computes on arrays (a direct jnp.* / jax.numpy.* / jax.lax.* call, or shape validation): rules treat such helpers as atoms"""
    for n in ast.walk(fn):
        if isinstance(n, ast.Call):
            d = _dotted(n.func) or ""
            if d.split(".")[0] in ("jnp", "np") or d.startswith("jax.numpy.") or d.startswith("jax.lax.") or d.startswith("lax."):
                return True
    return False


def _bind_simple(fn, args, kwargs):
    """positional values of a call to a function with plain positional parameters only (None when not all are given)"""
    names = [a.arg for a in fn.args.args]
    if any(is_t(a, "star") for a in args) or len(args) > len(names):
        return None
    vals = dict(zip(names, args))
    for k, v in (kwargs.items() if isinstance(kwargs, dict) else kwargs):
        if k not in names or k in vals:
            return None
        vals[k] = v
    return [vals[n] for n in names] if len(vals) == len(names) else None


def _const_tag_call(diffg, x, T):
    """Diff.<tag helper>(x, T) for a decided T: the API call it stands for"""
    if is_t(T, "global") and T[1].split(".")[-1] == "NoChange":
        return ("call", ("attr", diffg, "no_change"), (x,), ())
    if is_t(T, "global") and T[1].split(".")[-1] == "UnknownChange":
        return ("call", ("attr", diffg, "unknown_change"), (x,), ())
    if is_t(T, "phi"):
        a, b = _const_tag_call(diffg, x, T[2]), _const_tag_call(diffg, x, T[3])
        if a is not None and b is not None:
            return mk_phi(T[1], a, b)
    return None


def _single_return(body):
    """the statement list `t1 = E1; ..; return R` (each ti a plain name assigned once, docstrings skipped) as the one statement `return R[ti := Ei]`; other
    bodies are returned unchanged"""
    import copy
    core = [b for b in body if not (isinstance(b, ast.Expr) and isinstance(b.value, ast.Constant))]
    if len(core) < 2 or not isinstance(core[-1], ast.Return) or core[-1].value is None:
        return core
    temps = {}

    class _S(ast.NodeTransformer):
        def visit_Name(self, n):
            if isinstance(n.ctx, ast.Load) and n.id in temps:
                return copy.deepcopy(temps[n.id])  # (already fully substituted: no second pass)
            return n
    for st in core[:-1]:
        tgt = st.targets[0] if isinstance(st, ast.Assign) and len(st.targets) == 1 else (st.target if isinstance(st, ast.AnnAssign) and st.value is not None else None)
        if not isinstance(tgt, ast.Name):
            return core
        temps[tgt.id] = _S().visit(copy.deepcopy(st.value))
    return [ast.fix_missing_locations(ast.copy_location(ast.Return(value=_S().visit(copy.deepcopy(core[-1].value))), core[-1]))]


def _thin_forwarder(fn, cls_name) -> bool:
    """`def f(x): return Cls.g(x.items())`: a one-statement static method that hands re-arranged arguments to another method of its own class"""
    if not _is_static(fn):
        return False
    body = _single_return(fn.body)
    if not (len(body) == 1 and isinstance(body[0], ast.Return) and isinstance(body[0].value, ast.Call)):
        return False
    c = body[0].value
    if not (isinstance(c.func, ast.Attribute) and isinstance(c.func.value, ast.Name) and c.func.value.id == cls_name and c.func.attr != fn.name):
        return False
    params = {a.arg for a in fn.args.args + fn.args.kwonlyargs} | ({fn.args.vararg.arg} if fn.args.vararg else set()) | ({fn.args.kwarg.arg} if fn.args.kwarg else set())
    for a in list(c.args) + [k.value for k in c.keywords]:
        a = a.value if isinstance(a, ast.Starred) else a
        ok = isinstance(a, (ast.Name, ast.Constant)) or (isinstance(a, ast.Call) and isinstance(a.func, ast.Attribute) and isinstance(a.func.value, ast.Name)
                                                       and a.func.value.id in params and a.func.attr in ("items", "keys", "values") and not a.args)
        if not ok:
            return False
    return True


def _pure_wiring(fn) -> bool:
    """a private static helper that only re-arranges its arguments (unpacking, tuples, slices, builtin conversions): seeing through it
    is the same as reading its body at the call site.  Helpers that compute (jnp / jax calls) stay opaque calls."""
    if not any((_dotted(d) or "") == "staticmethod" for d in fn.decorator_list):
        return False
    for n in ast.walk(fn):
        if isinstance(n, ast.Call):
            if not (isinstance(n.func, ast.Name) and n.func.id in _WIRING_BUILTINS):
                return False
        if isinstance(n, (ast.For, ast.While, ast.Try, ast.With, ast.Yield, ast.YieldFrom, ast.Lambda)):
            return False
    return True


def _is_abstract(fn) -> bool:
    return any((_dotted(d) or "").endswith("abstractmethod") for d in fn.decorator_list)


def _only_raises(fn) -> bool:
    body = [s for s in fn.body if not (isinstance(s, ast.Expr) and isinstance(s.value, ast.Constant))]
    return bool(body) and all(isinstance(s, (ast.Raise, ast.Pass)) for s in body)


def _is_opaque_fn(fn) -> bool:
    """functions never worth inlining (generators, jax custom_jvp, huge bodies)"""
    for d in fn.decorator_list:
        n = _dotted(d) or (_dotted(d.func) if isinstance(d, ast.Call) else "") or ""
        if n.split(".")[-1] in ("custom_jvp", "cache", "transformation_with_aux", "deprecated", "property"):
            return True
    if _simple_generator(fn.body) is not None:
        return False
    return any(isinstance(n, (ast.Yield, ast.YieldFrom)) for n in ast.walk(fn))


def _simple_generator(body):
    """`for x in it: yield e` as the only statement: the For node (the generator is the comprehension [e for x in it])"""
    core_ = [b for b in body if not (isinstance(b, ast.Expr) and isinstance(b.value, ast.Constant))]
    if (len(core_) == 1 and isinstance(core_[0], ast.For) and not core_[0].orelse and len(core_[0].body) == 1 and isinstance(core_[0].body[0], ast.Expr)
            and isinstance(core_[0].body[0].value, ast.Yield) and core_[0].body[0].value.value is not None
            and sum(isinstance(n, (ast.Yield, ast.YieldFrom)) for b in body for n in ast.walk(b)) == 1):
        return core_[0]
    return None
