"""E5 - jaxpr-interpreter loop skeletons (by dataflow over the evaluated body, not statement positions)."""

from __future__ import annotations

from .rules import is_call, is_mcall, mentions
from .terms import C, G, P, is_t, mk_elem, mk_proj, show, subterms


def safe_maps(effects):
    return [e for e in effects if is_call(e, "safe_map") and len(e[2]) >= 2]


def is_env_method(t, name):
    return is_t(t, "attr") and t[2] == name


def env_read_over(t, envs=None):
    """the iterable X when t is `env.read` mapped over X - safe_map(env.read, X), map(env.read, X) or [env.read(v) for v in X] - else None"""
    if (is_call(t, "safe_map") or is_call(t, "map")) and len(t[2]) == 2 and is_env_method(t[2][0], "read") and (envs is None or t[2][0][1] in envs):
        return t[2][1]
    if is_t(t, "fam") and is_mcall(t[2], "read") and (envs is None or t[2][1][1] in envs) and t[2][2] == (("elem", t[1]),):
        return t[1]
    return None


def phi_leaves(t):
    if is_t(t, "phi"):
        return [(c + [(t[1], True)], x) for c, x in phi_leaves(t[2])] + [(c + [(t[1], False)], x) for c, x in phi_leaves(t[3])]
    return [([], t)]


def reader_consts_ok(t):
    """a term  tree_unflatten(params['in_tree'], ARGS[params['num_consts']:])  - constants are PREPENDED by initial_style_bind, so the reader drops a prefix"""
    for x in subterms(t):
        if is_call(x, "tree_unflatten") and len(x[2]) == 2 and is_t(x[2][1], "index") and is_t(x[2][1][2], "sliceobj"):
            lo, hi, st = x[2][1][2][1:4]
            key_in = is_t(x[2][0], "index") and x[2][0][2] == C("in_tree")
            nc = (is_t(lo, "index") and lo[2] == C("num_consts")) or (is_t(lo, "call") and is_t(lo[1], "attr") and lo[1][2] == "get" and lo[2] and lo[2][0] == C("num_consts"))
            if key_in:
                return nc and hi == C(None) and st == C(None), x
    return None, None


def check_loop(chk, inst, res, where, *, jaxpr=P("jaxpr"), eqns=None, const_wrap=None, invar_value=None, dispatch_ok=None, rule="INTERP-SKELETON", wrap_invals=None, final_read=True, out_wrap=None):
    """obligations of the canonical loop: bind constvars -> bind invars -> for eqn: read invars, get_bind_params, subfuns+invals, dispatch|bind,
    wrap single result, write outvars -> read jaxpr.outvars"""
    eff = res.env.get("__effects__", [])
    sm = safe_maps(eff)
    eqns = eqns if eqns is not None else ("attr", jaxpr, "eqns")
    E = mk_elem(eqns)
    A = lambda n: ("attr", jaxpr, n)
    writes = [e for e in sm if is_env_method(e[2][0], "write")]
    envs = {e[2][0][1] for e in writes}
    cw = [e for e in writes if e[2][1] == A("constvars")]
    iw = [e for e in writes if e[2][1] == A("invars")]
    ow = [e for e in writes if e[2][1] == ("attr", E, "outvars")]
    ok = len(cw) == 1 and (const_wrap(cw[0][2][2]) if const_wrap else True)
    chk.require(ok, rule, inst + "/constvars", "constvars bound to the constants", derived=show(cw[0])[:200] if cw else "no write of jaxpr.constvars", expected="safe_map(env.write, jaxpr.constvars, <consts>)", where=where)
    ok = len(iw) == 1 and (invar_value(iw[0][2][2]) if invar_value else True)
    chk.require(ok, rule, inst + "/invars", "invars bound to the arguments", derived=show(iw[0])[:200] if iw else "no write of jaxpr.invars", expected="safe_map(env.write, jaxpr.invars, <args>)", where=where)
    chk.require(len(ow) == 1, rule, inst + "/outvars", "each equation's outvars written once", derived=f"{len(ow)} write(s) of eqn.outvars", expected="safe_map(env.write, eqn.outvars, outvals) for the SAME eqn", where=where)
    if len(ow) != 1:
        return
    outvals = ow[0][2][2]
    prim = ("attr", E, "primitive")
    # single results wrapped
    # canonical polarity: phi(multiple_results, outvals, [outvals])
    wrapped = is_t(outvals, "phi") and outvals[1] == ("attr", prim, "multiple_results") and is_t(outvals[3], "list") and len(outvals[3][1]) == 1 and outvals[3][1][0] == outvals[2]
    chk.require(wrapped, rule, inst + "/wrap-single", "single results wrapped in a list", derived=show(outvals)[:160], expected="outvals = [outvals] iff not eqn.primitive.multiple_results", where=where)
    core = outvals[2] if wrapped else outvals
    gbp = ("call", ("attr", prim, "get_bind_params"), (("attr", E, "params"),), ())
    invals = ("call", G("jax.util.safe_map"), (None, ("attr", E, "invars")), ())
    leaves = phi_leaves(core)
    n_bind = 0
    for conds, leaf in leaves:
        kind = None
        if is_mcall(leaf, "bind") and leaf[1][1] == prim:
            kind = "bind"
        elif is_mcall(leaf, "dispatch") and any(is_t(c, "call") and is_t(c[1], "attr") and c[1][2] == "handles" and c[1][1] == leaf[1][1] or (is_t(c, "bool") and any(is_t(y, "call") and is_t(y[1], "attr") and y[1][2] == "handles" and y[1][1] == leaf[1][1] for y in c[2])) for c, pol in conds if pol):
            kind = "dispatch"
        elif is_call(leaf, "default_propagation_rule"):
            kind = "rule"
        if kind is None:
            chk.violation(rule, inst + "/eqn", "equation evaluation", derived=show(leaf)[:200], expected="eqn.primitive.bind(*args, **params) or handler.dispatch(eqn.primitive, *args, **params)", where=where)
            continue
        args = leaf[2]
        if kind in ("dispatch", "rule"):
            okp = args and args[0] == prim
            args = args[1:]
        else:
            okp = True
            n_bind += 1
        star = args[0] if args and is_t(args[0], "star") else None
        if len(args) == 2 and all(is_t(a_, "star") for a_ in args) and args[0][1] == mk_proj(gbp, 0):
            # f(*subfuns, *invals) - the same operands as f(*(subfuns + invals))
            okargs, inv = bool(okp), args[1][1]
        else:
            okargs = okp and len(args) == 1 and star is not None and is_t(star[1], "bin") and star[1][1] == "+" and star[1][2] == mk_proj(gbp, 0)
            inv = star[1][3] if okargs else None
        reads = [x for x in subterms(inv)] if inv is not None else []
        XI = ("attr", E, "invars")
        okread = inv is not None and (any(env_read_over(x, envs) == XI for x in reads)
                                      or any(is_t(x, "fam") and x[1] == XI and any(mentions(x[2], ("call", ("attr", e_, "read"), (("elem", XI),), ())) for e_ in envs) for x in reads))
        okkw = dict(leaf[3]).get("**") == mk_proj(gbp, 1)
        chk.require(okargs and okread and okkw, rule, f"{inst}/eqn-{kind}", f"{kind}: this equation's primitive on values read from this equation's invars with its params",
                    derived=show(leaf)[:260], expected="(subfuns + [env.read(v) for v in eqn.invars]) and **params, both from eqn.primitive.get_bind_params(eqn.params)", where=where)
        if kind == "dispatch" and dispatch_ok is not None:
            chk.require(dispatch_ok(conds, prim), rule, inst + "/dispatch-guard", "dispatch only when the handler handles this primitive", derived=str([show(c[0])[:80] for c in conds]), expected="if handler.handles(eqn.primitive)", where=where)
    # final read
    if not final_read:
        return dict(outvals=outvals, leaves=leaves)
    ret = res.ret
    X = A("outvars")
    READ = None
    if len(envs) == 1:
        READ = ("call", ("attr", list(envs)[0], "read"), (("elem", X),), ())
    raw = len(envs) == 1 and env_read_over(ret, envs) == X
    # the outputs are the read itself, or an elementwise post-processing of it (one comprehension over jaxpr.outvars, or over the mapped read - the same
    # term); `out_wrap(value read, body)` judges the post-processing
    post = (not raw) and READ is not None and is_t(ret, "fam") and ret[1] == X and mentions(ret[2], READ)
    okret = raw or post
    chk.require(okret, rule, inst + "/outputs", "outputs read after the loop", derived=show(ret)[:160], expected="safe_map(env.read, jaxpr.outvars)", where=where)
    if okret and out_wrap is not None:
        body = ret[2] if post else None
        okw, exp = out_wrap(READ, body)
        chk.require(okw, rule, inst + "/outputs-wrapped", "post-processing of the values read for jaxpr.outvars", derived=show(body)[:200] if body is not None else "the raw read is returned", expected=exp, where=where)
    elif okret and post:
        chk.require(ret[2] == READ, rule, inst + "/outputs-wrapped", "outputs are returned as read", derived=show(ret[2])[:200], expected="the values read, unchanged", where=where)
    return dict(outvals=outvals, leaves=leaves)


def bind_context_ok(prog, ci, fn):
    """every re-bind of an equation (primitive.bind / handler.dispatch / the propagation rule) is evaluated inside `with eqn.ctx.manager:` - decided on the
    evaluated method (calls reached through extracted helpers included), not on the statement nesting of one function"""
    from .terms import Evaluator, is_t

    ev = Evaluator(prog)
    ev.eval_fn(fn, ci.module, ci)
    sites, outside = 0, []
    for call, ctxs in ev.call_ctx.items():
        f = call[1]
        name = f[2] if is_t(f, "attr") else (f[1].split(".")[-1] if is_t(f, "global") else None)
        if name not in ("bind", "dispatch", "default_propagation_rule"):
            continue
        for withs in ctxs:
            sites += 1
            if not any(is_t(w, "attr") and w[2] == "manager" and is_t(w[1], "attr") and w[1][2] == "ctx" for w in withs):
                outside.append(name)
    return sites > 0 and not outside, f"{sites} re-bind site(s); outside the context: {outside}" if outside or not sites else f"{sites} re-bind site(s), all inside `with eqn.ctx.manager`"
