#!/venv/bin/python
"""Random generic AST mutants over the anchored source files; run ALL checks on each (one process per mutant); report survivors.
usage: tools/mutation_sweep.py --n 200 --seed 1 [--files rel1,rel2] [--out /tmp/sweep.json]
Operators: flip +/-; swap two positional Name args; flip comparison; True<->False; drop unary ~ / not; idx+1 -> idx; replace a Name by a sibling Name of the scope;
drop one statement of an AugAssign pair."""
import ast, copy, json, os, random, shutil, subprocess, sys, tempfile
from concurrent.futures import ThreadPoolExecutor
HERE = os.path.dirname(os.path.dirname(os.path.abspath(__file__)))
REPO = os.environ.get("VERIF_REPO", "/repo")
PKG = os.path.join(REPO, "src", "genjax")

def anchored_files():
    fs = set()
    for l in open(os.path.join(HERE, "properties.jsonl")):
        for f in json.loads(l)["anchors"]["files"]:
            fs.add(f.replace("src/genjax/", ""))
    return sorted(fs)

def docstring_lines(tree):
    skip = set()
    for n in ast.walk(tree):
        if isinstance(n, (ast.FunctionDef, ast.ClassDef, ast.Module)):
            b = n.body
            if b and isinstance(b[0], ast.Expr) and isinstance(b[0].value, ast.Constant) and isinstance(b[0].value.value, str):
                skip.update(range(b[0].lineno, b[0].end_lineno + 1))
    return skip

def sites(tree):
    """(kind, node) candidates inside function bodies"""
    out = []
    skip = docstring_lines(tree)
    for fn in ast.walk(tree):
        if not isinstance(fn, (ast.FunctionDef, ast.Lambda)):
            continue
        ann = set()
        for a_ in ast.walk(fn):
            for fld in ("annotation", "returns"):
                x = getattr(a_, fld, None)
                if x is not None:
                    ann.update(id(y) for y in ast.walk(x))
        local = {n.id for n in ast.walk(fn) if isinstance(n, ast.Name) and isinstance(n.ctx, ast.Store)}
        if isinstance(fn, ast.FunctionDef):
            local |= {a_.arg for a_ in fn.args.args + fn.args.kwonlyargs}
        names = sorted(local - {"self", "_"})
        for n in ast.walk(fn):
            if getattr(n, "lineno", 0) in skip:
                continue
            if isinstance(n, ast.BinOp) and isinstance(n.op, (ast.Add, ast.Sub)):
                out.append(("flip-sign", n, None))
            elif isinstance(n, ast.Call) and len(n.args) >= 2 and all(isinstance(a, ast.Name) for a in n.args[:2]) and n.args[0].id != n.args[1].id:
                out.append(("swap-args", n, None))
            elif isinstance(n, ast.Compare) and len(n.ops) == 1 and isinstance(n.ops[0], (ast.Lt, ast.LtE, ast.Gt, ast.GtE, ast.Eq, ast.NotEq)):
                out.append(("flip-cmp", n, None))
            elif isinstance(n, ast.Constant) and isinstance(n.value, bool):
                out.append(("flip-bool", n, None))
            elif isinstance(n, ast.UnaryOp) and isinstance(n.op, (ast.Invert, ast.Not)):
                out.append(("drop-unary", n, None))
            elif isinstance(n, ast.Subscript) and isinstance(n.slice, ast.Constant) and isinstance(n.slice.value, int) and n.slice.value in (0, 1, 2, 3):
                out.append(("shift-index", n, None))
            elif isinstance(n, ast.Name) and isinstance(n.ctx, ast.Load) and len(names) > 1 and n.id in names and id(n) not in ann:
                out.append(("wrong-name", n, names))
            elif isinstance(n, ast.AugAssign):
                out.append(("drop-aug", n, None))
    return out

def mutate(src, rng):
    tree = ast.parse(src)
    cand = sites(tree)
    if not cand:
        return None
    kind, node, extra = rng.choice(cand)
    seg = ast.get_source_segment(src, node)
    if seg is None:
        return None
    new = copy.deepcopy(node)
    if kind == "flip-sign":
        new.op = ast.Sub() if isinstance(node.op, ast.Add) else ast.Add()
    elif kind == "swap-args":
        new.args[0], new.args[1] = new.args[1], new.args[0]
    elif kind == "flip-cmp":
        m = {ast.Lt: ast.LtE, ast.LtE: ast.Lt, ast.Gt: ast.GtE, ast.GtE: ast.Gt, ast.Eq: ast.NotEq, ast.NotEq: ast.Eq}
        new.ops = [m[type(node.ops[0])]()]
    elif kind == "flip-bool":
        new.value = not node.value
    elif kind == "drop-unary":
        new = node.operand
    elif kind == "shift-index":
        new.slice = ast.Constant(value=node.slice.value + 1 if node.slice.value == 0 else node.slice.value - 1)
    elif kind == "wrong-name":
        others = [x for x in extra if x != node.id and not x[0].isupper()]
        if not others:
            return None
        new.id = rng.choice(others)
    elif kind == "drop-aug":
        new = ast.Pass()
    text = ast.unparse(new)
    lines = src.split("\n")
    # replace the exact source span
    l0, c0, l1, c1 = node.lineno - 1, node.col_offset, node.end_lineno - 1, node.end_col_offset
    if l0 == l1:
        lines[l0] = lines[l0][:c0] + text + lines[l0][c1:]
    else:
        lines[l0:l1 + 1] = [lines[l0][:c0] + text + lines[l1][c1:]]
    out = "\n".join(lines)
    try:
        ast.parse(out)
    except SyntaxError:
        return None
    return kind, node.lineno, seg[:80].replace("\n", " "), text[:80].replace("\n", " "), out

def run_one(args):
    i, rel, seed = args
    rng = random.Random(seed * 100003 + i)
    p = os.path.join(PKG, rel)
    src = open(p).read()
    m = None
    for _ in range(6):
        m = mutate(src, rng)
        if m:
            break
    if not m:
        return None
    kind, line, old, new, out = m
    tmp = tempfile.mkdtemp(prefix="vsweep.")
    try:
        os.makedirs(os.path.join(tmp, "src"))
        shutil.copytree(PKG, os.path.join(tmp, "src", "genjax"))
        open(os.path.join(tmp, "src", "genjax", rel), "w").write(out)
        r = subprocess.run([os.path.join(HERE, "tools", "check_all.py")], capture_output=True, text=True, env=dict(os.environ, VERIF_REPO=tmp))
        try:
            fired = json.loads(r.stdout.strip().splitlines()[-1])
        except Exception:
            fired = {"_err": r.stdout[-200:] + r.stderr[-200:]}
        return dict(i=i, file=rel, line=line, kind=kind, old=old, new=new, fired=fired)
    finally:
        shutil.rmtree(tmp, ignore_errors=True)

def main():
    import argparse
    ap = argparse.ArgumentParser()
    ap.add_argument("--n", type=int, default=100)
    ap.add_argument("--seed", type=int, default=int(os.environ.get("VERIF_SEED", "1") or 1))
    ap.add_argument("--files", default="")
    ap.add_argument("--out", default="/tmp/sweep.json")
    a = ap.parse_args()
    files = [f for f in (a.files.split(",") if a.files else anchored_files()) if os.path.exists(os.path.join(PKG, f))]
    rng = random.Random(a.seed)
    jobs = [(i, rng.choice(files), a.seed) for i in range(a.n)]
    with ThreadPoolExecutor(max_workers=14) as ex:
        res = [r for r in ex.map(run_one, jobs) if r]
    surv = [r for r in res if not r["fired"]]
    errs = [r for r in res if any(str(v[0]).startswith("ANALYSIS-ERROR") for v in r["fired"].values() if isinstance(v, list)) and not any(isinstance(v, list) and not str(v[0]).startswith("ANALYSIS-ERROR") for v in r["fired"].values())]
    json.dump(res, open(a.out, "w"), indent=1)
    print(f"mutants={len(res)} killed={len(res) - len(surv)} survivors={len(surv)} only-analysis-error={len(errs)}")
    for r in surv:
        print(f"SURVIVOR {r['file']}:{r['line']} [{r['kind']}] {r['old']!r} -> {r['new']!r}")
    for r in errs:
        print(f"ERR-ONLY {r['file']}:{r['line']} [{r['kind']}] {r['old']!r} -> {r['new']!r} :: {list(r['fired'].items())[:1]}")
main()
