#!/bin/bash
# usage: tools/try_patch.sh <patch.diff> [Cxx ...]   - run checks against a scratch copy of /repo with the patch applied
set -u
patch=$(realpath "$1"); shift
tmp=$(mktemp -d /tmp/vrepo.XXXXXX)
mkdir -p $tmp/src && cp -r /repo/src/genjax $tmp/src/
( cd $tmp && git init -q . >/dev/null 2>&1; git apply --whitespace=nowarn "$(realpath "$patch")" ) || { echo "PATCH-FAILED $patch"; rm -rf $tmp; exit 3; }
rc_all=0
for id in "$@"; do
  VERIF_REPO=$tmp /verif/check $id --no-evidence | grep -E "^(C[0-9]+ \[|VIOLATION|ANALYSIS-ERROR|  rule=)" 
done
rm -rf $tmp
