#!/bin/bash
# usage: tools/confirm_seed.sh <Cxx> <i> [name]   confirm a sub-agent's seeded change in a fresh scratch worktree of /repo HEAD and file it under /verif/seeded/
set -u
pid=$1; i=$2; name=${3:-$pid-$i}
src=${SEED_SRC:-/tmp/seed_out}/$pid
wt=/tmp/confirm_$name
out=/verif/seeded/$name
log=/tmp/confirm_$name.log
git -C /repo worktree remove --force $wt >/dev/null 2>&1
git -C /repo worktree add -q --detach $wt HEAD || exit 3
cd $wt
res() { echo "$1" | tee -a $log; }
: > $log
if ! git apply --whitespace=nowarn $src/patch$i.diff 2>>$log; then res "RESULT $name: PATCH-DOES-NOT-APPLY"; git -C /repo worktree remove --force $wt; exit 1; fi
PYTHONPATH=$wt/src timeout 900 /venv/bin/python $src/demo$i.py >>$log 2>&1; d1=$?
PYTHONPATH=$wt/src timeout 3000 /venv/bin/python -m pytest -q -p no:cacheprovider -n 6 --timeout=900 -x --deselect tests/core/test_choice_maps.py::TestSubmap 2>&1 | tail -4 >>$log; 
tests_ok=$(tail -4 $log | grep -cE "^[0-9]+ passed")
pyr=$(/venv/bin/pyright --pythonpath /venv/bin/python src/genjax 2>/dev/null | tail -1)
git checkout -q -- .
PYTHONPATH=$wt/src timeout 900 /venv/bin/python $src/demo$i.py >>$log 2>&1; d0=$?
cd /; git -C /repo worktree remove --force $wt
if [ $d1 -ne 0 ] && [ $d0 -eq 0 ] && [ $tests_ok -ge 1 ]; then
  mkdir -p $out; cp $src/patch$i.diff $out/patch.diff; cp $src/demo$i.py $out/demo.py
  /venv/bin/python - <<PY
import json
m=json.load(open("$src/meta$i.json"))
m["confirmed"]={"demo_exit_with_patch":$d1,"demo_exit_clean":$d0,"suite":"full suite (-n 6, TestSubmap deselected) passed with the patch","pyright":"$pyr","repo_head":"$(git -C /repo rev-parse --short HEAD)"}
json.dump(m,open("$out/meta.json","w"),indent=1)
PY
  res "RESULT $name: CONFIRMED demo_with=$d1 demo_clean=$d0 tests_ok pyright='$pyr'"
else
  res "RESULT $name: REJECTED demo_with=$d1 demo_clean=$d0 tests_ok=$tests_ok pyright='$pyr'"
fi
