#!/venv/bin/python
"""For every confirmed seeded change under /verif/seeded/: apply it to a scratch copy, run ALL quick checks in one process, record which
properties' checks fire (meta.json: caught_by, fired) and write seeded/MATRIX.md."""
import glob, json, os, shutil, subprocess, sys, tempfile
from concurrent.futures import ThreadPoolExecutor
V = '/verif'
PKG = '/repo/src/genjax'

def one(d):
    tmp = tempfile.mkdtemp(prefix='vseed.')
    try:
        os.makedirs(tmp + '/src'); shutil.copytree(PKG, tmp + '/src/genjax')
        subprocess.run(['git', 'init', '-q', '.'], cwd=tmp, capture_output=True)
        r = subprocess.run(['git', 'apply', '--whitespace=nowarn', os.path.join(d, 'patch.diff')], cwd=tmp, capture_output=True, text=True)
        if r.returncode != 0:
            return d, None
        r = subprocess.run([V + '/tools/check_all.py'], capture_output=True, text=True, env=dict(os.environ, VERIF_REPO=tmp))
        return d, json.loads(r.stdout.strip().splitlines()[-1])
    finally:
        shutil.rmtree(tmp, ignore_errors=True)

dirs = sorted(x for x in glob.glob(V + '/seeded/*') if os.path.isdir(x))
with ThreadPoolExecutor(8) as ex:
    res = list(ex.map(one, dirs))
rows = []
for d, fired in res:
    mp = os.path.join(d, 'meta.json')
    m = json.load(open(mp))
    if fired is None:
        m['caught_by'] = m.get('caught_by', []); m['note'] = 'patch does not apply to the current /repo HEAD'
    else:
        m['caught_by'] = sorted(k for k, v in fired.items() if not str(v[0]).startswith('ANALYSIS-ERROR'))
        m['fired'] = {k: v[:2] for k, v in fired.items()}
    json.dump(m, open(mp, 'w'), indent=1)
    own = m.get('property')
    if fired is None:
        rows.append((os.path.basename(d), own, m.get('summary', '')[:110].replace('|', '/'), '(superseded: the patched function was rewritten by a later `fix:` commit, the patch no longer applies)', 'n/a'))
        continue
    rows.append((os.path.basename(d), own, m.get('summary', '')[:110].replace('|', '/'), ', '.join(m['caught_by']) or '**missed**', 'yes' if own in m['caught_by'] else 'no'))
with open(V + '/seeded/MATRIX.md', 'w') as f:
    f.write('| seeded change | breaks | what | checks that fire | own property fires |\n|---|---|---|---|---|\n')
    for r in rows:
        f.write('| ' + ' | '.join(r) + ' |\n')
app = [r for r in rows if r[4] != 'n/a']
print(len(rows), 'seeds;', len(app), 'applicable;', sum(1 for r in app if r[3] != '**missed**'), 'caught;', sum(1 for r in app if r[4] == 'yes'), 'caught by own property')
for r in app:
    if r[4] != 'yes': print('NOT-OWN', r[0], r[3])
