#!/venv/bin/python
"""Random BEHAVIOUR-PRESERVING AST edits over the anchored source files; run ALL checks on each; every check must stay silent.
usage: tools/benign_sweep.py --n 120 --seed 1 [--files rel1,rel2] [--out /tmp/benign.json]
Operators: rename a local variable of one function consistently; commute the operands of `*` (and of `==`); return through a temporary;
flip an if/else with the negated test; wrap a returned expression in parentheses-preserving temp assignment."""
import ast, copy, json, os, random, shutil, subprocess, sys, tempfile
from concurrent.futures import ThreadPoolExecutor
HERE = os.path.dirname(os.path.dirname(os.path.abspath(__file__)))
REPO = os.environ.get("VERIF_REPO", "/repo")
PKG = os.path.join(REPO, "src", "genjax")

def anchored_files():
    fs = set()
    for l in open(os.path.join(HERE, "properties.jsonl")):
        for f in json.loads(l)["anchors"]["files"]:
            fs.add(f.replace("src/genjax/", ""))
    return sorted(fs)

class Renamer(ast.NodeTransformer):
    def __init__(self, old, new): self.old, self.new = old, new
    def visit_Name(self, n):
        if n.id == self.old: n.id = self.new
        return n
    def visit_FunctionDef(self, n):
        # do not descend into nested functions that rebind the name as a parameter
        if any(a.arg == self.old for a in n.args.args + n.args.kwonlyargs) and getattr(n, "_root", False) is False:
            return n
        self.generic_visit(n); return n
    visit_Lambda = lambda self, n: n if any(a.arg == self.old for a in n.args.args) else (self.generic_visit(n) or n)

_NUM_NAMES = {"w", "weight", "score", "fwd", "bwd", "new_score", "new_weight", "final_weight", "incremental_w", "next_w", "this_weight", "retained_weight", "total_weight"}


def _numeric(x):
    """an operand that is certainly a number (a score / weight), so that `+` commutes"""
    if isinstance(x, ast.Name):
        return x.id in _NUM_NAMES
    if isinstance(x, ast.Call) and isinstance(x.func, ast.Attribute):
        return x.func.attr in ("get_score", "sum", "logsumexp", "log", "estimate_logpdf", "get_log_marginal_likelihood_estimate")
    if isinstance(x, ast.BinOp) and isinstance(x.op, (ast.Add, ast.Sub, ast.Mult)):
        return _numeric(x.left) and _numeric(x.right)
    if isinstance(x, ast.UnaryOp) and isinstance(x.op, ast.USub):
        return _numeric(x.operand)
    return False


_PKG_TEXT = None


def _mentions_elsewhere(name, this_src):
    global _PKG_TEXT
    if _PKG_TEXT is None:
        _PKG_TEXT = {}
        for dp, _d, fs in os.walk(PKG):
            for f in fs:
                if f.endswith(".py"):
                    _PKG_TEXT[os.path.join(dp, f)] = open(os.path.join(dp, f)).read()
    return sum(1 for t in _PKG_TEXT.values() if name in t and t != this_src)


def candidates(tree, src=""):
    out = []
    # rename a private module function / method (definition and every reference; only when no other file of the package mentions it)
    for d in ast.walk(tree):
        if isinstance(d, ast.FunctionDef) and d.name.startswith("_") and not d.name.startswith("__") and len(d.name) > 3 and src and not _mentions_elsewhere(d.name, src):
            top = d in tree.body or any(isinstance(c, ast.ClassDef) and d in c.body for c in tree.body)
            if top and sum(1 for x in ast.walk(tree) if isinstance(x, ast.FunctionDef) and x.name == d.name) == 1:
                out.append(("rename-private-member", (tree, d), None))
    for fn in ast.walk(tree):
        if not isinstance(fn, ast.FunctionDef):
            continue
        params = {a.arg for a in fn.args.args + fn.args.kwonlyargs} | ({fn.args.vararg.arg} if fn.args.vararg else set()) | ({fn.args.kwarg.arg} if fn.args.kwarg else set())
        nested_params = {a.arg for sub in ast.walk(fn) if isinstance(sub, (ast.FunctionDef, ast.Lambda)) and sub is not fn for a in sub.args.args}
        stores = {n.id for n in ast.walk(fn) if isinstance(n, ast.Name) and isinstance(n.ctx, ast.Store)}
        has_nonlocal = any(isinstance(n, (ast.Global, ast.Nonlocal)) for n in ast.walk(fn))
        # (names captured by match patterns are strings in the syntax tree, not Name nodes: renaming only the Name occurrences would break the function)
        captures = {getattr(n, "name", None) for n in ast.walk(fn) if isinstance(n, (ast.MatchAs, ast.MatchStar))} | {getattr(n, "rest", None) for n in ast.walk(fn) if isinstance(n, ast.MatchMapping)}
        locs = sorted(stores - params - nested_params - captures - {"self", "_"})
        if locs and not has_nonlocal:
            out.append(("rename", fn, locs))
        for n in ast.walk(fn):
            if isinstance(n, ast.BinOp) and isinstance(n.op, ast.Mult) and not any(isinstance(x, (ast.Tuple, ast.List, ast.Constant)) for x in (n.left, n.right)):
                out.append(("commute-mul", n, None))
            elif isinstance(n, ast.Compare) and len(n.ops) == 1 and isinstance(n.ops[0], (ast.Eq, ast.NotEq)) and not isinstance(n.comparators[0], ast.Constant):
                out.append(("commute-eq", n, None))
            elif isinstance(n, ast.BinOp) and isinstance(n.op, ast.Add) and all(_numeric(x) for x in (n.left, n.right)):
                out.append(("commute-add", n, None))
            elif isinstance(n, ast.If) and n.orelse and not (len(n.orelse) == 1 and isinstance(n.orelse[0], ast.If)) and not isinstance(n.test, ast.BoolOp):
                out.append(("flip-if", n, None))
        # statement lists of this function (not of nested functions): guard clauses, conditional expressions <-> statements, comprehension -> loop
        def _terminates(body):
            last = body[-1]
            if isinstance(last, (ast.Return, ast.Raise)):
                return True
            if isinstance(last, ast.If) and last.orelse:
                return _terminates(last.body) and _terminates(last.orelse)
            return False
        lists = []
        stack = [fn.body]
        while stack:
            L = stack.pop()
            lists.append(L)
            for st in L:
                if isinstance(st, (ast.FunctionDef, ast.ClassDef)):
                    continue
                for fld in ("body", "orelse", "finalbody"):
                    sub = getattr(st, fld, None)
                    if isinstance(sub, list) and sub and isinstance(sub[0], ast.stmt):
                        stack.append(sub)
                if isinstance(st, ast.Match):
                    for c_ in st.cases:
                        stack.append(c_.body)
        names_used = [n.id for n in ast.walk(fn) if isinstance(n, ast.Name)] + [a.arg for a in ast.walk(fn) if isinstance(a, ast.arg)]
        for L in lists:
            for i, st in enumerate(L):
                if isinstance(st, ast.If) and st.orelse and _terminates(st.body):
                    out.append(("guard-clause", (L, i), None))
                if isinstance(st, ast.Assign) and len(st.targets) == 1 and isinstance(st.targets[0], ast.Name) and i + 1 < len(L) and not isinstance(L[i + 1], (ast.For, ast.While, ast.If, ast.With, ast.FunctionDef, ast.Match)):
                    x_ = st.targets[0].id
                    uses_next = [n for n in ast.walk(L[i + 1]) if isinstance(n, ast.Name) and n.id == x_ and isinstance(n.ctx, ast.Load)]
                    nested_next = any(isinstance(n, (ast.Lambda, ast.GeneratorExp, ast.ListComp, ast.DictComp, ast.SetComp)) for n in ast.walk(L[i + 1]))
                    if names_used.count(x_) == 2 and len(uses_next) == 1 and not nested_next and not isinstance(st.value, (ast.Lambda, ast.Await, ast.Yield)):
                        out.append(("inline-temp", (L, i), None))
                if isinstance(st, ast.Return) and isinstance(st.value, ast.IfExp):
                    out.append(("ifexp-to-if", (L, i), None))
                if isinstance(st, ast.If) and len(st.body) == 1 and len(st.orelse) == 1 and isinstance(st.body[0], ast.Return) and isinstance(st.orelse[0], ast.Return) \
                        and st.body[0].value is not None and st.orelse[0].value is not None:
                    out.append(("if-to-ifexp", (L, i), None))
                if isinstance(st, ast.Assign) and len(st.targets) == 1 and isinstance(st.targets[0], ast.Name):
                    v = st.value
                    comp = v.args[0] if isinstance(v, ast.Call) and isinstance(v.func, ast.Name) and v.func.id == "list" and len(v.args) == 1 and isinstance(v.args[0], ast.GeneratorExp) else (v if isinstance(v, ast.ListComp) else None)
                    if comp is not None and len(comp.generators) == 1 and not comp.generators[0].ifs and not comp.generators[0].is_async:
                        tnames = [n.id for n in ast.walk(comp.generators[0].target) if isinstance(n, ast.Name)]
                        inside = [n.id for n in ast.walk(comp) if isinstance(n, ast.Name)]
                        # the loop variable leaks into the function scope: only when the names are used nowhere else in the function
                        if tnames and all(names_used.count(t) == inside.count(t) for t in tnames) and st.targets[0].id not in inside \
                                and not any(isinstance(x, (ast.Lambda, ast.GeneratorExp, ast.ListComp)) for x in ast.walk(comp.elt)):
                            out.append(("comp-to-loop", (L, i, comp), None))
        # rename a nested function (definition and every use inside the enclosing function)
        for d in [x for x in ast.walk(fn) if isinstance(x, ast.FunctionDef) and x is not fn]:
            uses_elsewhere = [x for x in ast.walk(tree) if isinstance(x, ast.Name) and x.id == d.name]
            inside = [x for x in ast.walk(fn) if isinstance(x, ast.Name) and x.id == d.name]
            if len(uses_elsewhere) == len(inside) and not any(isinstance(x, (ast.Global, ast.Nonlocal)) for x in ast.walk(fn)) \
                    and sum(1 for x in ast.walk(fn) if isinstance(x, ast.FunctionDef) and x.name == d.name) == 1 and not any(isinstance(x, ast.arg) and x.arg == d.name for x in ast.walk(fn)):
                out.append(("rename-nested-def", (fn, d), None))
        for n in ast.walk(fn):
            if isinstance(n, ast.Call) and isinstance(n.func, ast.Name) and n.func.id in CLASS_FIELDS and n.args and not n.keywords \
                    and not any(isinstance(a_, ast.Starred) for a_ in n.args) and len(n.args) <= len(CLASS_FIELDS[n.func.id]):
                out.append(("ctor-kw", n, None))
        for i, st in enumerate(fn.body):
            if isinstance(st, (ast.Assign, ast.Return)) and isinstance(st.value, ast.Call):
                for j, a_ in enumerate(st.value.args):
                    if isinstance(a_, ast.Call) and not any(isinstance(x, (ast.Starred, ast.Lambda, ast.GeneratorExp, ast.ListComp)) for x in ast.walk(a_)) and all(not isinstance(b_, ast.Starred) for b_ in st.value.args[:j]) \
                            and all(isinstance(b_, (ast.Name, ast.Constant, ast.Attribute)) for b_ in st.value.args[:j]):
                        out.append(("temp-arg", (fn, i, j), None))
            if isinstance(st, ast.Return) and st.value is not None and i == len(fn.body) - 1 and not isinstance(st.value, (ast.Name, ast.Constant)):
                out.append(("temp-return", (fn, i), None))
    return out

def apply(kind, node, extra, rng):
    if kind == "rename":
        old = rng.choice(extra); new = old + "_v"
        node._root = True
        Renamer(old, new).generic_visit(node)
        return f"rename {old} -> {new} in {node.name}"
    if kind == "commute-mul":
        node.left, node.right = node.right, node.left
        return f"commute * at line {node.lineno}"
    if kind == "commute-add":
        node.left, node.right = node.right, node.left
        return f"commute numeric + at line {node.lineno}"
    if kind == "commute-eq":
        l, r = node.left, node.comparators[0]
        node.left, node.comparators = r, [l]
        return f"commute ==/!= at line {node.lineno}"
    if kind == "flip-if":
        node.test = ast.UnaryOp(op=ast.Not(), operand=node.test)
        node.body, node.orelse = node.orelse, node.body
        return f"flip if/else at line {node.lineno}"
    if kind == "ctor-kw":
        flds = CLASS_FIELDS[node.func.id]
        keep = rng.randrange(0, len(node.args))  # the first `keep` arguments stay positional
        node.keywords = [ast.keyword(arg=flds[i], value=a_) for i, a_ in enumerate(node.args) if i >= keep]
        node.args = node.args[:keep]
        return f"constructor {node.func.id}: arguments from position {keep} on passed by keyword (line {node.lineno})"
    if kind == "rename-nested-def":
        fn, d = node
        old, new = d.name, d.name.strip("_") + "_fn"
        for x in ast.walk(fn):
            if isinstance(x, ast.Name) and x.id == old:
                x.id = new
        d.name = new
        return f"rename nested function {old} -> {new} in {fn.name}"
    if kind == "rename-private-member":
        tree_, d = node
        old, new = d.name, d.name + "_impl"
        for x in ast.walk(tree_):
            if isinstance(x, ast.Name) and x.id == old:
                x.id = new
            elif isinstance(x, ast.Attribute) and x.attr == old:
                x.attr = new
        d.name = new
        return f"rename private helper {old} -> {new}"
    if kind == "inline-temp":
        L, i = node
        st = L[i]
        x_ = st.targets[0].id

        class _Sub(ast.NodeTransformer):
            def visit_Name(self, n):
                return st.value if n.id == x_ and isinstance(n.ctx, ast.Load) else n
        L[i + 1] = _Sub().visit(L[i + 1])
        del L[i]
        return f"inline the temporary {x_} (line {st.lineno})"
    if kind == "guard-clause":
        L, i = node
        st = L[i]
        rest, st.orelse = st.orelse, []
        L[i + 1:i + 1] = rest
        return f"guard clause instead of else at line {st.lineno}"
    if kind == "ifexp-to-if":
        L, i = node
        st = L[i]
        e = st.value
        L[i:i + 1] = [ast.If(test=e.test, body=[ast.Return(value=e.body)], orelse=[], lineno=st.lineno), ast.Return(value=e.orelse, lineno=st.lineno)]
        return f"conditional expression -> if / return at line {st.lineno}"
    if kind == "if-to-ifexp":
        L, i = node
        st = L[i]
        L[i] = ast.Return(value=ast.IfExp(test=st.test, body=st.body[0].value, orelse=st.orelse[0].value), lineno=st.lineno)
        return f"if / else returns -> conditional expression at line {st.lineno}"
    if kind == "comp-to-loop":
        L, i, comp = node
        st = L[i]
        name = st.targets[0].id
        g = comp.generators[0]
        loop = ast.For(target=g.target, iter=g.iter, orelse=[], lineno=st.lineno,
                       body=[ast.Expr(value=ast.Call(func=ast.Attribute(value=ast.Name(id=name, ctx=ast.Load()), attr="append", ctx=ast.Load()), args=[comp.elt], keywords=[]))])
        for n in ast.walk(g.target):
            if isinstance(n, ast.Name):
                n.ctx = ast.Store()
        L[i:i + 1] = [ast.Assign(targets=[ast.Name(id=name, ctx=ast.Store())], value=ast.List(elts=[], ctx=ast.Load()), lineno=st.lineno), loop]
        return f"comprehension -> append loop for {name} at line {st.lineno}"
    if kind == "temp-arg":
        fn, i, j = node
        st = fn.body[i]
        tmpn = "hoisted_arg"
        val = st.value.args[j]
        st.value.args[j] = ast.Name(id=tmpn, ctx=ast.Load())
        fn.body.insert(i, ast.Assign(targets=[ast.Name(id=tmpn, ctx=ast.Store())], value=val, lineno=st.lineno))
        return f"hoist argument {j} of a call in {fn.name} into a temporary"
    if kind == "temp-return":
        fn, i = node
        ret = fn.body[i]
        tmpn = "result_value"
        fn.body[i:i + 1] = [ast.Assign(targets=[ast.Name(id=tmpn, ctx=ast.Store())], value=ret.value, lineno=ret.lineno), ast.Return(value=ast.Name(id=tmpn, ctx=ast.Load()))]
        return f"return through a temporary in {fn.name}"

KINDS: set = set()


def _class_fields():
    sys.path.insert(0, HERE)
    from sa.program import Program
    prog = Program()
    return {name: cis[0].fields for name, cis in prog.class_index.items() if len(cis) == 1 and cis[0].fields}


CLASS_FIELDS = _class_fields()


def one(job):
    rel, idx, seed = job
    rng = random.Random(seed)
    src = open(os.path.join(PKG, rel)).read()
    tree = ast.parse(src)
    cands = candidates(tree, src)
    if KINDS:
        cands = [c for c in cands if c[0] in KINDS]
    if not cands:
        return None
    kind, node, extra = cands[idx % len(cands)]
    desc = apply(kind, node, extra, rng)
    ast.fix_missing_locations(tree)
    try:
        new_src = ast.unparse(tree)
        compile(new_src, rel, "exec")
    except Exception as e:
        return None
    tmp = tempfile.mkdtemp(prefix="vbenign.")
    try:
        os.makedirs(tmp + "/src"); shutil.copytree(PKG, tmp + "/src/genjax")
        open(os.path.join(tmp, "src", "genjax", rel), "w").write(new_src)
        r = subprocess.run([os.path.join(HERE, "tools", "check_all.py")], capture_output=True, text=True, env=dict(os.environ, VERIF_REPO=tmp))
        fired = json.loads(r.stdout.strip().splitlines()[-1])
        return dict(file=rel, kind=kind, desc=desc, fired=fired)
    finally:
        shutil.rmtree(tmp, ignore_errors=True)

def baseline_unparse(rel):
    """ast.unparse alone (no edit) must not make anything fire: it drops comments and reformats"""
    return one_noop(rel)

def one_noop(rel):
    src = open(os.path.join(PKG, rel)).read()
    new_src = ast.unparse(ast.parse(src))
    tmp = tempfile.mkdtemp(prefix="vbenign.")
    try:
        os.makedirs(tmp + "/src"); shutil.copytree(PKG, tmp + "/src/genjax")
        open(os.path.join(tmp, "src", "genjax", rel), "w").write(new_src)
        r = subprocess.run([os.path.join(HERE, "tools", "check_all.py")], capture_output=True, text=True, env=dict(os.environ, VERIF_REPO=tmp))
        return dict(file=rel, kind="unparse-only", desc="ast.unparse round trip", fired=json.loads(r.stdout.strip().splitlines()[-1]))
    finally:
        shutil.rmtree(tmp, ignore_errors=True)

if __name__ == "__main__":
    import argparse
    ap = argparse.ArgumentParser(); ap.add_argument("--n", type=int, default=100); ap.add_argument("--seed", type=int, default=1); ap.add_argument("--files", default=""); ap.add_argument("--out", default="/tmp/benign.json")
    ap.add_argument("--kinds", default="", help="comma separated edit kinds; with --all every candidate of these kinds in every file is tried once")
    ap.add_argument("--all", action="store_true")
    a = ap.parse_args()
    files = a.files.split(",") if a.files else anchored_files()
    rng = random.Random(a.seed)
    KINDS.update(k for k in a.kinds.split(",") if k)
    if a.all:
        jobs = []
        for rel in files:
            src_ = open(os.path.join(PKG, rel)).read()
            n_c = len([c for c in candidates(ast.parse(src_), src_) if not KINDS or c[0] in KINDS])
            jobs += [(rel, i, rng.randrange(10**6)) for i in range(n_c)]
    else:
        jobs = [(rng.choice(files), rng.randrange(10**6), rng.randrange(10**6)) for _ in range(a.n)]
    with ThreadPoolExecutor(12) as ex:
        base = list(ex.map(one_noop, files))
        res = [r for r in ex.map(one, jobs) if r]
    noisy = [r for r in base + res if r["fired"]]
    json.dump(dict(base=base, results=res), open(a.out, "w"), indent=1)
    print(f"unparse-only files={len(base)} edits={len(res)} noisy={len(noisy)}")
    for r in noisy:
        print("NOISY", r["file"], f"[{r['kind']}]", r["desc"], "->", json.dumps(r["fired"])[:300])
