#!/venv/bin/python
"""regenerate sa/member_index.json from the CURRENT tree: for every PRIVATE method / module function name that occurs as a string in the rules, its
position among the defs of its class / module and its parameter count (see sa/program.py:_Members).  Run only on the rules' reference tree."""
import glob, json, re, sys
sys.path.insert(0, '/verif')
from sa.program import Program
prog = Program()
names = set()
for f in glob.glob('/verif/sa/props/*.py') + glob.glob('/verif/sa/gfi/*.py') + glob.glob('/verif/sa/*.py'):
    names.update(re.findall(r'"(_[a-z][A-Za-z_0-9]*)"', open(f).read()))
out = {}
def add(scope, members):
    defs = list(members.values())
    for i, d in enumerate(defs):
        if d.name in names and not d.name.startswith("__"):
            n_params = len(d.args.posonlyargs) + len(d.args.args) + (1 if d.args.vararg else 0) + (1 if d.args.kwarg else 0)
            out[f"{scope}/{d.name}"] = {"index": i, "n": len(defs), "n_params": n_params}
for rel, m in prog.modules.items():
    add(rel, m.funcs)
for cname, cis in prog.class_index.items():
    if len(cis) == 1:
        add(cname, cis[0].methods)
json.dump(out, open('/verif/sa/member_index.json', 'w'), indent=1, sort_keys=True)
print(len(out), 'entries')
