#!/venv/bin/python
"""Third-round prompt: behaviour-PRESERVING refactorings of the code a property is anchored in (to test the checks for false alarms).
Gives only the property text and the worktree path."""
import json, sys
pid = sys.argv[1]
wt = f"/tmp/wt3_{pid}"
out = f"/tmp/seed_out3/{pid}"
p = next(json.loads(l) for l in open('/verif/properties.jsonl') if json.loads(l)['id'] == pid)
print(f"""You are helping to evaluate a verification tool for the Python library GenJAX (a probabilistic programming language on JAX). This time the tool is tested for FALSE ALARMS: we need realistic code changes that a maintainer might make and that do NOT change behaviour.

You have your own scratch git worktree of the library at {wt} (library source under {wt}/src/genjax, tests under {wt}/tests). Work ONLY inside {wt} and {out} (create {out}). Never read or touch /repo or /verif. Never kill processes you did not start yourself. NEVER use `git stash`; use `git diff > file` and `git checkout -- .`. Keep tool outputs short (pipe long output through `tail -20`).

How to run code against your worktree (the interpreter /venv/bin/python has all dependencies; PYTHONPATH shadows the installed copy):
  cd {wt} && PYTHONPATH={wt}/src /venv/bin/python your_script.py
  cd {wt} && PYTHONPATH={wt}/src /venv/bin/python -m pytest -q -p no:cacheprovider -n 3 tests/<file or dir> 2>&1 | tail -5
  full suite (about 5-8 minutes): cd {wt} && PYTHONPATH={wt}/src /venv/bin/python -m pytest -q -p no:cacheprovider -n 3 --timeout=900 2>&1 | tail -5   (2 tests in tests/core/test_choice_maps.py::TestSubmap are known-flaky and can be ignored)
(Every shell command prints a harmless conda WARNING line first. There is no network.)

THE PROPERTY the code must keep satisfying (id {p['id']}: {p['title']}):
{p['statement']}
Quantified over: {p['quantifier']['text']}
Code it is anchored in: {', '.join(p['anchors']['files'])}
Mechanisms: {'; '.join((m.get('name') or '') + ' @ ' + (m.get('where') or '') for m in p['anchors']['mechanism'])}

YOUR TASK: produce FIVE independent behaviour-preserving refactorings (patches) of the anchored code (src/genjax only, not tests), in the functions that implement the property above. Each must be something a maintainer could plausibly do and must change the SHAPE of the code, not its behaviour, for example:
  - restructure control flow (early return instead of else; match instead of if/elif; merged or split conditions; guard clauses reordered when independent),
  - extract a helper function / method, or inline one; move a computation into a named temporary or remove a temporary,
  - algebraically equivalent arithmetic (a - b + c reordered, factoring a common term, `x * flag` vs `jnp.where(flag, x, 0.0)` where that is exactly equal for finite x),
  - equivalent library calls (`jtu.tree_map` vs `jax.tree.map`, `jnp.logical_and(a, b)` vs `a & b` for boolean arrays, a comprehension vs a loop, `functools.reduce` vs a loop),
  - renames of locals / private helpers, reordering of independent statements, keyword instead of positional arguments in internal calls,
  - unpacking differently (`a, b = t` vs `t[0]`, `t[1]`), building a tuple in two steps, etc.
Make them NON-TRIVIAL (not just a rename or a comment) and DIFFERENT from each other; prefer the most intricate functions of the anchored files. Each patch should touch 3-25 lines.
Requirements for each refactoring i in 1..5:
  (a) behaviour is unchanged: the existing test suite passes (run the relevant test files for each, and the full suite once for at least two of the five), pyright stays at 0 errors (`cd {wt} && /venv/bin/pyright --pythonpath /venv/bin/python src/genjax 2>&1 | tail -1`), and
  (b) you wrote a small differential script {out}/equiv{{i}}.py that exercises the refactored function on several inputs relevant to the property (including unusual ones) and prints the results; run it on the clean worktree and on the refactored worktree and confirm the outputs are IDENTICAL (save them as {out}/equiv{{i}}.clean.txt and {out}/equiv{{i}}.refactored.txt; use fixed PRNG keys).
Write for each i: {out}/refactor{{i}}.diff (`git diff` relative to HEAD, apply-able with `git apply` from the repository root) and {out}/refactor{{i}}.json = {{"property": "{pid}", "summary": "...what was restructured (file, function) and why it is behaviour-preserving...", "tests_run": "..."}}.
Procedure per refactoring: apply; check (a), (b); `git diff > {out}/refactor{{i}}.diff`; `git checkout -- .`. Leave the worktree clean at the end.
Finish with a brief report listing the five refactorings (file, function, what changed) and the evidence of equivalence you observed.""")
