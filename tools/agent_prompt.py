#!/venv/bin/python
"""Print the prompt for a mutation sub-agent: property text + worktree path only (nothing from /verif's machinery)."""
import json, sys
pid = sys.argv[1]
wt = f"/tmp/wt_{pid}"
out = f"/tmp/seed_out/{pid}"
p = next(json.loads(l) for l in open('/verif/properties.jsonl') if json.loads(l)['id'] == pid)
print(f"""You are helping to evaluate a verification tool by producing realistic *seeded defects* for the Python library GenJAX (a probabilistic programming language on JAX).

You have your own scratch git worktree of the library at {wt} (library source under {wt}/src/genjax, tests under {wt}/tests). Work ONLY inside {wt} and {out}. Never read or touch /repo or /verif. Never kill processes you did not start yourself (other people run tests on this machine in parallel).

How to run code against your worktree (the interpreter /venv/bin/python has all dependencies; PYTHONPATH shadows the installed copy):
  cd {wt} && PYTHONPATH={wt}/src /venv/bin/python your_script.py
  cd {wt} && PYTHONPATH={wt}/src /venv/bin/python -m pytest -q -p no:cacheprovider -n 3 tests/<file or dir>      # per-file 10-60 s
  full suite: cd {wt} && PYTHONPATH={wt}/src /venv/bin/python -m pytest -q -p no:cacheprovider -n 3 --timeout=900   (about 5-8 minutes; 2 tests in tests/core/test_choice_maps.py::TestSubmap are known-flaky/failing and can be ignored)
(Every shell command prints a harmless conda WARNING line first. There is no network.)

THE PROPERTY (id {p['id']}: {p['title']}):
{p['statement']}
Quantified over: {p['quantifier']['text']}
Code it is anchored in: {', '.join(p['anchors']['files'])}
Mechanisms meant to make it hold: {'; '.join((m.get('name') or '') + ' @ ' + (m.get('where') or '') for m in p['anchors']['mechanism'])}

YOUR TASK: produce TWO different, independent changes (patches) to the library source (src/genjax only, not tests) such that each change
  (a) BREAKS the property above for some input/program/history,
  (b) still imports and "compiles" (no syntax/type errors at import; ideally `cd {wt} && /venv/bin/pyright --pythonpath /venv/bin/python src/genjax` stays at 0 errors), and
  (c) the EXISTING test suite still passes with the change (run at least the relevant test files, and preferably the full suite), and
  (d) needs something specific to manifest: an unusual input, a multi-step sequence of operations, a particular edit position or flag combination, or two cooperating sites that each look fine alone - NOT something ordinary use would expose at once. Realistic developer mistakes (wrong variable of the same type, stale value, swapped arguments, dropped term, wrong sign in a rarely used arm, off-by-one index, missing guard, wrong polarity) are preferred over contrived ones. Small patches (1-10 lines) are preferred. The two patches should use different mechanisms and preferably touch different functions.
For each change i in (1, 2) write into {out}/ :
  patch{{i}}.diff   - `git diff` of the change relative to the worktree's HEAD (apply-able with `git apply` from the repository root)
  demo{{i}}.py      - a small standalone program that exits 0 (prints PASS) on the unmodified library and exits non-zero (assertion failure) with the change applied; it must demonstrate a violation of THE PROPERTY as stated, not of some other behaviour
  meta{{i}}.json    - {{"property": "{pid}", "summary": "...what was changed...", "needs": "...what is needed for it to manifest...", "tests_run": "...which tests you ran with the change and the result..."}}
Procedure: read the relevant source; design change 1; apply it in the worktree; check (b),(c); write demo1.py and confirm it FAILS with the change; save patch1.diff (git diff > ...); then `git checkout -- .` to restore and confirm demo1.py PASSES on the clean tree; repeat for change 2. Leave the worktree clean (git checkout -- .) at the end. NEVER use `git stash` (the stash is shared between worktrees of other people working in parallel); use `git diff > file` and `git checkout -- .` instead.
Finish with a brief report: for each change, one paragraph on what it does and the exact commands/results you observed. If you cannot find a change meeting (c) after honest effort, say so rather than handing in one that fails tests.""")
