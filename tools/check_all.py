#!/venv/bin/python
"""run every property's quick check in ONE process against VERIF_REPO (default /repo); print one line per property that fires / errors.
usage: VERIF_REPO=<dir> tools/check_all.py [--json]"""
import importlib, io, json, os, sys, contextlib
HERE = os.path.dirname(os.path.dirname(os.path.abspath(__file__)))
sys.path.insert(0, HERE)
sys.setrecursionlimit(20000)
from sa.program import Program, AnalysisError
from sa.report import Check

def main():
    ids = sorted(f[:-3] for f in os.listdir(os.path.join(HERE, "sa", "props")) if f.startswith("C") and f.endswith(".py"))
    out = {}
    try:
        prog = Program()
    except AnalysisError as e:
        print(json.dumps({"_all": f"ANALYSIS-ERROR {e}"})); return
    known = json.load(open(os.path.join(HERE, "known_findings.json")))
    openk = {(k["property"], k["key"]) for k in known if k.get("status") == "open"}
    for pid in ids:
        chk = Check(pid, "quick", 0, write_evidence=False)
        chk.prog = prog
        try:
            mod = importlib.import_module(f"sa.props.{pid}")
            mod.run(chk, prog)
            new = [v for v in chk.violations if (pid, v["key"]) not in openk]
            if new:
                out[pid] = [f"{v['rule']}/{v['instance']}" for v in new][:4]
        except AnalysisError as e:
            out[pid] = [f"ANALYSIS-ERROR {str(e)[:120]}"]
        except Exception as e:
            out[pid] = [f"ANALYSIS-ERROR internal {type(e).__name__}: {str(e)[:100]}"]
    print(json.dumps(out))
main()
