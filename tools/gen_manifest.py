#!/venv/bin/python
"""regenerate MANIFEST.json from the armed checks (sa/props/Cxx.py) and tools/manifest_text.json"""
import json, os, glob, re
V = '/verif'
ids = [json.loads(l)['id'] for l in open(f'{V}/properties.jsonl')]
titles = {json.loads(l)['id']: json.loads(l)['title'] for l in open(f'{V}/properties.jsonl')}
text = json.load(open(f'{V}/tools/manifest_text.json'))
armed = sorted(os.path.basename(p)[:-3] for p in glob.glob(f'{V}/sa/props/C*.py'))
checks, na = [], []
for i in ids:
    t = text.get(i, {})
    if i in armed and not t.get('disabled'):
        doc = open(f'{V}/sa/props/{i}.py').read().split('"""')[1].strip()
        checks.append({
            "property_id": i,
            "quick_cmd": f"./check {i} --tier quick",
            "thorough_cmd": f"./check {i} --tier thorough",
            "evidence_file": f"evidence/{i}.json",
            "replay_cmd_template": f"./check {i} --replay {{path}}",
            "engine": "sa",
            "level_claimed": {
                "category": "other",
                "text": t.get("level", "Static obligations (structural-induction step per constructor) decided by ast-based dataflow over /repo's current source; decides the structural clauses named in the check's docstring - necessary conditions of the property - for every program, input and history at once, not the numeric behaviour. " + doc.splitlines()[0]),
                "design_ref": f"DESIGN.md section 5 ({i})",
            },
            "level_note": t.get("note", "Trusted: Python/ast semantics, JAX primitives (lax.scan/switch/cond, vmap, random), TFP densities, the paper lemma linking local obligations to the property, the checker itself (validated by mutants/twins in the thorough tier). Inner generative-function calls are opaque atoms (induction hypothesis)."),
            "technique": t.get("technique", "static analysis: ast provenance-term dataflow + linear-form comparison against a per-constructor oracle table"),
        })
    else:
        na.append({"property_id": i, "reason": t.get("na", "check not yet armed in this build (fail-closed: ./check exits 2 not-implemented)")})
m = {
    "version": 1,
    "setup_cmd": "/venv/bin/python -m compileall -q sa check >/dev/null 2>&1 || true",
    "hooks": {"guard": "GENJAX_VERIF", "enable": "none needed: purely static analysis of /repo's source, no instrumentation (guard unused)",
              "baseline_off_cmd": "cd /repo && /venv/bin/python -m pytest -ra -q -p no:cacheprovider --timeout=900 --continue-on-collection-errors",
              "source_commits": [], "add_only": True},
    "engines": [{"name": "sa", "path": "sa/", "serves_properties": [c["property_id"] for c in checks],
                 "kind_free_text": "pure-stdlib ast static analysis: source model (E0), provenance-term evaluator (E1), linear forms (E2), finite-domain evaluation (E4); run with /venv/bin/python; never imports or executes /repo"}],
    "checks": checks,
    "not_applicable": na,
    "notes": "Genuine defects repaired in /repo as `fix:` commits and open findings are listed in known_findings.json; see DESIGN.md section 6.",
}
json.dump(m, open(f'{V}/MANIFEST.json', 'w'), indent=1)
print(len(checks), 'checks;', len(na), 'not applicable')
