#!/venv/bin/python
"""print a python file without docstrings / blank / comment-only lines, keeping line numbers"""
import ast, sys
for path in sys.argv[1:]:
    src = open(path).read()
    tree = ast.parse(src)
    skip = set()
    for n in ast.walk(tree):
        if isinstance(n, (ast.FunctionDef, ast.ClassDef, ast.AsyncFunctionDef, ast.Module)):
            b = n.body
            if b and isinstance(b[0], ast.Expr) and isinstance(b[0].value, ast.Constant) and isinstance(b[0].value.value, str):
                skip.update(range(b[0].lineno, b[0].end_lineno + 1))
    print("=====", path)
    for i, l in enumerate(src.splitlines(), 1):
        if i in skip: continue
        s = l.strip()
        if not s or s.startswith("#"): continue
        print(f"{i}\t{l}")
