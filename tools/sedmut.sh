#!/bin/bash
# usage: tools/sedmut.sh <path under src/genjax> <python-regex> <replacement> [count-th match] -- Cxx...   (quick hand mutants in a scratch copy)
rel=$1; pat=$2; rep=$3; shift 3
nth=1
if [ "$1" != "--" ]; then nth=$1; shift; fi
shift
tmp=$(mktemp -d /tmp/vrepo.XXXXXX); mkdir -p $tmp/src && cp -r /repo/src/genjax $tmp/src/
/venv/bin/python - "$tmp/src/genjax/$rel" "$pat" "$rep" "$nth" <<'PY'
import re,sys
p,pat,rep,nth=sys.argv[1],sys.argv[2],sys.argv[3],int(sys.argv[4])
s=open(p).read()
ms=list(re.finditer(pat,s,re.S))
if len(ms)<nth: print("NO-MATCH",len(ms)); sys.exit(1)
m=ms[nth-1]
s=s[:m.start()]+m.expand(rep)+s[m.end():]
open(p,'w').write(s)
PY
[ $? -ne 0 ] && { rm -rf $tmp; exit 1; }
/venv/bin/python -c "import ast,sys; ast.parse(open('$tmp/src/genjax/$rel').read())" || echo "SYNTAX-ERROR"
for id in "$@"; do VERIF_REPO=$tmp /verif/check $id --no-evidence | grep -E "^(C[0-9]+ \[|VIOLATION|ANALYSIS-ERROR|  rule=)"; done
rm -rf $tmp
