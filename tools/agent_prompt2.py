#!/venv/bin/python
"""Second-round prompt for a sub-agent: (A) hunt for inputs on which the property already fails on the unmodified tree, (B) one or two further
seeded changes at sites not used in round one.  Gives only the property text, the worktree path and a list of already-used sites (from the round-one
agents' own summaries); nothing about /verif's machinery."""
import glob, json, sys
pid = sys.argv[1]
wt = f"/tmp/wt2_{pid}"
out = f"/tmp/seed_out2/{pid}"
p = next(json.loads(l) for l in open('/verif/properties.jsonl') if json.loads(l)['id'] == pid)
used = []
for mp in sorted(glob.glob(f'/verif/seeded/{pid}-*/meta.json')):
    m = json.load(open(mp))
    used.append('  - ' + m.get('summary', '')[:260].replace('\n', ' '))
used_txt = '\n'.join(used) or '  (none)'
print(f"""You are helping to evaluate a verification tool for the Python library GenJAX (a probabilistic programming language on JAX).

You have your own scratch git worktree of the library at {wt} (library source under {wt}/src/genjax, tests under {wt}/tests). Work ONLY inside {wt} and {out} (create {out}). Never read or touch /repo or /verif. Never kill processes you did not start yourself (other people run tests on this machine in parallel). NEVER use `git stash` (shared between worktrees); use `git diff > file` and `git checkout -- .`. Keep tool outputs short (pipe long output through `tail -20`).

How to run code against your worktree (the interpreter /venv/bin/python has all dependencies; PYTHONPATH shadows the installed copy):
  cd {wt} && PYTHONPATH={wt}/src /venv/bin/python your_script.py
  cd {wt} && PYTHONPATH={wt}/src /venv/bin/python -m pytest -q -p no:cacheprovider -n 3 tests/<file or dir>      # per-file 10-60 s
  full suite: cd {wt} && PYTHONPATH={wt}/src /venv/bin/python -m pytest -q -p no:cacheprovider -n 3 --timeout=900 2>&1 | tail -5   (about 5-8 minutes; 2 tests in tests/core/test_choice_maps.py::TestSubmap are known-flaky/failing and can be ignored)
(Every shell command prints a harmless conda WARNING line first. There is no network.)

THE PROPERTY (id {p['id']}: {p['title']}):
{p['statement']}
Quantified over: {p['quantifier']['text']}
Code it is anchored in: {', '.join(p['anchors']['files'])}
Mechanisms meant to make it hold: {'; '.join((m.get('name') or '') + ' @ ' + (m.get('where') or '') for m in p['anchors']['mechanism'])}

PART A - counterexample hunt on the UNMODIFIED library (spend roughly half of your effort here).
Read the anchored code critically and try to find an input / program / sequence of operations for which THE PROPERTY AS STATED already fails on the unmodified worktree: unusual shapes or configurations, boundary indices, nested combinators, argument changes together with constraints, traced versus concrete flags, repeated operations, asymmetric parameters, anything the existing tests do not exercise. A crash (exception) on an input the property quantifies over counts, as does a silently wrong number. For every genuine counterexample k = 1, 2, ... write
  {out}/clean{{k}}.py   - standalone program that exits NON-ZERO on the unmodified library, printing what was expected and what was observed
  {out}/clean{{k}}.md   - the smallest explanation: which function / line is responsible and why, and (if you see one) the minimal repair
Only report counterexamples you have actually executed and that violate the property as stated (not a different expectation of your own). If you find none after honest effort, say so - that is a useful result too.

PART B - ONE OR TWO further seeded defects. Produce changes (patches) to the library source (src/genjax only, not tests) such that each change
  (a) BREAKS the property above for some input/program/history,
  (b) still imports and type-checks (`cd {wt} && /venv/bin/pyright --pythonpath /venv/bin/python src/genjax 2>&1 | tail -1` stays at 0 errors),
  (c) the EXISTING test suite still passes with the change (run the relevant test files, and the full suite once per change), and
  (d) needs something specific to manifest (unusual input, multi-step sequence, particular flag combination, two cooperating sites) - not something ordinary use exposes at once. Realistic developer mistakes are preferred; 1-10 line patches are preferred.
These sites were already used by earlier changes - choose DIFFERENT functions / mechanisms (if the property is anchored in several files, prefer a file not listed here):
{used_txt}
For each change i in (3, 4) write into {out}/ :
  patch{{i}}.diff   - `git diff` relative to the worktree's HEAD (apply-able with `git apply` from the repository root)
  demo{{i}}.py      - standalone program that exits 0 (prints PASS) on the unmodified library and exits non-zero with the change applied; it must demonstrate a violation of THE PROPERTY as stated
  meta{{i}}.json    - {{"property": "{pid}", "summary": "...what was changed (file, function)...", "needs": "...what is needed for it to manifest...", "tests_run": "...tests you ran with the change and the result..."}}
Procedure per change: apply it in the worktree; check (b),(c); write the demo and confirm it FAILS with the change; `git diff > {out}/patch{{i}}.diff`; `git checkout -- .`; confirm the demo PASSES on the clean tree. Leave the worktree clean at the end.
Finish with a brief report: Part A findings (or "none found" with what you tried), then one paragraph per change with the exact commands / results you observed.""")
