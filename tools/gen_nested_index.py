#!/venv/bin/python
"""regenerate sa/nested_index.json from the CURRENT tree: for every prog.nested(<outer>, "name", ...) lookup in the rules, the position of the nested def among
the outer function's nested defs (ast.walk order) and its parameter count.  Run only on a tree on which all checks pass (the rules' reference tree)."""
import ast, glob, json, os, re, sys
sys.path.insert(0, '/verif')
from sa.program import Program, _nested_defs
prog = Program()
names = set()
for f in glob.glob('/verif/sa/props/*.py') + glob.glob('/verif/sa/gfi/*.py'):
    for m in re.finditer(r'prog\.nested\(([^)]*)\)', open(f).read()):
        names.update(re.findall(r'"([A-Za-z_0-9]+)"', m.group(1)))
out = {}
for rel, m in prog.modules.items():
    for outer in ast.walk(m.tree):
        if not isinstance(outer, ast.FunctionDef):
            continue
        defs = _nested_defs(outer)
        for i, d in enumerate(defs):
            if d.name in names:
                n_params = len(d.args.posonlyargs) + len(d.args.args) + (1 if d.args.vararg else 0) + (1 if d.args.kwarg else 0)
                out.setdefault(f"{outer.name}/{d.name}", [])
                ent = {"index": i, "n_defs": len(defs), "n_params": n_params}
                if ent not in out[f"{outer.name}/{d.name}"]:
                    out[f"{outer.name}/{d.name}"].append(ent)
json.dump(out, open('/verif/sa/nested_index.json', 'w'), indent=1, sort_keys=True)
print(len(out), 'entries')
