#!/venv/bin/python
"""maintain known_findings.json (never called by checks):
   kf.py open  <pid> <replay.json|key> "<what fails: input / call site>"
   kf.py fixed <pid> <commit> "<key>" "<what failed>"
"""
import json, sys, os
F = '/verif/known_findings.json'
d = json.load(open(F))
cmd, pid = sys.argv[1], sys.argv[2]
if cmd == 'open':
    k = sys.argv[3]
    if os.path.exists(k):
        k = json.load(open(k))['key']
    what = sys.argv[4]
    d = [e for e in d if not (e['property'] == pid and e['key'] == k)]
    d.append({"property": pid, "key": k, "status": "open", "what": what,
              "line": f"KNOWN-FINDING: property={pid} {what}"})
elif cmd == 'fixed':
    commit, k, what = sys.argv[3], sys.argv[4], sys.argv[5]
    d = [e for e in d if not (e['property'] == pid and e['key'] == k)]
    d.append({"property": pid, "key": k, "status": "fixed", "commit": commit, "what": what,
              "line": f"fixed: property={pid} {commit} {what}"})
d.sort(key=lambda e: (e['property'], e['status'], e['key']))
json.dump(d, open(F, 'w'), indent=1)
print(len(d), 'entries')
