"""Runtime probes that reproduce the genuine defects found by the static checks against the
real code (documentation for known_findings.json / fix: commits; NOT part of any check).
usage: PYTHONPATH=<tree>/src /venv/bin/python probes/defects.py [name ...]
"""
import sys, traceback
import jax, jax.numpy as jnp
import jax.tree_util as jtu
import genjax
from genjax import gen, normal, flip, ChoiceMapBuilder as C, Selection as S, Diff, Update, Regenerate
from genjax._src.core.generative.requests import EmptyRequest

key = jax.random.key(0)
P = {}
def probe(f):
    P[f.__name__] = f
    return f

@probe
def c32_closure_edit():
    @gen
    def m(x, y):
        return normal(x + y, 1.0) @ "z"
    clo = m(1.0)
    tr = clo.simulate(key, (2.0,))
    new, w, rd, bwd = clo.edit(key, tr, Update(C["z"].set(0.5)), Diff.no_change((2.0,)))
    ref, wr, _, _ = m.edit(key, tr, Update(C["z"].set(0.5)), Diff.no_change((1.0, 2.0)))
    assert jnp.allclose(w, wr), (w, wr)
    return "weight %s" % w

@probe
def c12_scan_edit_index_carry():
    from genjax import IndexRequest
    @gen
    def k(c, x):
        z = normal(0.0, 1.0) @ "z"
        return c + x, z
    sc = k.scan(n=4)
    xs = jnp.arange(4.0)
    tr = sc.simulate(key, (0.0, xs))
    out = []
    for idx in (0, 1, 3):
        req = IndexRequest(jnp.array(idx), Update(C["z"].set(0.3)))
        new, w, rd, bwd = req.edit(key, tr, Diff.no_change((0.0, xs)))
        out.append(float(new.get_retval()[0]))
    assert out == [6.0, 6.0, 6.0], out
    return out

@probe
def c27_rejuvenate_bwd_args():
    from genjax._src.inference.requests.rejuvenate import Rejuvenate
    @gen
    def model():
        return normal(0.0, 1.0) @ "x"
    @gen
    def prop(x):
        return normal(x, 0.5) @ "x"
    tr = model.simulate(key, ())
    x = tr.get_choices()["x"]
    req = Rejuvenate(prop, lambda chm: (chm["x"],))
    new, w, _, _ = req.edit(jax.random.key(1), tr, ())
    xn = new.get_choices()["x"]
    lp = lambda v, m, s: jax.scipy.stats.norm.logpdf(v, m, s)
    expect = lp(xn, 0, 1) + lp(x, xn, 0.5) - lp(x, 0, 1) - lp(xn, x, 0.5)
    assert jnp.allclose(w, expect, atol=1e-5), (w, expect)
    return float(w)

@probe
def c25_marginal_weight():
    @gen
    def model():
        x = normal(0.0, 1.0) @ "x"
        return normal(x, 1.0) @ "y"
    m = model.marginal()
    w, chm = m.random_weighted(key)
    w2 = m.estimate_logpdf(key, chm)
    assert jnp.allclose(w, w2), (w, w2)
    return float(w)

@probe
def c25_marginal_estimate_logpdf_args():
    @gen
    def model(mu):
        x = normal(mu, 1.0) @ "x"
        return x
    m = model.marginal()
    w, chm = m.random_weighted(key, 1.0)
    return float(m.estimate_logpdf(key, chm, 1.0))

@probe
def c16_masked_iterate_final():
    @gen
    def step(x):
        return x + 1.0
    model = genjax.masked_iterate_final()(step)
    tr = model.simulate(key, (0.0, jnp.array([True, False, True, False])))
    r = float(tr.get_retval())
    assert r == 2.0, r
    return r

@probe
def c37_discrete_hmm():
    from genjax._src.generative_functions.distributions.custom.discrete_hmm import DiscreteHMM, DiscreteHMMConfiguration
    cfg = DiscreteHMMConfiguration(jnp.array(5), jnp.array(1), jnp.array(1), jnp.array(0.5), jnp.array(0.5))
    obs = jnp.array([2, 3, 2])
    w, v = DiscreteHMM.random_weighted(key, cfg, obs)
    return float(w), [int(i) for i in v], float(DiscreteHMM.data_logpdf(cfg, obs))

@probe
def c29_expectation_estimate():
    from genjax._src.adev.core import expectation
    from genjax._src.adev.primitives import normal_reparam
    @expectation
    def f(mu):
        x = normal_reparam(mu, 1.0)
        return x
    v = f.estimate(key, (3.0,))
    g = f.grad_estimate(key, (3.0,))
    assert abs(float(g[0]) - 1.0) < 1e-5, g
    # primal of estimate must be the program's value at mu=3 for the sampled eps (=> far from 0-mean only statistically);
    # exact check: estimate(mu) - estimate(mu') == mu - mu' for the same key
    v2 = f.estimate(key, (5.0,))
    assert abs(float(v2 - v) - 2.0) < 1e-5, (v, v2)
    return float(v)

@probe
def c29_mvnormal_reparam_tangent():
    from genjax._src.adev.core import expectation
    from genjax._src.adev.primitives import mv_normal_reparam
    @expectation
    def f(mu):
        x = mv_normal_reparam(mu, jnp.eye(2))
        return jnp.sum(x)
    g = f.grad_estimate(key, (jnp.zeros(2),))
    assert jnp.allclose(g[0], jnp.ones(2)), g
    return [float(a) for a in g[0]]

@probe
def c26_algorithm_estimate_logpdf_args():
    from genjax._src.inference.smc import Importance, ImportanceK
    from genjax._src.inference.sp import Target
    @gen
    def model():
        x = flip(0.3) @ "x"
        y = flip(jnp.where(x, 0.9, 0.2)) @ "y"
        return y
    tgt = Target(model, (), C["y"].set(True))
    alg = ImportanceK(tgt, None, 2)
    w = alg.estimate_logpdf(key, C["x"].set(True), tgt)
    return float(w)

@probe
def c07_static_regenerate_const_retval():
    @gen
    def f():
        x = normal(0.0, 1.0) @ "x"
        return 1.0
    tr = f.simulate(key, ())
    new, w, rd, bwd = Regenerate(S.at["x"]).edit(jax.random.key(1), tr, ())
    return float(w)

@probe
def c38_static_request_const_retval():
    from genjax._src.generative_functions.static import StaticRequest
    @gen
    def f():
        x = normal(0.0, 1.0) @ "x"
        return 1.0
    tr = f.simulate(key, ())
    new, w, rd, bwd = StaticRequest({"x": Regenerate(S.all())}).edit(jax.random.key(1), tr, ())
    return float(w)

@probe
def c13_switch_out_of_range():
    @gen
    def b1():
        return normal(0.0, 1.0) @ "x1"
    @gen
    def b2():
        return normal(5.0, 1.0) @ "x2"
    sw = genjax.switch(b1, b2)
    out = []
    for idx in (-1, 2, 5):
        tr = sw.simulate(key, (jnp.array(idx), (), ()))
        chm = tr.get_choices()
        # documented: clamped -> idx<0 runs branch 0, idx>=2 runs branch 1
        want = "x1" if idx < 0 else "x2"
        sub = tr.subtraces[0 if idx < 0 else 1]
        assert jnp.allclose(tr.get_score(), sub.get_score()), (idx, tr.get_score(), sub.get_score())
        assert jnp.allclose(tr.get_retval(), sub.get_retval()), (idx, tr.get_retval(), sub.get_retval())
        v = chm.get_submap(want).get_value()
        from genjax import Mask
        flag = v.primal_flag() if isinstance(v, Mask) else (v is not None)
        assert bool(flag), (idx, want, v)
        out.append((idx, float(tr.get_score())))
    return out

@probe
def c05_switch_index_change_weight():
    @gen
    def b1():
        return normal(0.0, 1.0) @ "x1"
    @gen
    def b2():
        return normal(5.0, 1.0) @ "x2"
    sw = genjax.switch(b1, b2)
    tr = sw.simulate(key, (jnp.array(0), (), ()))
    new, w, rd, bwd = sw.edit(jax.random.key(2), tr, Update(C["x2"].set(10.5)),
                              (Diff.unknown_change(jnp.array(1)), (), ()))
    expect = new.get_score() - tr.get_score()
    assert jnp.allclose(w, expect, atol=1e-5), (float(w), float(expect))
    return float(w)

@probe
def c28_hmc_gradient_carry():
    # two leapfrog steps on a standard normal: compare with a hand-written integrator
    from genjax._src.inference.requests.hmc import HMC, sample_momenta, selection_gradient
    import jax.random as jrand
    @gen
    def model():
        return normal(0.0, 1.0) @ "x"
    tr = model.simulate(key, ())
    eps, L = 0.3, 3
    req = HMC(S.at["x"], jnp.array(eps), L)
    k = jax.random.key(7)
    new, alpha, _, _ = req.edit(k, tr, ())
    # reference
    k2, sub = jrand.split(k)
    values, grads = selection_gradient(S.at["x"], tr, ())
    mom, _ = sample_momenta(sub, grads)
    x = values["x"]; p = mom["x"]
    for _ in range(L):
        p = p + eps / 2 * (-x)
        x = x + eps * p
        p = p + eps / 2 * (-x)
    assert jnp.allclose(new.get_choices()["x"], x, atol=1e-5), (new.get_choices()["x"], x)
    return float(x)

@probe
def c06_scan_regenerate_bwd():
    @gen
    def k(c, x):
        z = normal(c, 1.0) @ "z"
        return z, z
    sc = k.scan(n=3)
    tr = sc.simulate(key, (0.0, None))
    new, w, rd, bwd = Regenerate(S.at["z"]).edit(jax.random.key(3), tr, Diff.no_change((0.0, None)))
    back, w2, _, _ = bwd.edit(jax.random.key(4), new, Diff.no_change((0.0, None)))
    assert jnp.allclose(back.get_score(), tr.get_score())
    return float(w + w2)

@probe
def c06_switch_bwd_branch():
    @gen
    def b1():
        return normal(0.0, 1.0) @ "x1"
    @gen
    def b2():
        return normal(5.0, 1.0) @ "x2"
    sw = genjax.switch(b1, b2)
    tr = sw.simulate(key, (jnp.array(1), (), ()))
    old = tr.get_choices()["x2"]
    new, w, rd, bwd = sw.edit(key, tr, Update(C["x2"].set(7.0)), Diff.no_change((jnp.array(1), (), ())))
    back, w2, _, _ = bwd.edit(key, new, Diff.no_change((jnp.array(1), (), ())))
    v = back.get_choices()["x2"]
    v = v.value if hasattr(v, "value") else v
    o = old.value if hasattr(old, "value") else old
    assert jnp.allclose(v, o), (v, o)
    return float(w + w2)

@probe
def c13_switch_assess_other_branch_addresses():
    @gen
    def b1():
        return normal(0.0, 1.0) @ "x1"
    @gen
    def b2():
        return normal(5.0, 1.0) @ "x2"
    sw = genjax.switch(b1, b2)
    s, r = sw.assess(C["x2"].set(9.5), (jnp.array(1), (), ()))
    return float(s)

@probe
def c17_indexed_selection():
    one = C[1, "v"].set(5.0)
    f = one.filter(one.get_selection())
    assert not f.static_is_empty()
    assert bool(one.get_selection()["v"])
    return "ok"

@probe
def c23_mixed_address_jit():
    @gen
    def sub():
        return normal(0.0, 1.0) @ "b"
    @gen
    def model():
        a = normal(0.0, 1.0) @ "a"
        b = normal(0.0, 1.0) @ ("sub", "b")
        return a + b
    tr = model.simulate(key, ())
    tr2 = jax.jit(model.simulate)(key, ())
    assert jnp.allclose(tr.get_score(), tr2.get_score())
    return float(tr2.get_score())

@probe
def c29_flip_mvd():
    from genjax._src.adev.core import expectation
    from genjax._src.adev.primitives import flip_mvd
    @expectation
    def f(p):
        b = flip_mvd(p)
        return jnp.where(b, 1.0, 0.0)
    g = f.grad_estimate(key, (0.3,))
    return float(g[0])

@probe
def c29_categorical_enum():
    from genjax._src.adev.core import expectation
    from genjax._src.adev.primitives import categorical_enum_parallel
    @expectation
    def f(probs):
        i = categorical_enum_parallel(probs)
        return jnp.array([1.0, 2.0, 4.0])[i]
    v = f.estimate(key, (jnp.array([0.2, 0.3, 0.5]),))
    assert abs(float(v) - (0.2 + 0.6 + 2.0)) < 1e-5, v
    return float(v)

@probe
def c26_csmc_no_proposal():
    from genjax._src.inference.smc import Importance
    from genjax._src.inference.sp import Target
    @gen
    def model():
        x = flip(0.3) @ "x"
        y = flip(jnp.where(x, 0.9, 0.2)) @ "y"
        return y
    tgt = Target(model, (), C["y"].set(True))
    alg = Importance(tgt)
    # exact posterior p(x=T|y=T) = .27/(.27+.14)
    w = alg.estimate_logpdf(key, C["x"].set(True), tgt)
    exact = jnp.log(0.27 / 0.41)
    assert abs(float(w) - float(exact)) < 0.7, (float(jnp.exp(w)), float(jnp.exp(exact)))
    return float(jnp.exp(w))

@probe
def c04_scan_key_collision():
    # found by a mutation sub-agent on the clean tree: Scan carried the folded key, so fold_in(k_i, i+1) collided with the kernel handler's fold_in(k_i, c)
    @gen
    def h():
        p = flip(0.5) @ "p"
        q = flip(0.5) @ "q"
        return q
    @gen
    def kern(c, _):
        u = h() @ "h"
        b = flip(0.5) @ "b"
        return c, (u, b)
    m = kern.scan(n=3)
    def one(k):
        return m.simulate(k, (0.0, None)).get_retval()[1]
    q, b = jax.vmap(one)(jax.random.split(jax.random.key(0), 2000))
    same = float(jnp.mean(q[:, 0] == b[:, 1]))
    assert 0.4 < same < 0.6, same
    return same

@probe
def c08_mixed_retval_tags():
    @gen
    def f(x):
        y = normal(x, 1.0) @ "y"
        return y, 1.0
    tr = f.simulate(key, (0.0,))
    new, w, rd, bwd = Update(C["y"].set(3.0)).edit(key, tr, Diff.no_change((0.0,)))
    from genjax._src.core.compiler.interpreters.incremental import UnknownChange
    assert rd[0].tangent == UnknownChange, rd
    return str(rd[0].tangent)

@probe
def c37_hmm_forward_filter_asymmetric():
    """N=4, transition truncation 3 (>= N/2: the circulant tensor is asymmetric): the forward filters must equal p(x_t | y_1..t) by enumeration"""
    import itertools
    import numpy as np
    from genjax._src.generative_functions.distributions.custom.discrete_hmm import DiscreteHMMConfiguration, forward_filtering_backward_sampling
    N, obs = 4, [0, 2, 1]
    cfg = DiscreteHMMConfiguration(jnp.array(N), jnp.array(3), jnp.array(1), jnp.array(0.5), jnp.array(0.5))
    sm = lambda a: np.exp(np.asarray(a, dtype=np.float64)) / np.exp(np.asarray(a, dtype=np.float64)).sum(-1, keepdims=True)
    T, E = sm(cfg.transition_tensor()), sm(cfg.observation_tensor())
    prior = T[N // 2]
    _, (_s, ff) = forward_filtering_backward_sampling(key, cfg, jnp.array(obs))
    err = 0.0
    for t in range(len(obs)):
        a = np.zeros(N)
        for z in itertools.product(range(N), repeat=t + 1):
            p_ = prior[z[0]] * E[z[0], obs[0]]
            for s_ in range(1, t + 1):
                p_ *= T[z[s_ - 1], z[s_]] * E[z[s_], obs[s_]]
            a[z[-1]] += p_
        err = max(err, float(np.abs(np.exp(np.asarray(ff[t])) - a / a.sum()).max()))
    assert err < 1e-5, f"filter error {err}"
    return err

@probe
def c29_flip_enum_parallel():
    """d/dp E_{b ~ flip(p)}[b ? 2p : 3] = 4p - 3; flip_enum_parallel enumerates both outcomes, so the estimate is exact"""
    from genjax._src.adev.core import expectation
    from genjax._src.adev.primitives import flip_enum_parallel
    @expectation
    def f(p):
        b = flip_enum_parallel(p)
        return jnp.where(b, 2.0 * p, 3.0)
    g = float(f.grad_estimate(key, (0.3,))[0])
    assert abs(g - (4 * 0.3 - 3)) < 1e-4, g
    return g

@probe
def c15_dimap_constant_output():
    """dimap whose pre / post returns a Python constant in one position: an argument-changing update must recompute pre / post, not raise
    (found by the round-2 C15 sub-agent: Literal outvars left the incremental interpreter un-tagged)"""
    import genjax
    @gen
    def model(x, y):
        z = normal(x, y) @ "z"
        return z + x
    out = []
    for pre, post in ((lambda x, y: (x, 1.0), lambda a, xa, r: r * 2), (lambda x, y: (x, y), lambda a, xa, r: (r * 2, 0.0))):
        g = model.dimap(pre=pre, post=post)
        tr = g.simulate(key, (1.0, 2.0))
        new_tr, w, rd, _ = tr.update(key, C.n(), Diff.unknown_change((3.0, 2.0)))
        inner_new = pre(3.0, 2.0)
        exp_score, inner_ret = model.assess(tr.get_choices(), inner_new)
        exp = post((3.0, 2.0), inner_new, inner_ret)
        assert jnp.allclose(jnp.asarray(jtu.tree_leaves(new_tr.get_retval())), jnp.asarray(jtu.tree_leaves(exp))), (new_tr.get_retval(), exp)
        out.append(float(w))
    return out

@probe
def c14_mask_of_mask_assess():
    """fixed: a masked function whose inner function returns a Mask can be assessed (Mask.build merges the flags)"""
    m = normal.mask().mask()
    tr = m.simulate(key, (True, True, 0.0, 1.0))
    score, ret = m.assess(tr.get_choices(), tr.get_args())
    assert jnp.allclose(score, tr.get_score())
    return float(score)

@probe
def c14_mask_of_mask_edit():
    """open: updating a masked function whose inner function returns a Mask raises AssertionError in Mask.build (Diff flags)"""
    m = normal.mask().mask()
    tr = m.simulate(key, (True, True, 0.0, 1.0))
    new, w, rd, bwd = tr.update(key, C.n(), Diff.no_change((True, True, 0.0, 1.0)))
    return float(w)

@probe
def c14_mask_false_assess():
    """open: concrete False flag: the trace's own (empty) choices cannot be assessed"""
    m = normal.mask()
    tr = m.simulate(key, (False, 0.0, 1.0))
    score, ret = m.assess(tr.get_choices(), tr.get_args())
    assert float(score) == 0.0
    return float(score)

@probe
def c05_scan_switch_empty_update():
    """an empty Update with unchanged arguments on scan(switch) must keep every choice and have weight 0 (found by the round-2 C10 sub-agent)"""
    import genjax
    @gen
    def b0(c):
        return normal(c, 1.0) @ "x"
    @gen
    def b1(c):
        return normal(c, 2.0) @ "x"
    sw = genjax.switch(b0, b1)
    @genjax.scan(n=3)
    @gen
    def step(c, i):
        w = sw(i, (c,), (c,)) @ "s"
        return c, w
    args = (0.5, jnp.array([0, 1, 0]))
    tr = step.simulate(key, args)
    new, w, _, _ = Update(C.n()).edit(jax.random.key(7), tr, Diff.no_change(args))
    old_x, new_x = jtu.tree_leaves(tr.get_choices()), jtu.tree_leaves(new.get_choices())
    assert all(bool(jnp.allclose(a, b)) for a, b in zip(old_x, new_x)), (old_x, new_x)
    assert abs(float(w)) < 1e-6, w
    return float(w)

@probe
def c01_assess_choice_free_callee():
    """open: a callee without random choices has an empty sub-map; assess of the trace's own choices raises MissingAddress"""
    @gen
    def det(x):
        return x * 2.0
    @gen
    def model(x):
        d = det(x) @ "d"
        return normal(d, 1.0) @ "y"
    tr = model.simulate(key, (1.0,))
    score, _ = model.assess(tr.get_choices(), tr.get_args())
    assert jnp.allclose(score, tr.get_score())
    return float(score)

@probe
def c07_edit_uses_old_callee():
    """open: edits dispatch on the callee stored in the OLD trace: data captured by the callee (partial_apply) stays stale under an argument change"""
    @gen
    def inner(mu):
        return normal(mu, 1.0) @ "v"
    @gen
    def model(a):
        return inner.partial_apply(a)() @ "x"
    tr = model.simulate(key, (1.0,))
    new, w, _, _ = tr.update(key, C.n(), Diff.unknown_change((3.0,)))
    score, _ = model.assess(new.get_choices(), (3.0,))
    assert jnp.allclose(score, new.get_score()), (float(score), float(new.get_score()))
    return float(score)

@probe
def c17_vmapped_builder_nested_index():
    """open: a vmapped builder with a nested index level answers lookups with the wrong value / flag"""
    vals = jnp.array([10.0, 11.0, 12.0])
    direct = C[0, jnp.arange(3)].set(vals)
    vm = jax.vmap(lambda i, v: C[0, i].set(v))(jnp.arange(3), vals)
    a, b = direct[0, 1], vm[0, 1]
    assert bool(b.flag) and float(b.value) == float(a.value), (a, b)
    return float(b.value)

@probe
def c23_switch_of_masks_eager():
    """open: eager call with Python-bool mask flags raises, the jitted call works"""
    import genjax
    @gen
    def b1(x):
        return normal(x, 1.0) @ "x"
    @gen
    def b2(x):
        return normal(x, 2.0) @ "x"
    sw = genjax.switch(b1.mask(), b2.mask())
    args = (jnp.array(1), (True, 0.1), (True, 0.2))
    tr = sw.simulate(key, args)
    return float(tr.get_score())

@probe
def c25_marginal_algorithm_all_selected():
    """open: with an algorithm and everything selected, Marginal.random_weighted must return the exact log density (estimate_logpdf does)"""
    import genjax
    from genjax import SelectionBuilder as SB
    from genjax._src.inference.smc import Importance
    from genjax._src.inference.sp import Target
    @gen
    def model():
        x = flip(0.5) @ "x"
        return flip(jnp.where(x, 0.9, 0.3)) @ "y"
    alg = Importance(Target(model, (), C.n()))
    m = genjax.marginal(selection=SB["x"] | SB["y"], algorithm=alg)(model)
    w, v = m.random_weighted(key)
    exact = m.estimate_logpdf(key, v)
    assert jnp.allclose(w, exact, atol=1e-5), (float(w), float(exact))
    return float(w)

@probe
def c05_masked_update_python_scalar_trace():
    """fixed 660ef7a: masked Update of a trace that holds a Python float (constraint given as C.choice(1.0)) raised AttributeError in Distribution._like"""
    from genjax import Update, Diff, Mask
    from genjax import ChoiceMap as CM_
    tr, _ = normal.importance(key, CM_.choice(1.0), (0.0, 1.0))
    out = Update(CM_.choice(Mask(2.0, jnp.array(True)))).edit(key, tr, Diff.no_change((0.0, 1.0)))
    back = out[3].edit(key, out[0], Diff.no_change((0.0, 1.0)))
    assert float(out[0].get_retval()) == 2.0 and float(back[0].get_retval()) == 1.0 and abs(float(out[1]) + float(back[1])) < 1e-6
    return float(out[1])

@probe
def c26_csmc_vector_leaf_and_single_particle():
    """fixed 23c03e0: ImportanceK.estimate_logpdf (run_csmc) raised for k_particles=1 and for traces with a vector-valued leaf"""
    from genjax import ChoiceMap as CM_, categorical
    from genjax._src.inference.smc import ImportanceK
    from genjax._src.inference.sp import Target
    @gen
    def model2():
        z = categorical(jnp.array([0.1, 0.2, 0.7])) @ "z"
        y = flip(jnp.array([0.1, 0.5, 0.9])[z]) @ "y"
        return z
    tgt = Target(model2, (), CM_.kw(y=True))
    out = []
    for k in (1, 2, 3):
        out.append(float(ImportanceK(tgt, k_particles=k).estimate_logpdf(key, CM_.kw(z=jnp.array(2)), tgt)))
    assert out[0] == 0.0 and all(jnp.isfinite(jnp.array(out)))
    return out

if __name__ == "__main__":
    names = sys.argv[1:] or list(P)
    bad = 0
    for n in names:
        try:
            r = P[n]()
            print(f"PASS {n}: {r}")
        except Exception as e:
            bad += 1
            msg = (str(e).strip().splitlines() or [""])[0][:160]
            print(f"FAIL {n}: {type(e).__name__}: {msg}")
    sys.exit(1 if bad else 0)
